#!/bin/bash
# usage: seedsuite.sh <prop> <round-letter>  - the pinned suite in the seed's worktree (change applied); result line in /tmp/seed/suite_<prop>_<letter>.txt
P=$1; L=$2; WT=/tmp/seed/${P}_$L
cd $WT || exit 2
PYTHONPATH=$WT/src /venv/bin/python -m pytest -q -p no:cacheprovider --timeout=900 -x > /tmp/seed/suite_${P}_$L.log 2>&1
echo "$P exit=$? $(grep -E 'passed|failed|error' /tmp/seed/suite_${P}_$L.log | tail -1)" > /tmp/seed/suite_${P}_$L.txt
