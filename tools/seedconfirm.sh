#!/bin/bash
# usage: seedconfirm.sh <prop> <round-letter>   - in the seed's own worktree: the full suite with the change, the demo with
# and without it; one result line in /tmp/seed/confirm_<prop>_<letter>.txt
P=$1; L=$2; WT=/tmp/seed/${P}_$L
cd $WT || exit 2
export PYTHONPATH=$WT/src
git diff -- src > /tmp/seed/confirm_${P}_$L.patch
t=$(/venv/bin/python -m pytest -q -p no:cacheprovider --timeout=900 -x 2>&1 | tail -1)
/venv/bin/python demo_$P.py > /tmp/seed/confirm_${P}_$L.with 2>/dev/null; w=$?
git apply -R /tmp/seed/confirm_${P}_$L.patch
/venv/bin/python demo_$P.py > /tmp/seed/confirm_${P}_$L.without 2>/dev/null; wo=$?
git apply /tmp/seed/confirm_${P}_$L.patch
echo "$P tests=[$t] demo_with_change_exit=$w demo_without_exit=$wo" > /tmp/seed/confirm_${P}_$L.txt
