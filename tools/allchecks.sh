#!/bin/bash
# run every check for the given seeds; print one line per (seed, property)
cd /verif
for s in "$@"; do
  for p in C01 C02 C03 C04 C05 C06 C07 C08 C09 C10 C11 C12 C13 C14 C15 C16 C17 C18 C19 C20; do
    t0=$(date +%s)
    out=$(VERIF_SEED=$s timeout 1500 ./check $p --tier ${TIER:-quick} 2>&1 | grep -v "^KNOWN-FINDING" | tail -2 | tr '\n' ' ')
    rc=$?
    echo "seed=$s $p $(( $(date +%s) - t0 ))s :: ${out:0:200}"
  done
done
