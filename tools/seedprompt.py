import json, sys
pid = sys.argv[1]
n = sys.argv[2] if len(sys.argv) > 2 else '1'
avoid = sys.argv[3] if len(sys.argv) > 3 else ''
extra = sys.argv[4] if len(sys.argv) > 4 else ''
for l in open('/verif/properties.jsonl'):
    p = json.loads(l)
    if p['id'] == pid:
        break
wt = f'/tmp/seed/{pid}' + ('' if n == '1' else f'_{n}')
print(f"""You are helping to evaluate a verification tool by producing a realistic, subtle bug ("seeded mutation") in a Python library.

The library is `dliswriter` (pure-Python writer of DLIS / RP66 V1 well-log files). You have your own private git worktree of it at {wt} (source under {wt}/src/dliswriter, tests under {wt}/src/tests). Work ONLY inside {wt}. Do NOT read or touch /repo, /verif or any other worktree under /tmp/seed. The python to use is /venv/bin/python, and you MUST run it with PYTHONPATH={wt}/src so that your worktree's copy of the package is imported (check with: cd {wt} && PYTHONPATH={wt}/src /venv/bin/python -c "import dliswriter; print(dliswriter.__file__)").

The property to break ({pid}: {p['title']}):

"{p['statement']}"

It is meant to hold for: {p['quantifier']['text']}

Your task: make ONE small, realistic change to the library source (not the tests) that breaks this property while
 (a) the package still imports, and the existing test suite still passes completely: cd {wt} && PYTHONPATH={wt}/src /venv/bin/python -m pytest -q -p no:cacheprovider --timeout=900 -x -q  (takes ~5 minutes; 475 tests must pass), and
 (b) the breakage needs something SPECIFIC to manifest - a particular size/length boundary, an unusual but valid input, a multi-step sequence of operations, a particular combination of options, or two cooperating sites that each look fine alone - NOT something ordinary use would expose at once. Think of the kind of off-by-one, wrong-comparison, stale-cache, missed-branch or boundary mistakes a maintainer could plausibly make in a refactoring or "optimisation".

{("Other engineers have already produced mutations in: " + ", ".join("src/dliswriter/" + a for a in avoid.split(",")) + " - choose a DIFFERENT file where you can, and in any case a clearly different function and mechanism, so that the mutations are unrelated. Prefer a mechanism that a single ordinary build-and-write would not expose: state carried between calls or between writes of the same object, interaction of two features, a rarely used but documented input type or route, or a boundary value of a length/count/reference field.") if avoid else ""}

{extra}

Deliver, inside {wt}:
 1. the change itself, left UNCOMMITTED in the worktree (I will collect it with `git diff`);
 2. a demonstration script {wt}/demo_{pid}.py (stand-alone, run as: cd {wt} && PYTHONPATH={wt}/src /venv/bin/python demo_{pid}.py) that exits 0 and prints PASS on the original code and exits 1 and prints FAIL (with what went wrong) on the changed code. The demo must check the property itself through the library's public behaviour (e.g. write a file / call the encoder and inspect the bytes with your own small independent decoding logic), not look at the source text. Note: DLISFile.write(..., output_chunk_size=...) should be given an explicit value such as 2**20, because the default (2**32) allocates 4 GiB and is very slow.
 3. a short note {wt}/NOTE_{pid}.md: what you changed, why it breaks the property, exactly what is needed for it to manifest, and confirmation that you ran the full test suite with the change (paste the final pytest summary line) and ran the demo with and without the change (to check the original do NOT use git stash - it is shared between worktrees and other agents work in parallel; instead: `git diff -- src > /tmp/seed/my_PID.patch; git apply -R /tmp/seed/my_PID.patch; <run demo>; git apply /tmp/seed/my_PID.patch`, with PID replaced by your property id; also never use pkill/killall: other agents run the same commands).

Please really run the full test suite on the changed code and the demo in both states; report the outcomes truthfully in your final answer together with the `git diff` of the source change.""")
