#!/bin/bash
# usage: withseed.sh <seed-id> <prop> [tier]  - apply a seeded change, run one check, undo; the evidence file of the
# property is put back afterwards (evidence committed must come from the unchanged tree)
SID=$1; P=$2; T=${3:-quick}
cd /verif
if ! git -C /repo diff --quiet; then echo "/repo dirty"; exit 2; fi
cp evidence/$P.json /tmp/.ev_$P.$$ 2>/dev/null
git -C /repo apply /verif/seeded/$SID/patch.diff || { echo "patch does not apply"; exit 3; }
./check $P --tier $T 2>&1 | grep -v "^KNOWN-FINDING" | grep "VIOLATION\|ok:\|error" | head -4 | cut -c1-220
git -C /repo checkout -- .
[ -f /tmp/.ev_$P.$$ ] && mv /tmp/.ev_$P.$$ evidence/$P.json
