#!/bin/bash
# usage: seedtest.sh <seed-id> <worktree> <prop> [<prop>...]   - collect a seeded change and run checks against it
set -u
SID=$1; WT=$2; shift 2
D=/verif/seeded/$SID
mkdir -p $D
git -C $WT diff -- src/dliswriter > $D/patch.diff
cp $WT/demo_*.py $D/ 2>/dev/null
cp $WT/NOTE_*.md $D/ 2>/dev/null
cd /repo || exit 2
if ! git diff --quiet; then echo "/repo dirty"; exit 2; fi
if ! git apply --check $D/patch.diff 2>/dev/null; then echo "patch does not apply to current /repo"; exit 3; fi
git apply $D/patch.diff
for P in "$@"; do
  echo "=== $P against seed $SID"
  cp /verif/evidence/$P.json /tmp/.ev_$P.$$ 2>/dev/null
  (cd /verif && timeout 900 ./check $P --tier quick 2>&1 | tail -6) | tee $D/check_$P.out
  [ -f /tmp/.ev_$P.$$ ] && mv /tmp/.ev_$P.$$ /verif/evidence/$P.json
done
git -C /repo checkout -- .
git -C /repo status --short | head
