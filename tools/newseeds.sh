#!/bin/bash
# usage: newseeds.sh <suffix>...  - like allseeds.sh, for the seeds whose id ends in one of the given round letters
cd /verif
for L in "$@"; do
for d in /verif/seeded/*_$L/; do
  sid=$(basename $d); prop=${sid%%_*}
  if ! git -C /repo diff --quiet; then echo "/repo dirty"; exit 2; fi
  if ! git -C /repo apply --check $d/patch.diff 2>/dev/null; then echo "$sid: patch does not apply"; continue; fi
  cp evidence/$prop.json /tmp/.ev_$prop.$$ 2>/dev/null
  git -C /repo apply $d/patch.diff
  out=$(timeout 1500 ./check $prop --tier ${TIER:-quick} 2>&1 | grep -v "^KNOWN-FINDING" | grep "VIOLATION\|ok:" | head -2 | tr '\n' ' ')
  git -C /repo checkout -- .
  [ -f /tmp/.ev_$prop.$$ ] && mv /tmp/.ev_$prop.$$ evidence/$prop.json
  echo "$sid :: ${out:0:200}"
done
done
