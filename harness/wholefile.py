"""Whole-file stream shared by the properties that speak about file content (C03, C05, C07, C08, C09, C16, ...):
generate specifications, write them with the real package, dump the file with the Lean strict reader, compare
with the independent expectation; layer correspondences: EFLR bodies (setBody) and IFLR bodies (frameDataBody /
noFormatBody) of the model vs the tapped record bodies."""
import shutil
import tempfile

import numpy as np

from harness.common import rng, hexs, cps
from harness import filegen, content, eflr
from harness.filegen import describe, DT_RC, DT_SIZE
from harness.impl import call

RC_SIZE = {12: 1, 13: 2, 14: 4, 15: 1, 16: 2, 17: 4, 2: 4, 7: 8}


class Run:
    """one generated case with everything the oracles need"""
    pass


def generate(prop, tier, n_quick, n_thorough, stream='whole-file', **gen_kwargs):
    R = rng(prop, stream)
    n = n_quick if tier == 'quick' else n_thorough
    for i in range(n):
        yield i, filegen.gen_spec(R, small=(i % 3 == 1), **gen_kwargs)


def execute(specs, model, bres, chk, stream='whole-file', want_live_desc=False):
    """-> list of Run"""
    tmp = tempfile.mkdtemp(prefix='verif_wf_')
    runs = []
    try:
        for i, spec in specs:
            r = Run()
            r.index, r.spec = i, spec
            r.res = filegen.write(spec, tmp)
            r.case = {'index': i, 'spec': describe(spec)}
            chk.count(f'{stream}:{r.res["status"]}' + (f':{r.res["stage"]}:{r.res["error"]}'
                                                       if r.res['status'] != 'ok' else ''))
            if r.res['status'] != 'ok' and 'DatasetNameCollision' in str(r.res['error']):
                chk.fail('dataset-names:collision', r.case, 'two channels of one logical file were given the same data set name '
                                                            '(the data of one would be written for both)')
            r.live = None
            if want_live_desc and r.res['status'] == 'ok':
                # descriptions of the sets as they are after the write (defaults applied), in generator order
                b = r.res['built']
                descs = []
                try:
                    for lf in b.df.logical_files:
                        for set_cls, d in lf._eflr_sets.items():
                            for s in d.values():
                                if s.n_items:
                                    descs.append(eflr.set_desc(s))
                    r.live = descs
                except eflr.Unmodelled:
                    r.live = None
            r.res['built'] = None if not want_live_desc else r.res['built']
            runs.append(r)
        ok = [r for r in runs if r.res['status'] == 'ok']
        if bres.ok:
            for r, rep in zip(ok, model.ask([filegen.dump_req(r.spec, r.res['data']) for r in ok])):
                r.dump = rep
                r.recs = filegen.parse_dump(rep) if rep.startswith('ok') else None
        else:
            for r in ok:
                r.dump, r.recs = None, None
        for r in runs:
            if r.res['status'] == 'ok':
                r.sim, r.exp = content.expected(r.spec)
    finally:
        shutil.rmtree(tmp, ignore_errors=True)
    return runs


def rewrite_runs(prop, tier, model, bres, chk, n_quick, n_thorough, stream='rewrite', kinds=None):
    """write a specification, then change things through the public attributes / setters — the identity of objects
    (new unique name, another origin reference), the storage unit label (sequence number, set identifier), the file
    header (sequence number), the payload of a no-format record, and (data passed as a dict) the arrays handed to
    the write — and write the same DLISFile again: -> Runs of the *second* file against the changed specification,
    for the property's oracles; the second write may also take another row window (index attributes are derived per
    write).  Objects with a same-named sibling of their type in the logical file are left alone (copy numbers after a rename are a known
    C14 finding), channels too (their names key the data)."""
    import pickle
    R = rng(prop, stream)
    n = n_quick if tier == 'quick' else n_thorough
    tmp = tempfile.mkdtemp(prefix='verif_rw_')
    runs = []
    try:
        for i in range(n):
            spec = filegen.gen_spec(R, n_lf=R.choice([1, 1, 2]), small=(i % 2 == 0), with_index=R.choice([False, None]), kinds=kinds)
            dk = R.choice(['inline', 'dict'])
            spec['write'].update({'data_kind': dk, 'from_idx': 0, 'to_idx': None, 'input_chunk_size': None,
                                  'output_chunk_size': 2**20})
            spec['hc'] = False
            spec['object_routes'] = False
            st0, b = call(filegen.build, spec)
            if st0 != 'ok':
                chk.count(f'{stream}:build-{b}')
                if 'DatasetNameCollision' in str(b):
                    chk.fail('dataset-names:collision', {'index': i, 'spec': describe(spec)},
                             'two channels of one logical file were given the same data set name')
                continue
            p1 = f'{tmp}/w1.dlis'
            kw1 = dict(output_chunk_size=2**20)
            if dk == 'dict':
                kw1['data'] = dict(b.data)
            s1, e1 = call(b.df.write, p1, **kw1)
            if s1 != 'ok':
                chk.count(f'{stream}:first-write-{e1}')
                continue
            mutated = pickle.loads(pickle.dumps(spec))
            muts = []
            for li, lf in enumerate(spec['lfs']):
                objs = lf['objects']
                for oi, o in enumerate(objs):
                    if o['kind'] in ('channel', 'origin'):
                        continue
                    # (copies are numbered within the type in the whole logical file, whatever the sets)
                    same = sum(1 for o2 in objs if (o2['kind'], o2['name']) == (o['kind'], o['name']))
                    if same > 1:
                        continue
                    k = R.random()
                    weight = 0.7 if o['kind'] in ('frame', 'no_format') else 0.25
                    if k < weight * 0.6:
                        newname = (o['name'][:200] + '-R' + str(oi))
                        b.handles[li][oi].name = newname
                        mutated['lfs'][li]['objects'][oi]['name'] = newname
                        muts.append(f'logical file {li} object #{oi} ({o["kind"]}).name = {newname!r}')
                    elif k < weight:
                        newref = R.choice([9, 130, 20000])
                        b.handles[li][oi].origin_reference = newref
                        mutated['lfs'][li]['objects'][oi]['origin_reference'] = newref
                        muts.append(f'logical file {li} object #{oi} ({o["kind"]}).origin_reference = {newref}')
                if R.random() < 0.4:
                    seq = R.choice([2, 77, 9999999999, lf['fh_sequence_number'] + 1 if lf['fh_sequence_number'] < 9999999999 else 5])
                    b.df.logical_files[li].file_header.sequence_number = seq
                    mutated['lfs'][li]['fh_sequence_number'] = seq
                    muts.append(f'logical file {li}: file_header.sequence_number = {seq}')
            if R.random() < 0.4:
                sul = b.df.storage_unit_label
                newseq = R.choice([2, 3, 9999, 0])
                newid = R.choice(['SECOND-UNIT', 'B', 'Y' * 60])
                sul.sequence_number = newseq
                sul.set_identifier = newid
                mutated['sul']['sul_sequence_number'] = newseq
                mutated['sul']['set_identifier'] = newid
                muts.append(f'storage_unit_label.sequence_number = {newseq}; .set_identifier = {newid!r}')
            kw2 = dict(output_chunk_size=2**20)
            # the data type of a channel changes between the writes: either the declared cast (public setter) or the
            # dtype of the arrays handed in (the declared / first-derived type stays and the new values are cast to it);
            # values are small whole numbers, exact in every supported type
            special = {}
            for (li, oi, arr) in b.arrays:
                o = spec['lfs'][li]['objects'][oi]
                if o.get('index_like') is None and R.random() < 0.2:
                    eff = o.get('cast_dtype') or o['dtype']
                    m = mutated['lfs'][li]['objects'][oi]
                    if R.random() < 0.5:
                        newcast = R.choice([d for d in filegen.DTYPES if d != eff])
                        b.handles[li][oi].cast_dtype = getattr(np, newcast)
                        m['cast_dtype'] = newcast
                        newdata = np.array([R.randrange(0, 100) for _ in range(arr.size)]).reshape(arr.shape).astype(o['dtype'])
                        muts.append(f'logical file {li} channel #{oi}.cast_dtype = {newcast} (was {eff}); other data')
                    else:
                        newd = R.choice([d for d in filegen.DTYPES if d != o['dtype']])
                        newdata = np.array([R.randrange(0, 100) for _ in range(arr.size)]).reshape(arr.shape).astype(newd)
                        m['dtype'] = newd
                        m['cast_dtype'] = eff
                        muts.append(f'second write: data of dtype {newd} for channel #{oi} of logical file {li} (was {o["dtype"]}, '
                                    f'written as {eff})')
                    m['data'] = newdata
                    special[(li, oi)] = newdata
            if dk == 'dict':
                # other arrays (same names, shapes and dtypes) are handed to the second write
                d2 = {}
                for (li, oi, arr) in b.arrays:
                    o = spec['lfs'][li]['objects'][oi]
                    key = next(k for k, v in b.data.items() if v is arr)
                    if (li, oi) in special:
                        d2[key] = special[(li, oi)]
                    elif R.random() < 0.7:
                        newdata = filegen.gen_data(R, o['dtype'], o['width'], o['data'].shape[0], o.get('index_like'))
                        if o.get('cast_dtype'):
                            newdata = (np.array([R.randrange(0, 100) for _ in range(newdata.size)]).reshape(newdata.shape)).astype(o['dtype'])
                        mutated['lfs'][li]['objects'][oi]['data'] = newdata
                        d2[key] = newdata
                        muts.append(f'second write: other data for channel #{oi} of logical file {li}')
                    else:
                        d2[key] = arr
                kw2['data'] = d2
            elif special or R.random() < 0.5:
                # channels created with their data; the second write is handed other arrays for some of them under the
                # same data set names: what is passed to write() takes precedence
                d2 = {}
                for (li, oi, arr) in b.arrays:
                    if (li, oi) in special:
                        d2[b.handles[li][oi].dataset_name] = special[(li, oi)]
                    elif R.random() < 0.6:
                        o = spec['lfs'][li]['objects'][oi]
                        newdata = filegen.gen_data(R, o['dtype'], o['width'], o['data'].shape[0], o.get('index_like'))
                        if o.get('cast_dtype'):
                            newdata = (np.array([R.randrange(0, 100) for _ in range(newdata.size)]).reshape(newdata.shape)).astype(o['dtype'])
                        mutated['lfs'][li]['objects'][oi]['data'] = newdata
                        d2[b.handles[li][oi].dataset_name] = newdata
                        muts.append(f'second write: data={{...}} overrides the inline data of channel #{oi} of logical file {li}')
                if d2:
                    kw2['data'] = d2
            min_rows = min(o['data'].shape[0] for lf in mutated['lfs'] for o in lf['objects'] if o['kind'] == 'channel')
            uniform_only = all(o.get('index_like') in (None, 'uniform') for lf in mutated['lfs'] for o in lf['objects']
                               if o['kind'] == 'channel')
            if min_rows >= 3 and uniform_only and R.random() < 0.4:
                lo = R.randrange(0, min_rows - 1)
                hi = R.choice([None, R.randrange(lo + 2, min_rows + 1) if lo + 2 <= min_rows else None])
                if lo or hi is not None:
                    kw2['from_idx'] = lo
                    mutated['write'] = dict(mutated['write'], from_idx=lo, to_idx=hi)
                    if hi is not None:
                        kw2['to_idx'] = hi
                    muts.append(f'second write: rows [{lo}, {hi})')
            if not muts:
                continue
            p2 = f'{tmp}/w2.dlis'
            s2, e2 = call(b.df.write, p2, **kw2)
            r = Run()
            r.index, r.spec = i, mutated
            r.case = {'index': i, 'spec': describe(spec), 'after_first_write': muts, 'then': 'the same DLISFile is written again'}
            r.res = {'status': s2, 'error': e2 if s2 != 'ok' else None, 'stage': 'second-write',
                     'data': open(p2, 'rb').read() if s2 == 'ok' else None, 'records': [], 'flushes': [], 'built': None}
            r.live = None
            chk.case(stream, nontrivial_key=(stream, i), sample={'index': i, 'mutations': muts[:3], 'second_write': s2})
            chk.count(f'{stream}:second-write-{s2}')
            if s2 != 'ok':
                chk.fail(f'{stream}:second-write-raises', r.case, f'writing again after renaming / re-referencing objects raises {e2}')
                continue
            runs.append(r)
        if bres.ok:
            for r, rep in zip(runs, model.ask([filegen.dump_req(r.spec, r.res['data']) for r in runs])):
                r.dump = rep
                r.recs = filegen.parse_dump(rep) if rep.startswith('ok') else None
        else:
            for r in runs:
                r.dump, r.recs = None, None
        for r in runs:
            r.sim, r.exp = content.expected(r.spec)
    finally:
        shutil.rmtree(tmp, ignore_errors=True)
    return runs


def refused_then_corrected(prop, tier, model, bres, chk, n_quick, n_thorough, stream='refused-then-corrected'):
    """a write refused while a set was being turned into bytes (an object that is inconsistent only at write time: a
    PARAMETER with several values and no zones, a COMPUTATION whose values and zones differ in number, a CHANNEL whose
    element limit is below its dimension, a CALIBRATION-MEASUREMENT whose attributes disagree in shape), the object corrected through its attributes, the same DLISFile written
    again: the file must be the one a fresh specification (built with the corrected object) gives"""
    R = rng(prop, stream)
    n = n_quick if tier == 'quick' else n_thorough
    tmp = tempfile.mkdtemp(prefix='verif_rc_')
    try:
        for i in range(n):
            spec = filegen.gen_spec(R, n_lf=1, small=(i % 2 == 0), with_index=False)
            spec['write'].update({'data_kind': 'inline', 'from_idx': 0, 'to_idx': None, 'input_chunk_size': None,
                                  'output_chunk_size': 2**20})
            spec['hc'] = False
            spec['object_routes'] = False
            kind = R.choice(['parameter', 'parameter-shaped', 'computation', 'computation-shaped', 'channel-limit',
                             'calibration-shapes', 'calibration-shapes'])
            position = R.choice(['first', 'last'])

            def add_object(b, good):
                L = b.df.logical_files[0]
                if kind == 'parameter':
                    return L.add_parameter('LATE-P', values=[1.5] if good else [1.5, 2.5, 3.5], long_name='late parameter')
                if kind == 'parameter-shaped':
                    # array-valued values, one too many for the zones; corrected by ONE value of another per-value shape
                    z = L.add_zone('LATE-Z')
                    return L.add_parameter('LATE-P', values=[5.0] if good else [[1.0, 2.0], [3.0, 4.0]], zones=[z])
                if kind == 'computation':
                    z = L.add_zone('LATE-Z')
                    return L.add_computation('LATE-C', values=[1.0] if good else [1.0, 2.0], zones=[z])
                if kind == 'computation-shaped':
                    z = L.add_zone('LATE-Z')
                    return L.add_computation('LATE-C', values=[[1.0, 2.0, 3.0]] if good else [[1.0], [2.0]], zones=[z])
                if kind == 'calibration-shapes':
                    # two of the measurement attributes disagree in their per-value shape and no dimension is given: the
                    # first fixes the dimension, the second is refused against it; corrected by reshaping the FIRST
                    return L.add_calibration_measurement(
                        'LATE-M', maximum_deviation=[[1.0, 2.0, 3.0], [4.0, 5.0, 6.0]] if good else [[1.0, 2.0], [3.0, 4.0]],
                        standard_deviation=[[1.5, 2.5, 3.5], [4.5, 5.5, 6.5]])
                return L.add_channel('LATE-CH', dimension=[4], element_limit=[4] if good else [2],
                                     data=np.zeros((3, 4)))

            def fix(obj):
                if kind == 'parameter':
                    obj.values.value = [1.5]
                elif kind == 'parameter-shaped':
                    obj.values.value = [5.0]
                elif kind == 'computation':
                    obj.values.value = [1.0]
                elif kind == 'computation-shaped':
                    obj.values.value = [[1.0, 2.0, 3.0]]
                elif kind == 'calibration-shapes':
                    obj.maximum_deviation.value = [[1.0, 2.0, 3.0], [4.0, 5.0, 6.0]]
                else:
                    obj.element_limit.value = [4]
            stf, bf = call(filegen.build, spec)
            if stf != 'ok':
                continue
            st_a, _ = call(add_object, bf, True)
            sf, ef = call(bf.df.write, f'{tmp}/fresh.dlis', output_chunk_size=2**20)
            if st_a != 'ok' or sf != 'ok':
                chk.count(f'{stream}:fresh-not-writable')
                continue
            fresh = open(f'{tmp}/fresh.dlis', 'rb').read()
            st0, b = call(filegen.build, spec)
            if st0 != 'ok':
                continue
            st_b, obj = call(add_object, b, False)
            if st_b != 'ok':
                chk.count(f'{stream}:{kind}:rejected-at-add')
                continue
            s1, e1 = call(b.df.write, f'{tmp}/w.dlis', output_chunk_size=2**20)
            chk.count(f'{stream}:{kind}:first-write-{s1}')
            if s1 == 'ok':
                continue            # not refused: nothing to correct
            call(fix, obj)
            s2, e2 = call(b.df.write, f'{tmp}/w.dlis', output_chunk_size=2**20)
            case = {'index': i, 'spec': describe(spec), 'late_object': kind, 'first_write': f'refused ({e1})',
                    'then': 'object corrected through its attribute, same DLISFile written again'}
            chk.case(stream, nontrivial_key=(stream, i), sample={'index': i, 'kind': kind, 'first': e1, 'second': s2})
            if s2 != 'ok':
                chk.fail(f'{stream}:second-write-raises', case, f'the write after the correction raises {e2}')
                continue
            data2 = open(f'{tmp}/w.dlis', 'rb').read()
            if bres.ok:
                rep = model.ask([filegen.dump_req(spec, data2)])[0]
                if not rep.startswith('ok') or 'UNDECODABLE' in rep:
                    chk.fail(f'{stream}:undecodable', case, 'the file written after the correction does not decode under the '
                                                            'strict reader')
                    continue
            if data2 != fresh:
                chk.fail(f'{stream}:differs-from-fresh', case, 'the file written after the correction differs from the file of '
                                                               'a fresh specification built with the corrected object')
    finally:
        shutil.rmtree(tmp, ignore_errors=True)


def modelwrite_stream(prop, tier, model, bres, chk, n_quick, n_thorough, stream='model-write'):
    """end to end: the bytes of the whole file vs `modelWrite` (Model/File.lean) applied to a description read off the
    live objects after the write (sets in generator order with their logical record types) and the specification's
    rows and no-format payloads: ties the composition — record order, record types, framing — in one comparison"""
    if not bres.ok:
        return
    R = rng(prop, stream)
    n = n_quick if tier == 'quick' else n_thorough
    tmp = tempfile.mkdtemp(prefix='verif_mw_')
    reqs, meta = [], []
    try:
        from dliswriter.logical_record import eflr_types as T
        for i in range(n):
            spec = filegen.gen_spec(R, small=(i % 2 == 0))
            spec['hc'] = False
            res = filegen.write(spec, tmp)
            chk.case(stream, nontrivial_key=(stream, i) if res['status'] == 'ok' else None,
                     sample={'index': i, 'status': res['status'], 'logical_files': len(spec['lfs'])})
            if res['status'] != 'ok':
                continue
            b = res['built']
            sim, exp = content.expected(spec)
            s_ = spec['sul']
            toks = ['wfile', str(s_['max_record_length']), cps(str(s_['sul_sequence_number'])), cps(s_['set_identifier']),
                    '0', '~', '~', str(len(spec['lfs']))]
            try:
                for li, L in enumerate(b.df.logical_files):
                    fh = L.file_header_item
                    o = fh.origin_reference
                    toks += [str(-1 if o is None else o), str(fh.copy_number), cps(fh.name), str(fh.sequence_number), cps(fh.header_id)]
                    sets = list(L._eflr_sets[T.OriginSet].values())
                    for st, dct in L._eflr_sets.items():
                        if st is not T.OriginSet:
                            sets += list(dct.values())
                    sets = [x for x in sets if x.n_items]
                    toks.append(str(len(sets)))
                    for x in sets:
                        toks.append(str(int(x.logical_record_type.value)))
                        toks += eflr.desc_req(eflr.set_desc(x)).split(' ')[1:]
                    nfs = exp[li]['noformat']
                    toks.append(str(len(nfs)))
                    for ident, payload in nfs:
                        toks += [str(ident['origin']), str(ident['copy']), cps(ident['name']), hexs(payload)]
                    frs = exp[li]['frames']
                    toks.append(str(len(frs)))
                    for fr in frs:
                        ident = fr['ident']
                        toks += [str(ident['origin']), str(ident['copy']), cps(ident['name']), str(len(fr['rows']))]
                        for row in fr['rows']:
                            toks.append(';'.join(f'{sz}x' + ','.join(str(e) for e in els)
                                                 for (sz, cnt), els in zip(fr['layout'], row)) or '-')
            except eflr.Unmodelled:
                chk.count(f'{stream}:value-outside-the-model')
                continue
            reqs.append(' '.join(toks))
            meta.append(({'index': i, 'spec': describe(spec)}, res['data']))
        for (case, data), rep in zip(meta, model.ask(reqs)):
            if rep == 'err unmodelled':
                chk.count(f'{stream}:value-outside-the-model')
                continue
            irep = 'ok ' + hexs(data)
            if rep != irep:
                chk.disagree(stream, case, irep, rep)
    finally:
        shutil.rmtree(tmp, ignore_errors=True)


def sample_of(r):
    s = r.spec
    return {'index': r.index, 'vrl': s['sul']['max_record_length'], 'logical_files': len(s['lfs']),
            'objects': [len(lf['objects']) for lf in s['lfs']], 'status': r.res['status'], 'error': r.res['error'],
            'kinds': sorted({o['kind'] for lf in s['lfs'] for o in lf['objects']})[:12]}


# ---------------------------------------------------------------------------------------------------------------
# layer correspondences

def eflr_correspondence(runs, model, bres, chk):
    """tapped EFLR bodies (non FILE-HEADER) vs setBody(description of the live set)"""
    if not bres.ok:
        return
    reqs, meta = [], []
    for r in runs:
        if r.res['status'] != 'ok' or r.live is None:
            continue
        tapped = [b for (e, ts, b, cap) in r.res['records'] if e and len(b) and not b[1:].startswith(b'\x0bFILE-HEADER')]
        if len(tapped) != len(r.live):
            # sets shared between logical files are emitted once per logical file: pair by set type and name
            pass
        by_key = {}
        for d in r.live:
            by_key.setdefault((d[0], d[1]), d)
        for b in tapped:
            # set type and name are at the front of the body: F0/F8 ident [ident]
            n = b[1]
            st = b[2:2 + n].decode('ascii', 'replace')
            nm = None
            if b[0] == 0xF8:
                m = b[2 + n]
                nm = b[3 + n:3 + n + m].decode('ascii', 'replace')
            d = by_key.get((st, nm)) or by_key.get((st, None if not nm else nm))
            if d is None:
                continue
            reqs.append(eflr.desc_req(d))
            meta.append((r, st, b))
    for (r, st, b), rep in zip(meta, model.ask(reqs)):
        chk.evaluations += 1
        chk.streams['eflr-bodies'] = chk.streams.get('eflr-bodies', 0) + 1
        if rep == 'err unmodelled':
            chk.count('model:unmodelled-value')
            continue
        irep = 'ok ' + hexs(b)
        if rep != irep:
            chk.disagree('eflr-bodies', {'index': r.index, 'set_type': st, 'spec': r.case['spec']}, irep, rep)


def iflr_correspondence(runs, model, bres, chk):
    """tapped IFLR bodies vs frameDataBody / noFormatBody computed from the specification"""
    if not bres.ok:
        return
    reqs, meta = [], []
    for r in runs:
        if r.res['status'] != 'ok':
            continue
        tapped = [(ts[0], b) for (e, ts, b, cap) in r.res['records'] if not e]
        want = []
        for E in r.exp:
            for (ident, payload) in E['noformat']:
                want.append((1, f"nbody {ident['origin']} {ident['copy']} {cps(ident['name'])} {hexs(payload)}"))
            for fr in E['frames']:
                ident = fr['ident']
                for k, row in enumerate(fr['rows']):
                    slots = ';'.join(f'{sz}x' + ','.join(str(e) for e in els) for (sz, cnt), els in zip(fr['layout'], row))
                    want.append((0, f"fbody {ident['origin']} {ident['copy']} {cps(ident['name'])} {k + 1} {slots or '-'}"))
        if len(want) != len(tapped):
            chk.disagree('iflr-bodies', {'index': r.index, 'spec': r.case['spec']},
                         f'{len(tapped)} indirectly formatted records', f'{len(want)} expected from the specification')
            continue
        for (ty, req), (ity, b) in zip(want, tapped):
            reqs.append(req)
            meta.append((r, ty, ity, b))
    for (r, ty, ity, b), rep in zip(meta, model.ask(reqs)):
        chk.evaluations += 1
        chk.streams['iflr-bodies'] = chk.streams.get('iflr-bodies', 0) + 1
        irep = f'ok {hexs(b)}'
        if rep != irep or ty != ity:
            chk.disagree('iflr-bodies', {'index': r.index, 'record_type': ity, 'spec': r.case['spec']}, irep, rep)


# ---------------------------------------------------------------------------------------------------------------
# oracles (each works on the Lean reader's dump of the implementation's file + the expectation)

def decoded_objects(recs_lf):
    got = {}
    for rec in recs_lf:
        if rec['eflr'] and not rec.get('undecodable') and rec['set_type'] != 'FILE-HEADER':
            labels = [t['label'] for t in rec['template']]
            for o in rec['objects']:
                got[(rec['set_type'], rec['set_name'], o['origin'], o['copy'], o['name'])] = dict(zip(labels, o['attrs']))
    return got


def oracle_readable(r, chk, prefix):
    if r.recs is None:
        chk.fail(f'{prefix}:unreadable-file', r.case, 'the strict physical reader rejects the written file')
        return False
    bad = [x for x in r.recs if x['eflr'] and x.get('undecodable')]
    if bad:
        chk.fail(f'{prefix}:undecodable-eflr', r.case, f'{len(bad)} explicitly formatted record(s) do not decode')
        return False
    # an attribute component carries as many values as its (explicit or default) count says: a value that is not
    # there is marked absent, not announced and then left out
    for x in r.recs:
        if x['eflr']:
            labs = [t['label'] for t in x['template']]
            for ob in x['objects']:
                for lab, a in zip(labs, ob['attrs']):
                    if a is not None and a['count'] != len(a['vals']):
                        chk.fail(f'{prefix}:announced-values-missing', r.case,
                                 f"{x['set_type']} {ob['name']!r} {lab}: the component announces {a['count']} value(s) and "
                                 f"carries {len(a['vals'])}")
                        return False
    lfs = content.split_logical_files(r.recs)
    if len(lfs) != len(r.exp):
        chk.fail(f'{prefix}:logical-file-count', r.case, f'{len(lfs)} logical files decoded, {len(r.exp)} specified')
        return False
    r.lfs = lfs
    return True


def oracle_fidelity(r, chk, references_only=False):
    """C05; with `references_only` the clause of C07: a reference attribute holds the identities of exactly the objects the
    user passed, in the order passed"""
    for li, (recs_lf, E) in enumerate(zip(r.lfs, r.exp)):
        got = decoded_objects(recs_lf)
        problems = []
        for key, attrs in E['objects'].items():
            if key not in got:
                problems.append(f'object {key} is not in the file')
                continue
            for lab, exp in attrs.items():
                if references_only and not (isinstance(exp, dict) and exp.get('rc') in (23, 24)):
                    continue
                p = content.compare_attrs(lab, got[key].get(lab), exp)
                if p:
                    problems.append(f'{key[0]} {key[4]!r}: {p}')
        if problems:
            chk.fail('references:not-the-objects-passed' if references_only else 'fidelity:attribute', r.case,
                     '; '.join(problems[:5])[:1500])


def oracle_frames(r, chk):
    """C03 (+ the length clause of C08): decode frame data with the layout the *file's* CHANNEL objects declare"""
    for li, (recs_lf, E) in enumerate(zip(r.lfs, r.exp)):
        got = decoded_objects(recs_lf)
        chan = {}
        for key, attrs in got.items():
            if key[0] == 'CHANNEL':
                chan[(key[2], key[3], key[4])] = attrs
        fdata = [x for x in recs_lf if not x['eflr'] and x['type'] == 0]
        reqs, meta = [], []
        for fr in E['frames']:
            ident = fr['ident']
            fkey = ('FRAME', ident['set_name'], ident['origin'], ident['copy'], ident['name'])
            fa = got.get(fkey)
            if fa is None or fa.get('CHANNELS') is None:
                chk.fail('frames:frame-missing', r.case, f'frame {ident["name"]!r} or its CHANNELS not in the file')
                continue
            layout = []
            okl = True
            for tok in fa['CHANNELS']['vals']:
                o, c, n = tok[1:].split('.')
                ca = chan.get((int(o), int(c), bytes.fromhex(n).decode('ascii') if n != '-' else ''))
                if ca is None or ca.get('REPRESENTATION-CODE') is None or ca.get('DIMENSION') is None:
                    okl = False
                    break
                rc = int(ca['REPRESENTATION-CODE']['vals'][0][1:])
                dims = [int(v[1:]) for v in ca['DIMENSION']['vals']]
                if rc not in RC_SIZE:
                    okl = False
                    break
                layout.append((RC_SIZE[rc], int(np.prod(dims)) if dims else 1))
            if not okl:
                chk.fail('frames:channel-descriptor-missing', r.case,
                         f'a channel of frame {ident["name"]!r} has no usable REPRESENTATION-CODE/DIMENSION in the file')
                continue
            ref = f"{ident['origin']}.{ident['copy']}.{content.hx(ident['name'])}"
            lay = ','.join(f'{s}x{c}' for s, c in layout)
            mine = []
            for x in fdata:
                reqs.append(f'fdata {lay} {hexs(x["body"])}')
                meta.append((fr, ref, x))
        # every frame-data record must decode under exactly one frame's layout and reference
        # (done per frame: select the records whose reference is this frame)
        r._fdata_checks = (reqs, meta)
        yield reqs, meta, E, fdata


def run_frames_oracle(runs, model, bres, chk):
    if not bres.ok:
        return
    for r in runs:
        if r.res['status'] != 'ok' or not getattr(r, 'lfs', None):
            continue
        for reqs, meta, E, fdata in oracle_frames(r, chk):
            reps = model.ask(reqs)
            per_frame = {}
            for (fr, ref, x), rep in zip(meta, reps):
                if rep.startswith('ok ') and rep.split(' ')[1] == ref:
                    per_frame.setdefault(id(fr), []).append(rep)
            claimed = 0
            for fr in E['frames']:
                ident = fr['ident']
                got = per_frame.get(id(fr), [])
                claimed += len(got)
                want = []
                for k, row in enumerate(fr['rows']):
                    want.append(f"ok {ident['origin']}.{ident['copy']}.{content.hx(ident['name'])} {k + 1} " +
                                ';'.join(','.join(str(e) for e in els) for els in row))
                if got != want:
                    i = next((k for k, (a, b) in enumerate(zip(got, want)) if a != b), min(len(got), len(want)))
                    chk.fail('frames:rows-differ', r.case,
                             f'frame {ident["name"]!r}: {len(got)} records decode for it, {len(want)} rows given; first '
                             f'difference at row {i + 1}: decoded {got[i][:200] if i < len(got) else None!r}, expected '
                             f'{want[i][:200] if i < len(want) else None!r}')
            if claimed != len(fdata) and E['frames']:
                # a record that decodes under no frame of its logical file
                if claimed < len(fdata):
                    chk.fail('frames:orphan-record', r.case,
                             f'{len(fdata) - claimed} frame-data record(s) decode under no frame of their logical file')


def oracle_noformat(r, chk):
    """C16"""
    for recs_lf, E in zip(r.lfs, r.exp):
        got = [x['body'] for x in recs_lf if not x['eflr'] and x['type'] == 1]
        want = []
        for ident, payload in E['noformat']:
            want.append((ident, payload))
        if len(got) != len(want):
            chk.fail('noformat:count', r.case, f'{len(got)} no-format records in the file, {len(want)} added')
            continue
        yield got, want


def run_noformat_oracle(runs, model, bres, chk):
    if not bres.ok:
        return
    for r in runs:
        if r.res['status'] != 'ok' or not getattr(r, 'lfs', None):
            continue
        for got, want in oracle_noformat(r, chk):
            reps = model.ask([f'nofmt {hexs(b)}' for b in got])
            for rep, (ident, payload) in zip(reps, want):
                exp = f"ok {ident['origin']}.{ident['copy']}.{content.hx(ident['name'])} {hexs(payload)}"
                if rep != exp:
                    chk.fail('noformat:payload', r.case,
                             f'no-format record decodes to {rep[:200]!r}, expected {exp[:200]!r} '
                             f'(payload length {len(payload)})')


def oracle_channel_descriptors(r, chk):
    """C08: descriptors vs data layout"""
    for recs_lf, E, lf in zip(r.lfs, r.exp, r.spec['lfs']):
        got = decoded_objects(recs_lf)
        for fr in E['frames']:
            o = lf['objects'][fr['obj']]
            for ref in o['channels']:
                c = lf['objects'][ref.idx]
                ident = r.sim.ident[(ref.lf, ref.idx)]
                key = ('CHANNEL', ident['set_name'], ident['origin'], ident['copy'], ident['name'])
                a = got.get(key)
                dt = c.get('cast_dtype') or c['dtype']
                dim = [c['width']] if c['width'] else [1]
                if a is None:
                    chk.fail('descriptors:channel-missing', r.case, f'channel {ident["name"]!r} is not in the file')
                    continue
                rc = a.get('REPRESENTATION-CODE')
                dm = a.get('DIMENSION')
                el = a.get('ELEMENT-LIMIT')
                problems = []
                if rc is None or rc['vals'] != ['i%d' % DT_RC[dt]]:
                    problems.append(f'REPRESENTATION-CODE {rc and rc["vals"]} for dtype {dt}')
                if dm is None or [int(v[1:]) for v in dm['vals']] != dim:
                    problems.append(f'DIMENSION {dm and dm["vals"]} for per-row shape {dim}')
                if el is None or len(el['vals']) < len(dim) or any(int(e[1:]) < d for e, d in zip(el['vals'], dim)):
                    problems.append(f'ELEMENT-LIMIT {el and el["vals"]} does not bound {dim}')
                if problems:
                    chk.fail('descriptors:mismatch', r.case, f'channel {ident["name"]!r}: ' + '; '.join(problems))
