"""Fresh-process execution of one specification: `python -m harness.fresh <spec.pickle> <out.dlis>`.
Prints 'ok' or 'err <kind>'."""
import pickle
import sys


def main():
    from harness import filegen            # imports the real package, hooks on, noise silenced
    import os
    spec = pickle.load(open(sys.argv[1], 'rb'))
    tmp = os.path.dirname(sys.argv[2])
    res = filegen.write(spec, tmp, fname=os.path.basename(sys.argv[2]))
    mut = spec.get('_after_first_write')
    if res['status'] == 'ok' and mut:
        pass
    sys.stdout.write('ok\n' if res['status'] == 'ok' else f"err {res['error']}\n")


if __name__ == '__main__':
    main()
