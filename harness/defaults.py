"""Write-time checks and defaults (`_run_checks_and_set_defaults`, `ChannelItem._set_dimension_from_data`) of the
real items against `Model/Defaults.lean`, plus the independent oracle: an attribute the user assigned is never
replaced, and what is derived is consistent with the values (dimension = per-value shape, element limit covers the
dimension, axes match the dimension)."""
import numpy as np

from harness.impl import call
from harness import convert
from harness.convert import req_tokens

from dliswriter.logical_record import eflr_types as T


def dim_tok(v):
    if v is None:
        return '~'
    if len(v) == 0:
        return '-'
    return ','.join(str(int(x)) for x in v)


def axes_tok(axes):
    if axes is None:
        return '~'
    if not axes:
        return '-'
    return ','.join('n' if a.coordinates.value is None else str(len(a.coordinates.value)) for a in axes)


def mk_axis(ncoord):
    s = T.AxisSet()
    kw = {}
    if ncoord is not None:
        kw['coordinates'] = [float(i) for i in range(ncoord)]
    return T.AxisItem(f'AX{ncoord}', parent=s, origin_reference=1, **kw)


def gen_nested(R, shape, ragged=False):
    """a value list of the given shape (shape[0] = number of values)"""
    def build(sh):
        if not sh:
            return R.choice([1, 2.5, 7, 0, -3])
        return [build(sh[1:]) for _ in range(sh[0])]
    v = build(shape)
    if ragged and shape and shape[0] >= 1 and len(shape) >= 2:
        v[R.randrange(len(v))] = build([shape[1] + 1] + list(shape[2:]))
    return v


def shape_of(v):
    """independent re-statement of the regular nesting structure (None = ragged)"""
    if not isinstance(v, (list, tuple)):
        return []
    subs = [shape_of(x) for x in v]
    if any(s is None for s in subs):
        return None
    if not subs:
        return [0]
    if any(s != subs[0] for s in subs[1:]):
        return None
    return [len(v)] + subs[0]


def covers(el, dim):
    return len(el) >= len(dim) and all(e >= d for e, d in zip(el, dim))


def run_stream(chk, model, bres, R, n, stream='defaults'):
    if not bres.ok:
        return
    reqs, metas = [], []

    def axes_for(R, dim):
        k = R.random()
        if k < 0.5:
            return None
        if dim is None:
            return [mk_axis(R.choice([None, 2, 3])) for _ in range(R.choice([0, 1, 2]))]
        if k < 0.8:
            return [mk_axis(R.choice([d, d, None])) for d in dim]            # consistent
        return [mk_axis(R.choice([d, d + 1, None])) for d in dim[:R.choice([len(dim), max(len(dim) - 1, 0)])]] + \
               ([mk_axis(2)] if R.random() < 0.2 else [])

    for i in range(n):
        kind = R.choice(['param', 'param', 'comp', 'calmeas', 'calcoef', 'chdata', 'chdef'])
        if kind in ('param', 'comp'):
            shape = R.choice([[1], [1], [2], [3], [2, 2], [2, 3], [1, 2], [3, 2, 2], [0]])
            values = R.choice([None, gen_nested(R, shape), gen_nested(R, shape), gen_nested(R, shape, ragged=True)])
            nz = R.choice([None, None, shape[0], shape[0], shape[0] + 1, 0])
            dim_true = (shape[1:] or [1])
            dim = R.choice([None, None, dim_true, dim_true, [d + 1 for d in dim_true], dim_true + [2], []])
            axes = axes_for(R, dim)
            cls = (T.ParameterSet if kind == 'param' else T.ComputationSet)
            item = cls.item_type('P', parent=cls(), origin_reference=1)
            kw = {}
            if values is not None:
                kw['values'] = values
            if nz is not None:
                zs = T.ZoneSet()
                kw['zones'] = [T.ZoneItem(f'Z{k}', parent=zs, origin_reference=1) for k in range(nz)]
            if dim is not None:
                kw['dimension'] = dim
            if axes is not None:
                kw['axis'] = axes
            st0, err0 = call(item.set_attributes, **kw)
            if st0 != 'ok':
                chk.count(f'{stream}:setup-rejected:{err0}')
                continue
            given = {k: (v if k not in ('zones', 'axis') else len(v)) for k, v in kw.items()}
            st, err = call(item._run_checks_and_set_defaults)
            impl = f'ok {dim_tok(item.dimension.value)}' if st == 'ok' else f'err:{err}'
            zc = '~' if item.zones.value is None else str(item.zones.count)
            held = item.values.value if values is not None else None
            reqs.append(f"dflt param {1 if kind == 'param' else 0} {' '.join(req_tokens(held))} {zc} {dim_tok(dim)} {axes_tok(axes)}")
            metas.append((kind, given, impl, dict(values=values, dim=dim, axes=axes, out_dim=item.dimension.value, st=st)))
        elif kind == 'calmeas':
            shape = R.choice([[1], [2], [2, 2], [2, 3]])
            names = ['maximum_deviation', 'standard_deviation', 'standard', 'plus_tolerance', 'minus_tolerance']
            vals = []
            for nm in names:
                r = R.random()
                if r < 0.35:
                    vals.append(None)
                elif r < 0.85:
                    vals.append(gen_nested(R, shape))
                elif r < 0.93:
                    vals.append(gen_nested(R, [shape[0] + 1] + shape[1:]))
                else:
                    vals.append(gen_nested(R, shape[:1] + [s + 1 for s in shape[1:]] if len(shape) > 1 else shape + [2]))
            dim_true = (shape[1:] or [1])
            dim = R.choice([None, None, dim_true, [d + 1 for d in dim_true]])
            axes = axes_for(R, dim)
            item = T.CalibrationMeasurementItem('C', parent=T.CalibrationMeasurementSet(), origin_reference=1)
            kw = {nm: v for nm, v in zip(names, vals) if v is not None}
            if dim is not None:
                kw['dimension'] = dim
            if axes is not None:
                kw['axis'] = axes
            st0, err0 = call(item.set_attributes, **kw)
            if st0 != 'ok':
                chk.count(f'{stream}:setup-rejected:{err0}')
                continue
            st, err = call(item._run_checks_and_set_defaults)
            impl = f'ok {dim_tok(item.dimension.value)}' if st == 'ok' else f'err:{err}'
            held = [getattr(item, nm).value for nm in names]
            toks = []
            for h in held:
                toks += req_tokens(h)
            reqs.append(f"dflt calmeas {len(names)} {' '.join(toks)} {dim_tok(dim)} {axes_tok(axes)}")
            metas.append((kind, {k: v for k, v in kw.items() if k != 'axis'}, impl,
                          dict(values=[v for v in vals if v is not None], dim=dim, axes=axes, out_dim=item.dimension.value, st=st, multi=True)))
        elif kind == 'calcoef':
            names = ['coefficients', 'references', 'plus_tolerances', 'minus_tolerances']
            n0 = R.choice([1, 2, 3])
            vals = [R.choice([None, [float(k) for k in range(n0)], [float(k) for k in range(n0)], [1.0] * (n0 + 1)]) for _ in names]
            item = T.CalibrationCoefficientItem('C', parent=T.CalibrationCoefficientSet(), origin_reference=1)
            kw = {nm: v for nm, v in zip(names, vals) if v is not None}
            st0, err0 = call(item.set_attributes, **kw)
            if st0 != 'ok':
                continue
            st, err = call(item._run_checks_and_set_defaults)
            impl = 'ok' if st == 'ok' else f'err:{err}'
            toks = []
            for nm in names:
                toks += req_tokens(getattr(item, nm).value)
            reqs.append(f"dflt calcoef {len(names)} {' '.join(toks)}")
            metas.append((kind, kw, impl, dict(st=st, counts=[len(v) for v in vals if v is not None])))
        else:
            dim = R.choice([[1], [1], [5], [2, 3], [4]])
            dimension = R.choice([None, None, dim, dim, [d + 1 for d in dim], []])
            limit = R.choice([None, None, dim, [d + 5 for d in dim], [d + 5 for d in dim] + [9], [max(d - 1, 0) for d in dim], dim[:-1], []])
            item = T.ChannelItem('CH', parent=T.ChannelSet(), origin_reference=1)
            kw = {}
            if dimension is not None:
                kw['dimension'] = dimension
            if limit is not None:
                kw['element_limit'] = limit
            if kind == 'chdata':
                st0, err0 = call(item.set_attributes, **kw)
                if st0 != 'ok':
                    continue

                class Sub:
                    shape = tuple([7] + (dim if dim != [1] or R.random() < 0.5 else []))
                st, err = call(item._set_dimension_from_data, Sub)
                impl = f'ok {dim_tok(item.dimension.value)} {dim_tok(item.element_limit.value)}' if st == 'ok' else f'err:{err}'
                reqs.append(f'dflt chdata {dim_tok(dimension)} {dim_tok(limit)} {dim_tok(dim)}')
                metas.append((kind, dict(kw, data_row_shape=dim), impl,
                              dict(st=st, dim=dim, dimension=dimension, limit=limit, out_dim=item.dimension.value,
                                   out_limit=item.element_limit.value)))
            else:
                axes = axes_for(R, dimension or limit)
                long_name = R.choice([None, None, 'A long name', '', mk_axis(None)])
                if axes is not None:
                    kw['axis'] = axes
                if long_name is not None and not isinstance(long_name, T.AxisItem):
                    kw['long_name'] = long_name
                st0, err0 = call(item.set_attributes, **kw)
                if st0 != 'ok':
                    continue
                st, err = call(item._run_checks_and_set_defaults)
                ln = item.long_name.value
                impl = (f'ok {dim_tok(item.dimension.value)} {dim_tok(item.element_limit.value)} {1 if ln == "CH" else 0}'
                        if st == 'ok' else f'err:{err}')
                reqs.append(f"dflt chdef {dim_tok(dimension)} {dim_tok(limit)} {axes_tok(axes)} {' '.join(req_tokens(kw.get('long_name')))}")
                metas.append((kind, {k: v for k, v in kw.items() if k != 'axis'}, impl,
                              dict(st=st, dimension=dimension, limit=limit, out_dim=item.dimension.value,
                                   out_limit=item.element_limit.value, long_name=kw.get('long_name'), out_long_name=ln)))
    for (kind, given, impl, o), req, rep in zip(metas, reqs, model.ask(reqs)):
        case = {'kind': kind, 'assigned': {k: repr(v)[:200] for k, v in given.items()}, 'request': req[:400]}
        chk.case(stream, nontrivial_key=(stream, req), sample={'request': req[:200], 'impl': impl})
        chk.count(f"{stream}:{kind}:{impl.split(' ')[0].split(':')[0]}")
        mrep = rep.replace('err:', 'err:')
        if mrep != impl:
            chk.disagree(stream, case, impl, rep)
        # independent oracle on what the implementation did
        if o.get('st') != 'ok':
            continue
        if kind in ('param', 'comp', 'calmeas'):
            if o['dim'] is not None and o['dim'] != [] and o['out_dim'] != o['dim']:
                chk.fail(f'{stream}:assigned-dimension-replaced', case, f"dimension {o['dim']} assigned, {o['out_dim']} after the checks")
            vals = o['values'] if o.get('multi') else ([o['values']] if o['values'] is not None else [])
            for v in vals:
                sh = shape_of(v)
                want = (sh[1:] or [1]) if sh is not None else None
                if want is None or (o['out_dim'] is not None and list(o['out_dim']) != want):
                    chk.fail(f'{stream}:dimension-inconsistent-with-values', case,
                             f"values of shape {sh} accepted with dimension {o['out_dim']}")
            if o['axes'] is not None and o['out_dim'] is not None:
                ax = o['axes']
                okk = len(ax) == len(o['out_dim']) and all(a.coordinates.value is None or len(a.coordinates.value) == d
                                                           for a, d in zip(ax, o['out_dim']))
                if not okk and (o['dim'] is not None):
                    chk.fail(f'{stream}:axes-inconsistent-with-dimension', case,
                             f"{len(ax)} axes with coordinate counts {[None if a.coordinates.value is None else len(a.coordinates.value) for a in ax]} "
                             f"accepted with dimension {o['out_dim']}")
        if kind == 'calcoef' and len(set(o['counts'])) > 1:
            chk.fail(f'{stream}:unequal-counts-accepted', case, f"counts {o['counts']} accepted")
        if kind == 'chdata':
            if list(o['out_dim']) != o['dim']:
                chk.fail(f'{stream}:dimension-not-from-data', case, f"data rows have shape {o['dim']}, DIMENSION is {o['out_dim']}")
            if o['limit']:
                if list(o['out_limit']) != o['limit']:
                    chk.fail(f'{stream}:assigned-element-limit-replaced', case,
                             f"element_limit {o['limit']} assigned, {o['out_limit']} after setting up from data")
            if not covers(list(o['out_limit']), o['dim']):
                chk.fail(f'{stream}:element-limit-below-dimension', case, f"ELEMENT-LIMIT {o['out_limit']} does not cover {o['dim']}")
        if kind == 'chdef':
            if o['dimension'] and list(o['out_dim']) != o['dimension']:
                chk.fail(f'{stream}:assigned-dimension-replaced', case, f"dimension {o['dimension']} assigned, {o['out_dim']} after")
            if o['limit'] and list(o['out_limit']) != o['limit']:
                chk.fail(f'{stream}:assigned-element-limit-replaced', case, f"element_limit {o['limit']} assigned, {o['out_limit']} after")
            if o['long_name'] and o['out_long_name'] != o['long_name']:
                chk.fail(f'{stream}:assigned-long-name-replaced', case, f"long_name {o['long_name']!r} assigned, {o['out_long_name']!r} after")


def sequence_stream(chk, model, bres, R, n, stream='dimension-sequences'):
    """successive `_run_checks_and_set_defaults` of ONE parameter / computation / calibration measurement, the values
    (and sometimes the user's own dimension) changing in between, some checks refused: outcome and dimension held after
    every step vs `paramCheckSt` / `calMeasCheckSt` threaded through `DimState` (Model/Defaults.lean); oracle: a step
    behaves as it does on a fresh item that was given the user's latest dimension assignment and the current values"""
    if not bres.ok:
        return
    reqs, metas = [], []
    for i in range(n):
        kind = R.choice(['param', 'comp', 'calmeas'])
        nsteps = R.choice([2, 2, 3, 4])
        dim0 = R.choice([None, None, None, [2], [3]])
        names = ['maximum_deviation', 'standard_deviation', 'standard']
        if kind == 'calmeas':
            item = T.CalibrationMeasurementItem('C', parent=T.CalibrationMeasurementSet(), origin_reference=1)
        else:
            cls = (T.ParameterSet if kind == 'param' else T.ComputationSet)
            item = cls.item_type('P', parent=cls(), origin_reference=1)
        nz = R.choice([1, 2])
        zs = T.ZoneSet()
        zones = [T.ZoneItem(f'Z{k}', parent=zs, origin_reference=1) for k in range(nz)]
        if kind != 'calmeas':
            item.zones.value = zones
        if dim0 is not None:
            item.dimension.value = dim0
        # an axis (with 2, 3 or no coordinates) held throughout: it is checked against the dimension the USER assigned,
        # never against one derived at an earlier check
        axes = [mk_axis(R.choice([None, 2, 3]))] if R.random() < 0.4 else None
        if axes is not None:
            item.axis.value = axes
        toks = ['dflt', 'seq', dim_tok(dim0)]
        impl, steps_desc, fresh_ok = [], [], True
        user_dim = dim0
        for k in range(nsteps):
            asg = '='
            if R.random() < 0.15:
                user_dim = R.choice([[2], [3], [2, 2]])
                item.dimension.value = user_dim
                asg = dim_tok(user_dim)
            shape = [nz] + R.choice([[], [2], [3], [2, 2]])
            if kind == 'calmeas':
                vals = [gen_nested(R, shape if R.random() < 0.8 else [nz] + R.choice([[2], [3]])) for _ in names]
                for nm, v in zip(names, vals):
                    getattr(item, nm).value = v
                held = [getattr(item, nm).value for nm in names]
                st, err = call(item._run_checks_and_set_defaults)
                vt = []
                for h in held:
                    vt += req_tokens(h)
                toks += ['M', asg, str(len(names))] + vt + [axes_tok(axes)]
                steps_desc.append({'assign_dimension': None if asg == '=' else user_dim, 'values': vals})
                # fresh item: the user's latest assignment and the current values
                f = T.CalibrationMeasurementItem('C', parent=T.CalibrationMeasurementSet(), origin_reference=1)
                if user_dim is not None:
                    f.dimension.value = user_dim
                if axes is not None:
                    f.axis.value = axes
                for nm, v in zip(names, vals):
                    getattr(f, nm).value = v
            else:
                v = gen_nested(R, shape)
                item.values.value = v
                held = item.values.value
                st, err = call(item._run_checks_and_set_defaults)
                toks += ['P', asg, '1' if kind == 'param' else '0'] + req_tokens(held) + [str(nz), axes_tok(axes)]
                steps_desc.append({'assign_dimension': None if asg == '=' else user_dim, 'values': v})
                cls = (T.ParameterSet if kind == 'param' else T.ComputationSet)
                f = cls.item_type('P', parent=cls(), origin_reference=1)
                f.zones.value = zones
                if user_dim is not None:
                    f.dimension.value = user_dim
                if axes is not None:
                    f.axis.value = axes
                f.values.value = v
            stf, errf = call(f._run_checks_and_set_defaults)
            impl.append(('ok ' if st == 'ok' else f'err:{err} ') + dim_tok(item.dimension.value))
            if (st, None if st == 'ok' else err) != (stf, None if stf == 'ok' else errf) or \
                    (st == 'ok' and item.dimension.value != f.dimension.value):
                fresh_ok = False
                chk.fail(f'{stream}:differs-from-fresh-item',
                         {'object': kind, 'zones': nz, 'dimension_assigned_at_creation': dim0, 'axis_coordinates': axes_tok(axes), 'steps': steps_desc},
                         f'step {k + 1}: {st} {err if st != "ok" else ""} dimension {item.dimension.value}; a fresh item with the '
                         f'same assignment and values: {stf} {errf if stf != "ok" else ""} dimension {f.dimension.value}')
                break
        if not fresh_ok:
            continue
        reqs.append(' '.join(toks))
        metas.append(({'object': kind, 'zones': nz, 'dimension_assigned_at_creation': dim0, 'axis_coordinates': axes_tok(axes), 'steps': steps_desc}, ';'.join(impl)))
    for (case, impl), req, rep in zip(metas, reqs, model.ask(reqs)):
        chk.case(stream, nontrivial_key=hash(req), sample={'request': req[:200], 'impl': impl})
        chk.count(f"{stream}:{case['object']}:{'refusals' if 'err' in impl else 'all-ok'}")
        if rep != impl:
            chk.disagree(stream, dict(case, request=req[:600]), impl, rep)
