"""Shared machinery of the correspondence harness: paths, PRNG, the Lean model process, build + audit,
verdict/evidence/replay writing, known findings."""
import hashlib
import json
import os
import random
import subprocess
import sys
import time
import fcntl
import re
import shutil
import tempfile

VERIF = os.path.dirname(os.path.dirname(os.path.abspath(__file__)))
REPO = os.environ.get('VERIF_REPO', '/repo')
LEAN = os.path.join(VERIF, 'lean')
MODEL_EXE = os.path.join(LEAN, '.lake', 'build', 'bin', 'model')
EVIDENCE = os.path.join(VERIF, 'evidence')
REPLAYS = os.path.join(VERIF, 'replays')
CORPUS = os.path.join(VERIF, 'corpus')
KNOWN = os.path.join(VERIF, 'KNOWN_FINDINGS.json')

ALLOWED_AXIOMS = {'propext', 'Classical.choice', 'Quot.sound'}
TRUSTED_BASE = [
    'Lean 4.33.0 kernel',
    'axioms allowed: propext, Classical.choice, Quot.sound (audited with #print axioms on every run)',
    'Lean compiler/runtime for the executable model driver (lean_exe `model`)',
    'this harness: generators, line protocol, exception->error mapping, value extraction from numpy',
    'table generator harness/gen_tables.py (introspects the live package)',
    'modelled, not verified: CPython struct/str.encode/datetime/re/lru_cache/dict order/open; numpy; h5py; OS files',
    'the reading of RP66 V1 embodied in the strict reader (lean/Dlismodel/Model/Parse*.lean)',
]


def seed():
    try:
        return int(os.environ.get('VERIF_SEED', '0'))
    except ValueError:
        return int(hashlib.sha256(os.environ['VERIF_SEED'].encode()).hexdigest()[:8], 16)


def rng(prop, stream):
    return random.Random(f"{seed()}:{prop}:{stream}")


def hexs(b):
    return b.hex() if len(b) else '-'


def unhex(s):
    return b'' if s == '-' else bytes.fromhex(s)


def cps(s):
    """Python str -> protocol code points token"""
    return ','.join(str(ord(c)) for c in s) if s else '-'


def sh(cmd, cwd=None, timeout=1800, env=None):
    p = subprocess.run(cmd, cwd=cwd, shell=isinstance(cmd, str), stdout=subprocess.PIPE, stderr=subprocess.STDOUT,
                       timeout=timeout, env=env)
    return p.returncode, p.stdout.decode('utf-8', 'replace')


class Model:
    """Batch interface to the compiled Lean model: send request lines, get reply lines."""

    def __init__(self):
        self.calls = 0

    def ask(self, lines):
        if not lines:
            return []
        data = ('\n'.join(lines) + '\n').encode()
        p = subprocess.run([MODEL_EXE], input=data, stdout=subprocess.PIPE, stderr=subprocess.PIPE)
        if p.returncode != 0:
            raise RuntimeError(f"model driver failed: {p.stderr.decode()[:500]}")
        out = p.stdout.decode().split('\n')
        if out and out[-1] == '':
            out.pop()
        if len(out) != len(lines):
            raise RuntimeError(f"model driver returned {len(out)} replies for {len(lines)} requests")
        self.calls += len(lines)
        bad = [(l, o) for l, o in zip(lines, out) if o == 'bad']
        if bad:
            raise RuntimeError(f"model driver rejected request: {bad[0][0][:300]}")
        return out


# ---------------------------------------------------------------------------------------------------------
# build: generated tables -> lake build -> grep -> axiom audit

class BuildResult:
    def __init__(self):
        self.ok = True            # the model driver is built and usable (correspondence and oracles can run)
        self.lib_ok = True        # the whole library, proofs and obligations included, builds
        self.log = ''
        self.failed_modules = []
        self.axioms = {}          # theorem -> list of axioms (or None if missing)
        self.forbidden = []       # grep hits
        self.rechecked = None     # thorough tier: result of the independent re-check of the compiled proofs (leanchecker)
        self.wall = 0.0


def _lock():
    os.makedirs(os.path.join(LEAN, '.lake'), exist_ok=True)
    f = open(os.path.join(LEAN, '.lake', 'verif.lock'), 'w')
    fcntl.flock(f, fcntl.LOCK_EX)
    return f


FORBIDDEN_RE = re.compile(r'\b(sorry|admit|native_decide|bv_decide|implemented_by|unsafe)\b|^\s*axiom\s|maxHeartbeats\s+0\b')


def strip_comments(src):
    # remove /- ... -/ (nested) and -- ... comments
    out = []
    i, depth = 0, 0
    n = len(src)
    while i < n:
        if src.startswith('/-', i):
            depth += 1
            i += 2
        elif depth and src.startswith('-/', i):
            depth -= 1
            i += 2
        elif depth:
            i += 1
        elif src.startswith('--', i):
            while i < n and src[i] != '\n':
                i += 1
        else:
            out.append(src[i])
            i += 1
    return ''.join(out)


def grep_forbidden():
    hits = []
    for root, _, files in os.walk(LEAN):
        if '.lake' in root:
            continue
        for fn in files:
            if fn.endswith('.lean'):
                p = os.path.join(root, fn)
                src = strip_comments(open(p).read())
                for ln, line in enumerate(src.split('\n'), 1):
                    if FORBIDDEN_RE.search(line):
                        hits.append(f"{os.path.relpath(p, LEAN)}:{ln}: {line.strip()[:120]}")
    return hits


def build(theorems, gen=True):
    """Regenerate tables from /repo, lake build, grep, audit axioms of `theorems`."""
    t0 = time.time()
    res = BuildResult()
    lock = _lock()
    try:
        if gen:
            from harness import gen_tables
            try:
                gen_tables.generate()
            except Exception as exc:   # the live package could not be introspected
                res.lib_ok = False
                res.log += f"table generation failed: {type(exc).__name__}: {exc}\n"
        rc, out = sh(['lake', 'build', 'Dlismodel', 'model'], cwd=LEAN, timeout=3000)
        res.log += out
        if rc != 0:
            res.lib_ok = False
            res.failed_modules = re.findall(r'^- (\S+)', out, flags=re.M)
            # a proof or obligation no longer checks; the executable model (which uses the pinned tables only) is
            # still needed for the search for a failing input
            rc_m, out_m = sh(['lake', 'build', 'model'], cwd=LEAN, timeout=3000)
            if rc_m != 0:
                res.ok = False
                res.log += out_m
        res.forbidden = grep_forbidden()
        if res.lib_ok and rc == 0 and theorems:
            audit = os.path.join(LEAN, '.lake', f'Audit_{os.getpid()}.lean')
            with open(audit, 'w') as f:
                f.write('import Dlismodel\n')
                for th in theorems:
                    f.write(f'#print axioms {th}\n')
            rc2, out2 = sh(['lake', 'env', 'lean', audit], cwd=LEAN, timeout=1200)
            os.unlink(audit)
            for th in theorems:
                m = re.search(r"'" + re.escape(th) + r"' depends on axioms: \[([^\]]*)\]", out2)
                if m:
                    res.axioms[th] = [a.strip() for a in m.group(1).replace('\n', ' ').split(',') if a.strip()]
                elif re.search(r"'" + re.escape(th) + r"' does not depend on any axioms", out2):
                    res.axioms[th] = []
                else:
                    res.axioms[th] = None
            if rc2 != 0:
                res.log += out2
            if os.environ.get('VERIF_TIER_EFFECTIVE') == 'thorough':
                # independent re-check of the compiled proof modules by the toolchain's leanchecker
                mods = sorted({'Dlismodel.' + os.path.relpath(os.path.join(r, f), os.path.join(LEAN, 'Dlismodel'))[:-5].replace(os.sep, '.')
                               for sub in ('Proofs', 'Props', 'Generated')
                               for r, _, fs in os.walk(os.path.join(LEAN, 'Dlismodel', sub)) for f in fs if f.endswith('.lean')})
                # the re-check is a function of the compiled files: remember the result per build state
                import hashlib
                sig = hashlib.sha256()
                for r_, _, fs_ in sorted(os.walk(os.path.join(LEAN, '.lake', 'build', 'lib'))):
                    for f_ in sorted(fs_):
                        if f_.endswith('.olean'):
                            pth = os.path.join(r_, f_)
                            st_ = os.stat(pth)
                            sig.update(f'{pth}:{st_.st_size}:{st_.st_mtime_ns}\n'.encode())
                stamp = os.path.join(LEAN, '.lake', 'leanchecker.stamp')
                if os.path.exists(stamp) and open(stamp).read().strip() == sig.hexdigest():
                    rc3, out3 = 0, ''
                else:
                    rc3, out3 = sh(['lake', 'env', 'leanchecker'] + mods, cwd=LEAN, timeout=3000)
                    if rc3 == 0:
                        with open(stamp, 'w') as f_:
                            f_.write(sig.hexdigest())
                res.rechecked = (rc3 == 0)
                if rc3 != 0:
                    res.lib_ok = False
                    res.failed_modules = ['leanchecker'] + res.failed_modules
                    res.log += out3
    finally:
        lock.close()
    res.wall = time.time() - t0
    return res


def theorem_ok(res, th):
    ax = res.axioms.get(th)
    return ax is not None and set(ax) <= ALLOWED_AXIOMS


# ---------------------------------------------------------------------------------------------------------
# known findings

def load_known():
    if not os.path.exists(KNOWN):
        return {'findings': [], 'fixed': []}
    return json.load(open(KNOWN))


# ---------------------------------------------------------------------------------------------------------
# result object of a property check

class Check:
    def __init__(self, prop, tier):
        self.prop = prop
        self.tier = tier
        self.t0 = time.time()
        self.evaluations = 0
        self.nontrivial = set()
        self.samples = []
        self.hist = {}
        self.disagreements = []     # (stream, case, impl, model)
        self.failures = []          # (kind_key, case, detail): concrete failing inputs found by the oracle
        self.internal = []          # internal inconsistencies of the machinery
        self.exhaustive = False
        self.notes = []
        self.rule = ''
        self.streams = {}
        # replay files of earlier runs of this property are stale
        if os.path.isdir(REPLAYS):
            for fn in os.listdir(REPLAYS):
                if fn.startswith(prop + '_'):
                    try:
                        os.unlink(os.path.join(REPLAYS, fn))
                    except OSError:
                        pass

    def count(self, key, n=1):
        self.hist[key] = self.hist.get(key, 0) + n

    def case(self, stream, nontrivial_key=None, sample=None):
        self.evaluations += 1
        self.streams[stream] = self.streams.get(stream, 0) + 1
        if nontrivial_key is not None:
            self.nontrivial.add((stream, nontrivial_key))
        if sample is not None and sum(1 for s in self.samples if s.get('stream') == stream) < 3:
            d = {'stream': stream}
            d.update(sample)
            self.samples.append(d)

    def disagree(self, stream, case, impl, model):
        d = {'stream': stream, 'case': case}
        if isinstance(impl, str) and isinstance(model, str):
            i = next((k for k, (a, b) in enumerate(zip(impl, model)) if a != b), min(len(impl), len(model)))
            d['first_difference_at_char'] = i
            d['lengths'] = [len(impl), len(model)]
            lo = max(0, i - 60)
            d['impl'] = impl[:40] + ' ... ' + impl[lo:i + 80] if lo > 40 else impl[:i + 80]
            d['model'] = model[:40] + ' ... ' + model[lo:i + 80] if lo > 40 else model[:i + 80]
        else:
            d['impl'], d['model'] = impl, model
        self.disagreements.append(d)

    def fail(self, key, case, detail):
        """A concrete input on which the property fails on the implementation (oracle verdict)."""
        self.failures.append({'key': key, 'case': case, 'detail': detail})


def write_replay(prop, name, payload):
    os.makedirs(REPLAYS, exist_ok=True)
    path = os.path.join(REPLAYS, f'{prop}_{name}.json')
    with open(path, 'w') as f:
        json.dump(payload, f, indent=1, sort_keys=True, default=str)
    return path


def finish(chk, bres, theorems, partial_note=None, extra_assumptions=None):
    """Verdict + evidence.  Returns the process exit code."""
    prop = chk.prop
    known = load_known()
    lines = []
    violations = 0

    proofs_ok = bres.ok and bres.lib_ok and not bres.forbidden and all(theorem_ok(bres, t) for t in theorems)
    obligations = len(theorems)
    discharged = sum(1 for t in theorems if theorem_ok(bres, t))

    # 1. concrete failures found by the oracle on the implementation
    kf = [k for k in known.get('findings', []) if k['property'] == prop]
    seen_known = {}
    unlisted = []
    for f in chk.failures:
        hit = next((k for k in kf if k['key'] == f['key']), None)
        if hit:
            seen_known.setdefault(hit['key'], (hit, f))
        else:
            unlisted.append(f)
    for key, (hit, f) in seen_known.items():
        lines.append(f"KNOWN-FINDING: property={prop} {hit['what']}")
    if unlisted:
        # group by key, report the smallest case of each
        bykey = {}
        for f in unlisted:
            bykey.setdefault(f['key'], []).append(f)
        for key, fs in bykey.items():
            fs.sort(key=lambda f: len(json.dumps(f['case'], default=str)))
            path = write_replay(prop, re.sub(r'\W+', '_', key)[:60], {
                'property': prop, 'kind': 'failing-input', 'key': key, 'case': fs[0]['case'],
                'detail': fs[0]['detail'], 'others': len(fs) - 1, 'seed': seed(), 'tier': chk.tier})
            lines.append(f"VIOLATION property={prop} replay={path}")
            violations += 1

    # 2. broken proof obligations / correspondence without a failing input
    broken = []
    if not proofs_ok:
        what = []
        if not (bres.ok and bres.lib_ok):
            what.append('lake build failed: ' + ', '.join(bres.failed_modules or ['?']))
        if bres.forbidden:
            what.append('forbidden constructs: ' + '; '.join(bres.forbidden[:5]))
        for t in theorems:
            if not theorem_ok(bres, t):
                what.append(f'theorem {t}: axioms={bres.axioms.get(t)}')
        broken.append({'what': 'proof obligations', 'detail': what, 'log_tail': bres.log[-3000:]})
    if chk.disagreements:
        # disagreements inside the region of a known finding are expected only if the model mirrors the
        # defect; they are reported like any other (the model must follow the code)
        broken.append({'what': 'correspondence', 'count': len(chk.disagreements),
                       'first': chk.disagreements[:5]})
    if broken and not unlisted:
        path = write_replay(prop, 'unproved', {
            'property': prop, 'kind': 'no-failing-input-found', 'broken': broken, 'seed': seed(), 'tier': chk.tier,
            'note': 'the theorem or correspondence named here no longer checks; the search over model and '
                    'implementation found no concrete input on which the property fails'})
        lines.append(f"VIOLATION property={prop} replay={path} no-failing-input-found")
        violations += 1
    elif broken and unlisted:
        # record what else is broken inside the failing-input replay directory
        write_replay(prop, 'broken_obligations', {'property': prop, 'broken': broken})

    if chk.internal:
        path = write_replay(prop, 'internal', {'property': prop, 'internal': chk.internal[:10]})
        sys.stderr.write(f"INTERNAL inconsistency of the verification machinery, see {path}\n")

    wall = time.time() - chk.t0
    ev = {
        'property_id': prop,
        'tier': chk.tier,
        'seed': seed(),
        'level': 'proof',
        'coverage': {
            'obligations': obligations,
            'discharged': discharged,
            'checker_cmd': 'cd lean && lake build Dlismodel model && lake env lean <Audit.lean with #print axioms '
                           'for each theorem>; grep for sorry/admit/axiom/native_decide/bv_decide/implemented_by/unsafe',
            'trusted_base': TRUSTED_BASE,
            'theorems': {t: bres.axioms.get(t) for t in theorems},
            'evaluations': chk.evaluations,
            'distinct_nontrivial': len(chk.nontrivial),
            'rule': chk.rule,
            'samples': chk.samples[:12],
            'streams': chk.streams,
            'histogram': dict(sorted(chk.hist.items())),
            'exhaustive': chk.exhaustive,
            'correspondence_disagreements': len(chk.disagreements),
            'oracle_failures': len(chk.failures),
            'known_findings_seen': sorted(seen_known),
            'build_wall_s': round(bres.wall, 2),
            'leanchecker_recheck': bres.rechecked,
            'explanation': partial_note or '',
            'notes': chk.notes,
        },
        'assumptions': (extra_assumptions or []),
        'wall_s': round(wall, 2),
        'violations': violations,
    }
    os.makedirs(EVIDENCE, exist_ok=True)
    tmp = os.path.join(EVIDENCE, f'.{prop}.{os.getpid()}.tmp')
    with open(tmp, 'w') as f:
        json.dump(ev, f, indent=1, default=str)
    os.replace(tmp, os.path.join(EVIDENCE, f'{prop}.json'))

    for l in lines:
        print(l)
    if chk.internal:
        print(f"check {prop}: INTERNAL ERROR ({len(chk.internal)} inconsistencies)")
        return 2
    if violations:
        return 1
    print(f"check {prop} [{chk.tier}] ok: {discharged}/{obligations} theorems, {chk.evaluations} correspondence "
          f"cases ({len(chk.nontrivial)} distinct non-trivial), {wall:.1f}s")
    return 0
