"""Histories of add_* calls (valid and rejected, interleaved between logical files) applied to the real API and to
the Lean state machine (Model/Api.lean); oracles for C07 / C09 / C18 / C20 on the decoded file."""
import os
import shutil
import tempfile

import numpy as np

from harness.common import rng, cps, hexs
from harness import filegen, content, impl
from harness.impl import call

from dliswriter import DLISFile

# kind index 0 is ORIGIN in the model
SIMPLE = ['origin', 'zone', 'axis', 'comment', 'long_name', 'equipment', 'tool', 'no_format', 'message',
          'well_reference_point', 'group', 'channel', 'frame']
KIDX = {k: i for i, k in enumerate(SIMPLE)}
LATE_REJECT = {   # keyword values refused after the item registered itself: [TypeError/ValueError kind, RuntimeError kind]
    'zone': [{'domain': 'NOT-A-DOMAIN'}, {'description': {'value': 'x', 'units': 'm'}}],
    'axis': [{'spacing': 'abc'}, {'axis_id': {'value': 'A', 'units': 'm'}}],
    'comment': [{'text': [1]}, {'text': {'value': ['t'], 'units': 'm'}}],
    'long_name': [{'quantity': 5}, {'quantity': {'value': 'q', 'units': 's'}}],
    'equipment': [{'status': 7}, {'status': {'value': 1, 'units': 's'}}],
    'tool': [{'status': 7}, {'status': {'value': 1, 'units': 's'}}, {'parts': ['not-an-item']}],
    'no_format': [{'description': 3}, {'description': {'value': 'd', 'units': 'm'}}],
    'message': [{'text': [3]}, {'text': {'value': ['t'], 'units': 'm'}}],
    'well_reference_point': [{'permanent_datum': 1}, {'permanent_datum': {'value': 'p', 'units': 'm'}}],
    'group': [{'description': 1}, {'description': {'value': 'd', 'units': 'm'}}, {'object_list': [5]}],
    'origin': [{'product': 5}, {'product': {'value': 'p', 'units': 'm'}}, {'descent_number': 'x'}],
    'channel': [{'minimum_value': 'x'}, {'dimension': {'value': [1], 'units': 'm'}}, {'cast_dtype': 'not-a-dtype'},
                {'cast_dtype': 'float32'}, {'cast_dtype': float}, {'cast_dtype': 'u1'}, {'cast_dtype': '<f8'}],
}


def gen_history(R, tier):
    n_lf = R.choice([1, 1, 2, 2, 3, 3, 4])
    share = R.random() < 0.35          # logical files use the same (default) set names
    # otherwise every logical file draws its set names from a pool; pools may coincide for some logical files
    # (adjacent or not) and differ for others
    pool_of = [R.choice([0, 1, 2, lf + 10, lf + 10]) for lf in range(n_lf)]
    ops = []
    names = ['A', 'B', 'C', 'Z9'] if R.random() < 0.6 else ['A', 'B']
    n_ops = R.choice([3, 6, 10, 14])
    have_origin = [False] * n_lf
    for _ in range(n_ops):
        lf = R.randrange(n_lf)
        kind = R.choice(SIMPLE[:11] + ['origin', 'channel'])
        if n_lf > 1 and not share:
            sn = R.choice([f'P{pool_of[lf]}', f'P{pool_of[lf]}', f'P{pool_of[lf]}X'])
            if pool_of[lf] == 0 and R.random() < 0.5:
                sn = None
        else:
            sn = R.choice([None, None, 'S1', ''])       # '' : an empty name is no name
        out = R.choice(['ok', 'ok', 'ok', 'ok', 'early', 'late'])
        oref = R.choice([None, None, None, 0, 5, 5, 128]) if kind != 'origin' else R.choice([None, None, 5, 5, 7])
        ops.append({'lf': lf, 'kind': kind, 'sn': sn, 'name': R.choice(names), 'oref': oref, 'out': out,
                    'variant': R.randrange(3)})
        if kind != 'origin' and R.random() < 0.15:
            # the user passes the reference reported by an origin of the logical file (origin.origin_reference), whatever
            # number that origin was given: resolved when the history is applied
            ops[-1]['oref_of'] = R.choice([0, 1, 1])
            ops[-1]['oref'] = None
        if kind == 'origin' and out == 'ok':
            have_origin[lf] = True
    if R.random() < 0.2:
        # identity stress: several same-named objects in ONE set, with and without an explicit origin reference, all
        # created before the logical file's first origin, which then takes that same reference explicitly
        lf = R.randrange(n_lf)
        ops = [o for o in ops if not (o['lf'] == lf and o['kind'] == 'origin')]
        k = R.choice([5, 128])
        kind = R.choice(SIMPLE[1:11])
        sn0 = None if n_lf == 1 else f'Q{lf}'
        for _ in range(R.choice([2, 3, 4])):
            ops.append({'lf': lf, 'kind': kind, 'sn': sn0, 'name': R.choice(['A', 'B']), 'oref': R.choice([None, k]),
                        'out': 'ok', 'variant': 0})
        ops.append({'lf': lf, 'kind': 'origin', 'sn': (f'O{lf}' if n_lf > 1 else None), 'name': 'ORG', 'oref': k,
                    'out': 'ok', 'variant': 0})
        have_origin[lf] = True
    # make every logical file complete: origin (maybe), one channel + frame in sets of its own
    for lf in range(n_lf):
        if not have_origin[lf] and R.random() < 0.9:
            ops.insert(R.randrange(len(ops) + 1), {'lf': lf, 'kind': 'origin', 'sn': (f'O{lf}' if n_lf > 1 and not share else None),
                                                   'name': 'ORG', 'oref': None, 'out': 'ok'})
        ops.append({'lf': lf, 'kind': 'channel', 'sn': f'__c{lf}', 'name': f'CH{lf}', 'oref': None, 'out': 'ok'})
        ops.append({'lf': lf, 'kind': 'frame', 'sn': f'__f{lf}', 'name': f'FR{lf}', 'oref': None, 'out': 'ok'})
    return {'n_lf': n_lf, 'ops': ops}


def op_token(op):
    sn = '~' if op['sn'] is None else cps(op['sn'])
    oref = '~' if op['oref'] is None else str(op['oref'])
    if op['kind'] == 'origin':
        return f"O|{op['lf']}|{sn}|{cps(op['name'])}|{oref}|{op['out']}"
    return f"I|{op['lf']}|{KIDX[op['kind']]}|{sn}|{cps(op['name'])}|{oref}|{op['out']}"


def hist_req(h):
    return f"hist {h['n_lf']} " + ' '.join(op_token(o) for o in h['ops'])


def apply_history(h, drop_rejected=False):
    """-> (df, lfs, live handles in registration order [(handle, lf)], per-op outcomes)"""
    df = DLISFile(set_identifier='HIST', max_record_length=8192)
    lfs = [df.add_logical_file(fh_id=f'HDR{i}', fh_sequence_number=i + 1) for i in range(h['n_lf'])]
    live = []
    outcomes = []
    chans = {}
    origins = {}
    for op in h['ops']:
        if drop_rejected and op['out'] != 'ok':
            continue
        L = lfs[op['lf']]
        kind = op['kind']
        method = getattr(L, filegen.KINDS[kind][0])
        kw = {}
        if op['sn'] is not None:
            kw['set_name'] = op['sn']
        if 'oref_of' in op:
            have = origins.get(op['lf'], [])
            op['oref'] = have[op['oref_of']].origin_reference if op['oref_of'] < len(have) else None
            op['chosen_origin'] = op['oref']
        if op['oref'] is not None:
            kw['origin_reference'] = op['oref']
        name = op['name']
        if op['out'] == 'early':
            name = 12345                      # not a str: refused before the item registers itself
        elif op['out'] == 'late':
            kw.update(LATE_REJECT[kind][op.get('variant', 0) % len(LATE_REJECT[kind])])
        if kind == 'origin':
            kw.setdefault('file_set_number', 7)
            kw.setdefault('creation_time', '2020/01/01 00:00:00')
        if kind == 'channel':
            kw['data'] = np.arange(3, dtype=np.float64) + op['lf']
        if kind == 'frame':
            kw['channels'] = [chans[op['lf']]]
        st, res = call(method, name, **kw)
        outcomes.append(st)
        if st == 'ok':
            live.append((res, op['lf']))
            if kind == 'channel':
                chans[op['lf']] = res
            if kind == 'origin':
                origins.setdefault(op['lf'], []).append(res)
            if op.get('chosen_origin') is not None:
                op['got_origin'] = res.origin_reference
    return df, lfs, live, outcomes


def impl_state(df, lfs, live):
    items = '+'.join(f"{cps(it.name)}/{'~' if it.origin_reference is None else it.origin_reference}/{it.copy_number}/{lf}"
                     for it, lf in live)
    rows = []
    for L in lfs:
        hdr = L.file_header_item.origin_reference
        keys = []
        for set_cls, d in L._eflr_sets.items():
            for nm, s in d.items():
                keys.append(f"{KIDX[filegen.SETTYPE_KIND[set_cls.set_type]]}:{'~' if nm is None else cps(nm)}")
        rows.append((('~' if hdr is None else str(hdr)), canon_keys(keys)))
    return items, rows


def parse_model(rep):
    """'ok W1 items=... # hdr=.. K=.. R=.. # ...' -> dict"""
    body = rep[3:]
    head, *lfparts = body.split(' # ')
    w, _, items = head.partition(' items=')
    out = {'writable': w == 'W1', 'items': items, 'lfs': []}
    for p in lfparts:
        hdr, _, rest = p.partition(' K=')
        keys, _, recs = rest.partition(' R=')
        out['lfs'].append({'hdr': hdr[4:], 'keys': canon_keys(split_keys(keys)) if keys else [], 'recs': recs})
    return out


def canon_keys(keys):
    """the generator emits ORIGIN sets first and the others in registry order; the position of the ORIGIN class
    among the classes (it is created by the first *read* of the default origin) is not observable"""
    return [k for k in keys if k.startswith('0:')] + [k for k in keys if not k.startswith('0:')]


def split_keys(s):
    # keys are 'kind:cps' where cps itself contains commas -> re-join pieces that do not start a new key
    out = []
    for piece in s.split(','):
        if ':' in piece:
            out.append(piece)
        elif out:
            out[-1] += ',' + piece
    return out


# ---------------------------------------------------------------------------------------------------------------
# write-time object checks (Model/Checks.lean): histories with reference edges between the objects

REF_ATTRS = {   # holder kind -> [(attribute, admissible target kinds or None = any, multivalued)]
    'channel': [('axis', ['axis'], True), ('long_name', ['long_name'], False), ('source', None, False)],
    'tool': [('parts', ['equipment'], True), ('channels', ['channel'], True)],
    'group': [('object_list', None, True), ('group_list', ['group'], True)],
}
CHECK_MSGS = [("No origin defined", 'no-origin'), ("No Origin defined", 'no-origin'), ("Origin not defined", 'no-origin'),
              ("No channels defined", 'no-channels'), ("No frames defined", 'no-frames'),
              ("has not been registered in file's channels", 'channel-not-registered'),
              ("'file_id' of the Defining Origin", 'file-id'),
              ("does not belong to the same logical file", 'foreign-reference'),
              ("is shared between logical files", 'shared-set'),
              ("has not been added to any frame", 'channel-frame-count'), ("frames; according to RP66", 'channel-frame-count')]


def gen_ref_history(R, hc=False):
    """objects of 1..3 logical files (sets named per logical file, sometimes shared), then reference assignments: mostly
    within a logical file, sometimes across; some logical files lack an origin / a channel / a frame"""
    n_lf = R.choice([1, 2, 2, 2, 3])
    share = n_lf > 1 and R.random() < 0.12
    ops = []
    fid = []
    for lf in range(n_lf):
        sn = None if (share or n_lf == 1) else f'L{lf}'
        sn2 = sn if R.random() < 0.6 else f'M{lf}'
        lack = R.choice([None] * 8 + ['origin', 'channel', 'frame'])
        fid.append(R.choice([None, None, 'same', 'same', 'OTHER']))
        mine = []
        for _ in range(0 if lack == 'origin' else R.choice([1, 1, 2])):
            mine.append({'lf': lf, 'kind': 'origin', 'sn': R.choice([sn, sn2]), 'name': R.choice(['O', 'P']), 'oref': None, 'out': 'ok'})
        for k in range(0 if lack == 'channel' else R.choice([1, 2, 3])):
            # (two channels of one name in one frame are refused on purpose: distinct names within a logical file)
            mine.append({'lf': lf, 'kind': 'channel', 'sn': R.choice([sn, sn, sn2]), 'name': f'C{k}', 'oref': None, 'out': 'ok'})
        for _ in range(0 if lack == 'frame' else R.choice([1, 1, 2])):
            mine.append({'lf': lf, 'kind': 'frame', 'sn': R.choice([sn, sn, sn2]), 'name': R.choice(['F', 'G']), 'oref': None, 'out': 'ok'})
        for _ in range(R.choice([0, 2, 4, 6])):
            mine.append({'lf': lf, 'kind': R.choice(['axis', 'long_name', 'equipment', 'tool', 'group', 'zone', 'group', 'tool']),
                         'sn': R.choice([sn, sn, sn2]), 'name': R.choice(['A', 'B']), 'oref': None,
                         'out': R.choice(['ok'] * 6 + ['late'])})
        R.shuffle(mine)
        ops.append(mine)
    # interleave the logical files
    merged = []
    while any(ops):
        lf = R.choice([i for i in range(n_lf) if ops[i]])
        merged.append(ops[lf].pop(0))
    # add_frame wants a channel at once: frames never come before the first channel of the whole file (what a frame
    # holds in the end is assigned afterwards)
    first_ch = next((i for i, o in enumerate(merged) if o['kind'] == 'channel'), None)
    if first_ch is None:
        merged = [o for o in merged if o['kind'] != 'frame']
    else:
        early = [o for o in merged[:first_ch] if o['kind'] == 'frame']
        merged = [o for o in merged[:first_ch] if o['kind'] != 'frame'] + [merged[first_ch]] + early + merged[first_ch + 1:]
    # reference assignments (holder / targets are indices into the ACCEPTED objects, resolved when applied)
    acc = [o for o in merged if o['out'] == 'ok']
    assigns = []
    p_cross = R.choice([0.0, 0.0, 0.1, 0.3])
    for hi, o in enumerate(acc):
        if o['kind'] == 'frame':
            own = [i for i, t in enumerate(acc) if t['kind'] == 'channel' and t['lf'] == o['lf']]
            other = [i for i, t in enumerate(acc) if t['kind'] == 'channel' and t['lf'] != o['lf']]
            picks = R.sample(own, R.randint(1, len(own))) if own else []
            if other and (R.random() < p_cross or not picks):
                picks.insert(R.randrange(len(picks) + 1), R.choice(other))
            if picks:
                assigns.append({'holder': hi, 'attr': 'channels', 'targets': picks, 'multi': True})
        elif o['kind'] in REF_ATTRS and R.random() < 0.7:
            attr, kinds, multi = R.choice(REF_ATTRS[o['kind']])
            cands = [i for i, t in enumerate(acc) if (kinds is None or t['kind'] in kinds) and i != hi]
            own = [i for i in cands if acc[i]['lf'] == o['lf']]
            other = [i for i in cands if acc[i]['lf'] != o['lf']]
            pool = other if (other and R.random() < p_cross) else own
            if pool:
                # (a channel has as many axes as dimensions: one)
                picks = R.sample(pool, R.randint(1, min(3, len(pool)))) if (multi and attr != 'axis') else [R.choice(pool)]
                assigns.append({'holder': hi, 'attr': attr, 'targets': picks, 'multi': multi})
    if hc and R.random() < 0.6:
        # in the mode a channel listed by no frame or by several is refused: often give every channel to exactly one frame
        # of its logical file (when it has one)
        for a in assigns:
            if a['attr'] == 'channels':
                a['_before'] = list(a['targets'])
                a['targets'] = [t for t in a['targets'] if acc[t]['lf'] != acc[a['holder']]['lf']]
        for ci, o in enumerate(acc):
            if o['kind'] == 'channel':
                frs = [a for a in assigns if a['attr'] == 'channels' and acc[a['holder']]['lf'] == o['lf']]
                if frs:
                    R.choice(frs)['targets'].append(ci)
        for a in assigns:
            # (every frame keeps an assignment: what it was created with is always replaced)
            if a['attr'] == 'channels' and not a['targets']:
                a['targets'] = a['_before']
            a.pop('_before', None)
    return {'n_lf': n_lf, 'ops': merged, 'fid': fid, 'assigns': assigns, 'hc': hc}


def chk_req(h):
    acc = [o for o in h['ops'] if o['out'] == 'ok']
    edges = ','.join(f"{a['holder']}:{t}:{1 if (a['attr'] == 'channels' and acc[a['holder']]['kind'] == 'frame') else 0}"
                     for a in h['assigns'] for t in a['targets'])
    # FILE-ID values are attribute-level state outside the model's World: whether the defining origin of each logical
    # file carries the header's ID is read off the live objects (`fid_bits`, set by apply_ref_history)
    fid = h.get('fid_bits') or ''.join('0' if f == 'OTHER' else '1' for f in h['fid'])
    return (f"{'chkhc' if h.get('hc') else 'chk'} {h['n_lf']} {KIDX['channel']} {KIDX['frame']} {fid} {edges or '-'} " +
            ' '.join(op_token(o) for o in h['ops']))


def apply_ref_history(h, path):
    """build the objects, assign the references through the public setters, write -> 'ok' | 'err <tag>' | 'other:<text>'
    (in high-compatibility mode when the history says so)"""
    if h.get('hc'):
        from dliswriter import high_compatibility_mode
        with high_compatibility_mode():
            return _apply_ref_history(h, path)
    return _apply_ref_history(h, path)


def _apply_ref_history(h, path):
    df = DLISFile(set_identifier='REFS', max_record_length=8192)
    lfs = [df.add_logical_file(fh_id=f'HDR{i}', fh_sequence_number=i + 1) for i in range(h['n_lf'])]
    live = []
    for op in h['ops']:
        L = lfs[op['lf']]
        kind = op['kind']
        kw = {}
        if op['sn'] is not None:
            kw['set_name'] = op['sn']
        if op['out'] == 'late':
            kw.update(LATE_REJECT[kind][0])
        if kind == 'origin':
            kw['file_set_number'] = 7
            kw['creation_time'] = '2020/01/01 00:00:00'
        if kind == 'channel':
            kw['data'] = np.arange(3, dtype=np.float64) + len(live)
        if kind == 'frame':
            kw['channels'] = [next(x for x in live if type(x).__name__ == 'ChannelItem')]
        st, res = call(getattr(L, filegen.KINDS[kind][0]), op['name'], **kw)
        if (st == 'ok') != (op['out'] == 'ok'):
            return f'other:add_{kind} {st} where {op["out"]} was planned', None
        if st == 'ok':
            live.append(res)
            if kind == 'origin' and h['fid'][op['lf']] == 'OTHER':
                # add_origin takes the FILE-ID from the header; the user may assign another one afterwards
                res.file_id.value = h['fid'][op['lf']]
    for a in h['assigns']:
        val = [live[t] for t in a['targets']]
        try:
            getattr(live[a['holder']], a['attr']).value = val if a['multi'] else val[0]
        except Exception as exc:  # noqa
            return f'other:assignment of {a["attr"]} refused: {type(exc).__name__} {exc}'[:300], None
    h['fid_bits'] = ''.join('1' if (L.defining_origin is None or L.defining_origin.file_id.value == L.file_header.header_id)
                            else '0' for L in lfs)
    try:
        df.write(path, output_chunk_size=2**20)
    except Exception as exc:  # noqa
        msg = str(exc)
        for needle, tag in CHECK_MSGS:
            if needle in msg:
                return 'err ' + tag, live
        return f'other:{type(exc).__name__} {msg}'[:300], live
    return 'ok', live
