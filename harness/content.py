"""The independent expectation: what a strict reader is entitled to decode from a file, computed from the
specification (what was passed to the public API) and the pinned schema — never from dliswriter objects."""
import datetime as dtm
import struct

import numpy as np

from harness.common import hexs
from harness.filegen import ATTRS, ENUMS, KINDS, DT_RC, DT_SIZE, Ref
from dliswriter.utils import enums as _enums   # only to recognise enum members passed by the generator

UTC = dtm.timezone.utc


def hx(s):
    return hexs(s.encode('ascii'))


def f64tok(x):
    return 'd%d' % struct.unpack('>Q', struct.pack('>d', float(x)))[0]


def dt_token(t):
    if isinstance(t, str):
        for fmt in ("%Y/%m/%d %H:%M:%S", "%Y.%m.%d %H:%M:%S"):
            try:
                t = dtm.datetime.strptime(t, fmt)
                break
            except ValueError:
                pass
    if t.tzinfo is not None:
        t = (t.replace(tzinfo=None) - t.utcoffset())
    q, r = divmod(t.microsecond, 1000)
    ms = q if r < 500 else q + 1 if r > 500 else (q if q % 2 == 0 else q + 1)
    ms = min(ms, 999)
    return f'T{t.year - 1900}.2.{t.month}.{t.day}.{t.hour}.{t.minute}.{t.second}.{ms}'


def flat(v):
    out = []
    for x in v:
        if isinstance(x, (list, tuple)):
            out.extend(flat(x))
        else:
            out.append(x)
    return out


class Sim:
    """Simulation of the documented identity rules: origin numbering, default origin, copy numbers."""

    def __init__(self, spec):
        self.spec = spec
        self.ident = {}          # (lf, idx) -> dict(origin, copy, name, set_type, set_name)
        self.lf_default_origin = {}
        set_members = {}         # (set_type, set_name) -> list of names (physical-file wide: sets are shared by key)
        for li, lf in enumerate(spec['lfs']):
            origins = []         # origin refs of this logical file
            pending = []         # objects created before the first origin
            default = None
            for oi, o in enumerate(lf['objects']):
                st = KINDS[o['kind']][1]
                key = (li, st)          # numbered among the objects of the type in the whole logical file, whatever their sets
                names = set_members.setdefault(key, [])
                copy = sum(1 for n in names if n == o['name'])
                names.append(o['name'])
                explicit = o.get('origin_reference')
                if o['kind'] == 'origin':
                    if explicit:
                        ref = explicit
                    else:
                        ref = len(origins)
                        while ref in origins:
                            ref += 1
                    origins.append(ref)
                    origin = ref
                    if default is None:
                        default = ref
                        for p in pending:
                            self.ident[p]['origin'] = ref
                        pending = []
                else:
                    origin = explicit or default
                    if origin is None:
                        pending.append((li, oi))
                self.ident[(li, oi)] = {'origin': origin, 'copy': copy, 'name': o['name'], 'set_type': st,
                                        'set_name': o.get('set_name')}
            self.lf_default_origin[li] = default

    def obname(self, ref):
        i = self.ident[(ref.lf, ref.idx)]
        return f"o{i['origin']}.{i['copy']}.{hx(i['name'])}"

    def objref(self, ref):
        i = self.ident[(ref.lf, ref.idx)]
        return f"r{hx(i['set_type'])}.{i['origin']}.{i['copy']}.{hx(i['name'])}"


def norm(row, v, sim):
    """(count, rc, [canonical value tokens]) a reader must see for value v assigned to the attribute of schema row"""
    label, pyname, cls, rc, mv, md, us, detail = row
    det = dict(x.split('=') if '=' in x else (x, True) for x in detail.split(';') if x)
    is_list = isinstance(v, (list, tuple))
    vals = flat(v) if is_list else [v]
    if mv and not is_list:
        vals, is_list = [v], True
    count = len(vals) if (mv or is_list) else 1
    toks = []
    out_rc = rc

    def enumval(x):
        if isinstance(x, _enums.ValidatorEnum if hasattr(_enums, 'ValidatorEnum') else ()):
            return x.value
        return getattr(x, 'value', x) if not isinstance(x, str) or type(x) is not str else x

    if cls in ('EFLRAttribute',):
        toks = [sim.objref(x) if rc == 24 else sim.obname(x) for x in vals]
    elif cls == 'EFLROrTextAttribute':
        x = vals[0]
        if isinstance(x, Ref):
            out_rc, toks = 23, [sim.obname(x)]
        else:
            out_rc, toks = 20, ['t' + hx(x)]
    elif cls == 'StatusAttribute':
        toks = ['i%d' % int(x) for x in vals]
    elif cls == 'DTimeAttribute':
        x = vals[0]
        if isinstance(x, (int, float)) and not isinstance(x, bool):
            out_rc, toks = 7, [f64tok(x)]
        else:
            out_rc, toks = 21, [dt_token(x)]
    elif cls == 'DimensionAttribute':
        toks = ['i%d' % int(x) for x in vals]
    elif cls == 'NumericAttribute':
        if 'int_only' in det or rc in (12, 13, 14, 15, 16, 17, 18):
            out_rc = rc or 14
            toks = ['i%d' % int(x) for x in vals]
        else:
            out_rc = rc or 7
            toks = [f64tok(x) for x in vals]
    elif cls == 'TextAttribute':
        toks = ['t' + hx(x) for x in vals]
    elif cls in ('IdentAttribute', 'PropertiesAttribute'):
        toks = ['t' + hx(str.__str__(x.value) if hasattr(x, 'value') else x) for x in vals]
    elif cls == 'Attribute':
        if rc == 24:
            toks = [sim.objref(x) for x in vals]
        elif not vals:
            out_rc, toks = None, []
        elif all(isinstance(x, str) for x in vals):
            out_rc, toks = 20, ['t' + hx(x) for x in vals]
        elif all(isinstance(x, int) and not isinstance(x, bool) for x in vals):
            out_rc, toks = 14, ['i%d' % x for x in vals]
        else:
            out_rc, toks = 7, [f64tok(x) for x in vals]
    if not vals and rc == 0:
        out_rc = None     # nothing to infer a code from, and no value it would apply to
    return count, out_rc, toks


def expected(spec):
    """-> (sim, per logical file dict)"""
    sim = Sim(spec)
    out = []
    for li, lf in enumerate(spec['lfs']):
        E = {'header': (str(lf['fh_sequence_number']).rjust(10), lf['fh_id'].ljust(65), lf['fh_identifier']),
             'objects': {}, 'order': [], 'frames': [], 'noformat': []}
        channel_frames = {}
        for oi, o in enumerate(lf['objects']):
            if o['kind'] == 'frame':
                for r in o['channels']:
                    channel_frames.setdefault((r.lf, r.idx), []).append(oi)
        for oi, o in enumerate(lf['objects']):
            ident = sim.ident[(li, oi)]
            rows = ATTRS[ident['set_type']]
            attrs = {}
            for row in rows:
                label, pyname = row[0], row[1]
                a = o['attrs'].get(pyname)
                if a is None or a['v'] is None:          # never assigned a value (units alone do not make a value)
                    attrs[label] = None
                else:
                    cnt, rc, toks = norm(row, a['v'], sim)
                    attrs[label] = {'count': cnt, 'rc': rc, 'units': a['units'] or '', 'vals': toks}
            # documented write-time defaults
            if o['kind'] == 'origin':
                if attrs['FILE-ID'] is None:
                    attrs['FILE-ID'] = {'count': 1, 'rc': 20, 'units': '', 'vals': ['t' + hx(lf['fh_id'])]}
                if attrs['FIELD-NAME'] is None:
                    attrs['FIELD-NAME'] = {'count': 1, 'rc': 20, 'units': '', 'vals': ['t' + hx('WILDCAT')]}
                if attrs['FILE-SET-NUMBER'] is None:
                    attrs['FILE-SET-NUMBER'] = 'ANY-UVARI'
            if o['kind'] == 'channel':
                in_frame = bool(channel_frames.get((li, oi)))
                dt = o.get('cast_dtype') or o['dtype']
                dim = [o['width']] if o['width'] else [1]
                if in_frame:
                    attrs['REPRESENTATION-CODE'] = {'count': 1, 'rc': 15, 'units': '', 'vals': ['i%d' % DT_RC[dt]]}
                    attrs['DIMENSION'] = {'count': len(dim), 'rc': 18, 'units': '', 'vals': ['i%d' % d for d in dim]}
                    if attrs['ELEMENT-LIMIT'] is None:       # an element limit the user assigned stays as assigned
                        attrs['ELEMENT-LIMIT'] = {'count': len(dim), 'rc': 18, 'units': '', 'vals': ['i%d' % d for d in dim]}
                else:
                    # a channel outside every frame: dimension and element limit default to each other
                    if attrs['ELEMENT-LIMIT'] is None and attrs['DIMENSION'] is not None:
                        attrs['ELEMENT-LIMIT'] = dict(attrs['DIMENSION'])
                    elif attrs['DIMENSION'] is None and attrs['ELEMENT-LIMIT'] is not None:
                        attrs['DIMENSION'] = dict(attrs['ELEMENT-LIMIT'])
                if attrs['LONG-NAME'] is None:
                    attrs['LONG-NAME'] = {'count': 1, 'rc': 20, 'units': '', 'vals': ['t' + hx(o['name'])]}
            if o['kind'] in ('parameter', 'computation'):
                a = o['attrs'].get('values')
                if a is not None and a['v'] is None:
                    a = None              # units only: no values
                if a is not None and isinstance(a['v'], (list, tuple)) and not flat(a['v']) and attrs['DIMENSION'] is None:
                    attrs['DIMENSION'] = 'ANY'       # no values: a dimension is meaningless either way
                if a is not None and flat(a['v'] if isinstance(a['v'], (list, tuple)) else [a['v']]) and attrs['DIMENSION'] is None:
                    v = a['v'] if isinstance(a['v'], (list, tuple)) else [a['v']]
                    shape = list(np.array(v).shape[1:])
                    shape = shape or [1]
                    attrs['DIMENSION'] = {'count': len(shape), 'rc': 18, 'units': '', 'vals': ['i%d' % d for d in shape]}
            if o['kind'] == 'frame':
                chans = [lf['objects'][r.idx] for r in o['channels']]
                first = chans[0]
                w = spec['write']
                n_all = first['data'].shape[0]
                lo = w['from_idx'] or 0
                hi = w['to_idx'] if w['to_idx'] is not None else n_all
                n = hi - lo
                attrs['CHANNELS'] = {'count': len(chans), 'rc': 23, 'units': '', 'vals': [sim.obname(r) for r in o['channels']]}
                if 'index_type' not in o['attrs']:
                    for lab, val in (('SPACING', 1.0), ('INDEX-MIN', 1.0), ('INDEX-MAX', float(n))):
                        if attrs[lab] is None:
                            attrs[lab] = {'count': 1, 'rc': 7, 'units': '', 'vals': [f64tok(val)]}
                else:
                    data = first['data'][lo:hi]
                    iu = (first['attrs'].get('units') or {}).get('v')
                    iu = getattr(iu, 'value', iu) or ''
                    # user-supplied index characteristics without units take the index channel's units
                    for lab in ('INDEX-MIN', 'INDEX-MAX', 'SPACING'):
                        if attrs[lab] is not None and not attrs[lab]['units']:
                            attrs[lab] = dict(attrs[lab], units=iu)
                    if first.get('index_like') == 'uniform':
                        exp = {'INDEX-MIN': float(data.min()), 'INDEX-MAX': float(data.max())}
                        if n > 1:
                            exp['SPACING'] = float(data[1]) - float(data[0])
                        for lab, val in exp.items():
                            if attrs[lab] is None:
                                attrs[lab] = {'count': 1, 'rc': 7, 'units': iu, 'vals': [f64tok(val)]}
                        if n == 1:
                            if attrs['SPACING'] is None:
                                attrs['SPACING'] = 'ANY'
                            attrs['DIRECTION'] = 'ANY'
                    else:
                        for lab in ('INDEX-MIN', 'INDEX-MAX', 'SPACING', 'DIRECTION'):
                            if attrs[lab] is None:
                                attrs[lab] = 'ANY'
                layout = [(DT_SIZE[c.get('cast_dtype') or c['dtype']], c['width'] or 1) for c in chans]
                rows_bits = []
                for i in range(lo, hi):
                    row = []
                    for c in chans:
                        d = c['data']
                        dt = c.get('cast_dtype') or c['dtype']
                        el = d[i] if d.ndim == 2 else d[i:i + 1]
                        el = np.ascontiguousarray(el).astype(dt) if c.get('cast_dtype') else np.ascontiguousarray(el)
                        u = el.view(f'uint{8 * DT_SIZE[dt]}')
                        row.append([int(x) for x in u.reshape(-1)])
                    rows_bits.append(row)
                E['frames'].append({'ident': ident, 'layout': layout, 'rows': rows_bits, 'obj': oi})
            E['objects'][(ident['set_type'], ident['set_name'], ident['origin'], ident['copy'], ident['name'])] = attrs
            E['order'].append((ident['set_type'], ident['set_name'], ident['origin'], ident['copy'], ident['name']))
        for (nfi, payload) in lf['noformat']:
            E['noformat'].append((sim.ident[(li, nfi)], bytes(payload) if isinstance(payload, (bytes, bytearray)) else payload.encode('ascii')))
        E['default_origin'] = sim.lf_default_origin[li]
        out.append(E)
    return sim, out


def split_logical_files(recs):
    """a logical file starts at each FILE-HEADER record"""
    lfs = []
    for r in recs:
        if r['eflr'] and r.get('set_type') == 'FILE-HEADER':
            lfs.append([])
        if not lfs:
            lfs.append([])
        lfs[-1].append(r)
    return lfs


def compare_attrs(label, got, exp):
    """-> problem string or None"""
    if exp == 'ANY':
        return None
    if exp == 'ANY-UVARI':
        if got is None or got['rc'] != 18 or len(got['vals']) != 1:
            return f'{label}: expected a UVARI number, decoded {got}'
        return None
    if exp is None:
        return None if got is None else f'{label}: never assigned but decodes as {got}'
    if got is None:
        return f'{label}: assigned {exp} but decodes as absent'
    if got['count'] != exp['count'] or got['units'] != exp['units'] or got['vals'] != exp['vals'] or \
            (exp['rc'] is not None and got['rc'] != exp['rc']):
        return f'{label}: assigned {exp}, decoded {got}'
    return None
