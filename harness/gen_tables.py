"""Translator: introspect the live dliswriter package (working tree of /repo) and regenerate
lean/Dlismodel/Generated/Tables.lean.  The model uses the standard's constants; Generated/Obligations.lean
proves (decide) that the generated tables equal them, so a source change that alters a table breaks a named
proof obligation at `lake build` time."""
import os
import sys

from harness.common import LEAN, REPO

OUT = os.path.join(LEAN, 'Dlismodel', 'Generated', 'Tables.lean')
OUT_CONVS = os.path.join(LEAN, 'Dlismodel', 'Generated', 'Convs.lean')


def lstr(s):
    return '[' + ', '.join(str(ord(c)) for c in s) + ']'


def lean_list(xs):
    return '[' + ', '.join(xs) + ']'


def introspect():
    sys.path.insert(0, os.path.join(REPO, 'src'))
    import dliswriter  # noqa
    from dliswriter.utils.internal import struct_writer as sw
    from dliswriter.utils.internal.internal_enums import RepresentationCode, EFLRType, IFLRType
    from dliswriter.logical_record import eflr_types
    from dliswriter.logical_record.misc.storage_unit_label import StorageUnitLabel
    from dliswriter.utils.internal.converters import ReprCodeConverter
    from dliswriter.utils.internal import value_checkers
    from dliswriter.logical_record.core.logical_record.segment_attributes import SegmentAttributes
    from dliswriter.logical_record.core.logical_record.logical_record_bytes import LogicalRecordBytes
    from dliswriter.logical_record.iflr_types import FrameData
    from dliswriter.logical_record.iflr_types.no_format_frame_data import NoFormatFrameData
    t = {}
    t['unormOffset'] = sw.UNORM_OFFSET
    t['ulongOffset'] = sw.ULONG_OFFSET
    t['repcodes'] = [(m.name, m.value, (m.converter.format if m.converter else '')) for m in RepresentationCode]
    t['structDict'] = sorted((k.value, v.__name__) for k, v in sw._struct_dict.items())
    t['eflrTypes'] = [(m.name, m.value) for m in EFLRType]
    t['iflrTypes'] = [(FrameData.__name__, FrameData.logical_record_type.value, FrameData.is_eflr),
                      (NoFormatFrameData.__name__, NoFormatFrameData.logical_record_type.value,
                       NoFormatFrameData.is_eflr)]
    t['sul'] = (StorageUnitLabel.dlis_version, StorageUnitLabel.storage_unit_structure,
                StorageUnitLabel.max_record_length_limit)
    t['segWeights'] = list(SegmentAttributes.weights)
    t['padding'] = list(LogicalRecordBytes.padding)
    t['dtypeCodes'] = [(k, v.value) for k, v in ReprCodeConverter.numpy_dtypes_to_repr_codes.items()]
    t['genericTypes'] = sorted((k.__name__, v.value) for k, v in ReprCodeConverter.generic_types.items())
    t['hcPattern'] = value_checkers.HC_STRING_PATTERN.pattern
    # the order of the checks `write` runs before the first byte (Model/Checks.lean follows it): the calls made, in
    # source order, by LogicalFile.check_objects and by the function DLISFile.write times
    from dliswriter.file.file import DLISFile, LogicalFile
    t['checkOrder'] = _calls_in_order(LogicalFile.check_objects)
    t['writeSteps'] = _calls_in_order(DLISFile.write, inner='timed_func')
    from dliswriter.logical_record.core.attribute.subtypes import DTimeAttribute
    t['codeClasses'] = [sorted(c.value for c in ReprCodeConverter.float_codes), sorted(c.value for c in ReprCodeConverter.sint_codes),
                        sorted(c.value for c in ReprCodeConverter.uint_codes), [c.value for c in ReprCodeConverter.int_codes],
                        [c.value for c in ReprCodeConverter.numeric_codes]]
    t['dtimeFormats'] = list(DTimeAttribute.dtime_formats)
    # schema of every set type: (set type, record type, is_eflr, labels in template order)
    sets = []
    for cls in eflr_types.eflr_sets:
        if cls is eflr_types.FileHeaderSet:
            labels = ['SEQUENCE-NUMBER', 'ID']   # hand-written template (checked by the EFLR correspondence)
        else:
            labels = _labels_of(cls)
        sets.append((cls.set_type, cls.logical_record_type.value, bool(cls.is_eflr), labels, cls.__name__))
    t['sets'] = sets
    t['attrs'] = attr_schema()
    t['enums'] = enum_tables()
    t['convs'] = conv_schema()
    return t


def _calls_in_order(fn, inner=None):
    """names of the functions / methods called in the body of `fn` (or of the function `inner` defined in it), in
    source order"""
    import ast
    import inspect
    import textwrap
    tree = ast.parse(textwrap.dedent(inspect.getsource(fn)))
    root = tree.body[0]
    if inner is not None:
        root = next(n for n in ast.walk(root) if isinstance(n, ast.FunctionDef) and n.name == inner)
    calls = []
    for n in ast.walk(root):
        if isinstance(n, ast.Call):
            f = n.func
            name = f.attr if isinstance(f, ast.Attribute) else (f.id if isinstance(f, ast.Name) else '?')
            calls.append((n.lineno, n.col_offset, name))
    return [c[2] for c in sorted(calls)]


def _probe(set_cls):
    from dliswriter.logical_record import eflr_types
    s = set_cls()
    item_cls = set_cls.item_type
    if item_cls is eflr_types.OriginItem:
        return item_cls('X', parent=s, origin_reference=1)
    return item_cls('X', parent=s)


def _labels_of(set_cls):
    """Instantiate one item of the set's item type inside a throw-away set and read its template labels."""
    return [a.label for a in _probe(set_cls).attributes.values()]


def _enum_of(a):
    from dliswriter.utils.internal.validator_enum import ValidatorEnum
    conv = a._converter
    if conv is None or not getattr(conv, '__closure__', None):
        return None
    for cell in conv.__closure__:
        try:
            c = cell.cell_contents
        except ValueError:
            continue
        if isinstance(c, type) and issubclass(c, ValidatorEnum):
            soft = any(isinstance(getattr(x, 'cell_contents', None), bool) for x in conv.__closure__)
            return c
    return None


def attr_schema():
    """per set type: [(label, python name, attribute class, fixed repr code or 0, multivalued, multidimensional,
    units settable, detail)] where detail = enum name / referenced item class / int_only / allow_float flags"""
    from dliswriter.logical_record import eflr_types
    out = []
    for cls in eflr_types.eflr_sets:
        if cls is eflr_types.FileHeaderSet:
            continue
        it = _probe(cls)
        rows = []
        for pyname, a in it.attributes.items():
            rc = a._representation_code
            detail = []
            en = _enum_of(a)
            if en is not None:
                detail.append('enum=' + en.__name__)
            oc = getattr(a, '_object_class', None)
            if oc is not None:
                detail.append('ref=' + oc.set_type if isinstance(oc.set_type, str) else 'ref=*')
            if getattr(a, '_int_only', False):
                detail.append('int_only')
            if getattr(a, '_float_only', False):
                detail.append('float_only')
            if getattr(a, '_allow_float', False):
                detail.append('allow_float')
            rows.append((a.label, pyname, type(a).__name__, 0 if rc is None else int(rc.value), bool(a.multivalued),
                         bool(a.multidimensional), bool(a._units_settable), ';'.join(detail)))
        out.append((cls.set_type, rows))
    return out


def _conv_of(a):
    """Lean term (constructor of Dlis.Conv) naming the converter attached to a live Attribute."""
    from dliswriter.logical_record.core.attribute import subtypes as st
    from dliswriter.utils.internal import value_checkers as vc
    from dliswriter.utils.internal.validator_enum import ValidatorEnum
    conv = a._converter
    b = lambda x: 'true' if x else 'false'

    def cls_term():
        oc = getattr(a, '_object_class', None)
        return 'none' if oc is None or not isinstance(oc.set_type, str) else f'(some "{oc.set_type}")'
    bound = getattr(conv, '__self__', None) is a
    fn = getattr(conv, '__func__', conv)
    if type(a) is st.EFLROrTextAttribute and bound and fn is st.EFLROrTextAttribute._convert_value:
        return f'.eflrOrText {cls_term()}'
    if type(a) is st.EFLRAttribute and bound and fn is st.EFLRAttribute._convert_value:
        return f'.eflr {cls_term()}'
    if type(a) is st.DTimeAttribute and bound and fn is st.DTimeAttribute._convert_value:
        return f'.dtime {b(a._allow_float)}'
    if type(a) in (st.NumericAttribute, st.DimensionAttribute) and bound and fn is st.NumericAttribute._convert_number:
        return f'.numeric {b(a._int_only)}'
    if type(a) is st.StatusAttribute and conv is st.StatusAttribute.convert_status:
        return '.status'
    if type(a) is st.TextAttribute and conv is st.TextAttribute._check_string:
        return '.text'
    if type(a).__name__ in ('Attribute', 'IdentAttribute', 'PropertiesAttribute'):
        if conv is None:
            return '.ident'
        if conv is vc.validate_string:
            return '.validateString'
        if conv is vc.convert_maybe_numeric:
            return '.maybeNumeric'
        code = getattr(conv, '__code__', None)
        if code is not None and conv.__qualname__ == 'ValidatorEnum.make_converter.<locals>.converter':
            cells = dict(zip(code.co_freevars, (c.cell_contents for c in conv.__closure__)))
            c = cells.get('cls')
            if isinstance(c, type) and issubclass(c, ValidatorEnum):
                return f'.enum "{c.__name__}" {b(cells.get("soft"))} {b(cells.get("allow_none"))}'
    return f'.custom "{type(a).__name__}:{getattr(conv, "__qualname__", type(conv).__name__)}"'


def conv_schema():
    """per set type: [(label, converter term, valid representation codes)]"""
    from dliswriter.logical_record import eflr_types
    out = []
    for cls in eflr_types.eflr_sets:
        if cls is eflr_types.FileHeaderSet:
            continue
        it = _probe(cls)
        out.append((cls.set_type, [(a.label, _conv_of(a), sorted(int(rc.value) for rc in a._valid_repr_codes))
                                   for a in it.attributes.values()]))
    return out


def render_convs(t, namespace='Dlis.Generated', header='GENERATED by harness/gen_tables.py from the live dliswriter package. Do not edit.'):
    L = [f'/- {header} -/', 'import Dlismodel.Model.Convert', f'namespace {namespace}', 'open Dlis',
         '/-- per set type: (label, converter attached to the attribute, `_valid_repr_codes`) -/',
         'def convs : List (String × List (String × Conv × List Nat)) := [']
    rows = []
    for st, ats in t['convs']:
        rows.append(f'  ("{st}", [\n' + ',\n'.join(f'    ("{l}", {c}, {v})' for l, c, v in ats) + '])')
    L.append(',\n'.join(rows))
    L.append(']')
    L.append(f'end {namespace}')
    return '\n'.join(L) + '\n'


def enum_tables():
    from dliswriter.utils import enums
    from dliswriter.utils.internal.validator_enum import ValidatorEnum
    out = []
    for name in sorted(dir(enums)):
        c = getattr(enums, name)
        if isinstance(c, type) and issubclass(c, ValidatorEnum) and c is not ValidatorEnum:
            out.append((name, [m.value for m in c]))
    return out


def render(t):
    L = []
    L.append('/- GENERATED by harness/gen_tables.py from the live dliswriter package. Do not edit. -/')
    L.append('namespace Dlis.Generated')
    L.append(f'def unormOffset : Nat := {t["unormOffset"]}')
    L.append(f'def ulongOffset : Nat := {t["ulongOffset"]}')
    L.append('/-- (name, code, struct format) of every RepresentationCode member -/')
    L.append('def repcodes : List (String × Nat × String) := ' +
             lean_list([f'("{n}", {v}, "{f}")' for n, v, f in t['repcodes']]))
    L.append('/-- repcode -> name of the dedicated write_struct_* function -/')
    L.append('def structDict : List (Nat × String) := ' + lean_list([f'({k}, "{v}")' for k, v in t['structDict']]))
    L.append('def eflrTypes : List (String × Nat) := ' + lean_list([f'("{n}", {v})' for n, v in t['eflrTypes']]))
    L.append('def iflrTypes : List (String × Nat × Bool) := ' +
             lean_list([f'("{n}", {v}, {"true" if e else "false"})' for n, v, e in t['iflrTypes']]))
    L.append(f'def sulVersion : List Nat := {lstr(t["sul"][0])}')
    L.append(f'def sulStructure : List Nat := {lstr(t["sul"][1])}')
    L.append(f'def sulMaxRecordLength : Nat := {t["sul"][2]}')
    L.append('def segWeights : List Nat := ' + lean_list([str(x) for x in t['segWeights']]))
    L.append('def paddingByte : List Nat := ' + lean_list([str(x) for x in t['padding']]))
    L.append('def dtypeCodes : List (String × Nat) := ' + lean_list([f'("{n}", {v})' for n, v in t['dtypeCodes']]))
    L.append('def genericTypes : List (String × Nat) := ' + lean_list([f'("{n}", {v})' for n, v in t['genericTypes']]))
    L.append(f'def hcPattern : String := "{t["hcPattern"]}"')
    L.append('def checkOrder : List String := ' + lean_list(['"' + x + '"' for x in t['checkOrder']]))
    L.append('def writeSteps : List String := ' + lean_list(['"' + x + '"' for x in t['writeSteps']]))
    L.append('/-- ReprCodeConverter.float_codes / sint_codes / uint_codes (sorted), int_codes, numeric_codes (in order) -/')
    L.append('def codeClasses : List (List Nat) := ' + lean_list([lean_list([str(x) for x in c]) for c in t['codeClasses']]))
    L.append('def dtimeFormats : List String := ' + lean_list(['"' + f + '"' for f in t['dtimeFormats']]))
    L.append('/-- (set type, logical record type, explicit flag, template labels) -/')
    L.append('def sets : List (List Nat × Nat × Bool × List (List Nat)) := [')
    rows = []
    for st, ty, e, labels, _ in t['sets']:
        rows.append(f'  ({lstr(st)}, {ty}, {"true" if e else "false"}, ' + lean_list([lstr(l) for l in labels]) + ')')
    L.append(',\n'.join(rows))
    L.append(']')
    L.append('/-- per set type: (label, python name, attribute class, fixed repcode or 0, multivalued, multidimensional, units settable, detail) -/')
    L.append('def attrs : List (String × List (String × String × String × Nat × Bool × Bool × Bool × String)) := [')
    rows = []
    b = lambda x: 'true' if x else 'false'
    for st, ats in t['attrs']:
        rows.append(f'  ("{st}", [' + ', '.join(
            f'("{l}", "{p}", "{c}", {rc}, {b(mv)}, {b(md)}, {b(us)}, "{d}")' for l, p, c, rc, mv, md, us, d in ats) + '])')
    L.append(',\n'.join(rows))
    L.append(']')
    L.append('/-- enumerations of utils/enums.py: (class name, member values) -/')
    L.append('def enums : List (String × List String) := [')
    L.append(',\n'.join(f'  ("{n}", [' + ', '.join('"' + v.replace('\\', '\\\\').replace('"', '\\"') + '"' for v in vs) + '])' for n, vs in t['enums']))
    L.append(']')
    L.append('end Dlis.Generated')
    return '\n'.join(L) + '\n'


def _write_if_changed(path, txt):
    old = open(path).read() if os.path.exists(path) else None
    if old != txt:
        tmp = path + f'.{os.getpid()}.tmp'
        with open(tmp, 'w') as f:
            f.write(txt)
        os.replace(tmp, path)
        return True
    return False


def generate():
    t = introspect()
    a = _write_if_changed(OUT, render(t))
    b = _write_if_changed(OUT_CONVS, render_convs(t))
    return a or b


if __name__ == '__main__':
    print('changed' if generate() else 'unchanged')
