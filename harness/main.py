import importlib
import os
import sys
import json


def main(argv):
    if not argv:
        print("usage: ./check <Cnn> [--tier quick|thorough] [--replay path] | --setup")
        return 2
    if argv[0] == '--setup':
        from harness.common import build
        res = build([])
        if not res.ok:
            print(res.log[-4000:])
            return 1
        print(f"setup ok ({res.wall:.1f}s)")
        return 0
    prop = argv[0].upper()
    tier = os.environ.get('VERIF_TIER', 'quick')
    replay = None
    i = 1
    while i < len(argv):
        if argv[i] == '--tier':
            tier = argv[i + 1]
            i += 2
        elif argv[i] == '--replay':
            replay = argv[i + 1]
            i += 2
        else:
            i += 1
    os.environ['VERIF_TIER_EFFECTIVE'] = tier
    mod = importlib.import_module(f'harness.props.{prop.lower()}')
    if replay:
        if hasattr(mod, 'replay'):
            return mod.replay(json.load(open(replay)))
        print(json.dumps(json.load(open(replay)), indent=1)[:4000])
        return mod.run(tier)
    return mod.run(tier)


if __name__ == '__main__':
    try:
        sys.exit(main(sys.argv[1:]))
    except SystemExit:
        raise
    except BaseException as exc:  # machinery failure is exit 2, never a VIOLATION
        import traceback
        traceback.print_exc(file=sys.stdout)
        print(f"check: internal error {type(exc).__name__}: {exc}")
        sys.exit(2)
