"""C11 — all data sources equivalent; the row window selects exactly its rows."""
import shutil
import tempfile

import numpy as np

from harness.common import Check, Model, build, finish, rng
from harness.impl import call
from harness import filegen
from harness.impl import call

THEOREMS = ['Dlis.C11.sources_agree', 'Dlis.C11.lookup_skip', 'Dlis.C11.lookup_swap', 'Dlis.C11.window_is_slice', 'Dlis.C11.window_rows_exact',
            'Dlis.C11.hdf5_path_normalised', 'Dlis.C03.frame_data_roundtrip']


def sliced(spec, lo, hi):
    """the same specification with every channel's data pre-sliced to rows [lo, hi), held as plain native arrays (the
    reference does not depend on how a source stores its numbers)"""
    s2 = dict(spec)
    s2['lfs'] = []
    for lf in spec['lfs']:
        l2 = dict(lf)
        l2['objects'] = []
        for o in lf['objects']:
            o2 = dict(o)
            if o['kind'] == 'channel':
                o2['data'] = o['data'][lo:hi].copy()
                o2['layout'] = 'plain'
            l2['objects'].append(o2)
        s2['lfs'].append(l2)
    s2['write'] = dict(spec['write'], from_idx=0, to_idx=None)
    return s2


def run(tier):
    chk = Check('C11', tier)
    chk.rule = ('single-logical-file specifications with 1..2 frames (1..5 channels, all dtypes, scalar/2-D, both byte '
                'orders) x 4 source kinds (inline arrays, dict, structured array with permuted + extra fields, HDF5 file '
                'with/without leading slash and extra datasets) x EVERY window 0 <= from < to <= rows (and open-ended) x '
                'input chunk sizes 1,2,None; reference = dict source with pre-sliced arrays. Distinct by '
                '(specification, source, window, chunk).')
    bres = build(THEOREMS)
    R = rng('C11', 'sources')
    tmp = tempfile.mkdtemp(prefix='verif_c11_')
    n_specs = 6 if tier == 'quick' else 80
    try:
        for si in range(n_specs):
            rows = R.choice([2, 3, 4] if tier == 'quick' else [2, 4, 6, 8])
            exact_fields = (si % 2 == 1)
            spec = filegen.gen_spec(R, n_lf=1, small=True, rows=rows, vrl=R.choice([8192, 64, 128]), with_index=False,
                                    fastpath=exact_fields)
            if exact_fields:
                # the structured array holds exactly the frame's fields under the channels' own names, without casts:
                # only the field ORDER differs from the frame's channel order (and sometimes not even that)
                for lf in spec['lfs']:
                    for o in lf['objects']:
                        if o['kind'] == 'channel':
                            o['cast_dtype'] = None
            for lf in spec['lfs']:
                for o in lf['objects']:
                    if o['kind'] == 'channel':
                        o['layout'] = R.choice(['plain', 'bigendian', 'strided'])
                        if o.get('dataset_name') and o['dataset_name'].startswith('/'):
                            o['dataset_name'] = o['dataset_name'].strip('/').replace('/', '_')
            spec['write'].update({'data_kind': 'dict', 'input_chunk_size': None, 'output_chunk_size': 2**20})
            windows = [(a, b) for a in range(rows) for b in range(a + 1, rows + 1)] + [(a, None) for a in range(rows)]
            for (lo, hi) in windows:
                ref = filegen.write(sliced(spec, lo, hi if hi is not None else rows), tmp, fname='ref.dlis')
                if ref['status'] != 'ok':
                    chk.count('reference-write-failed')
                    continue
                for kind in ('inline', 'dict', 'struct', 'hdf5'):
                    for ic in ((None, 1, 2) if (lo, hi) in ((0, None), (1, None), (0, rows)) else (None,)):
                        s2 = dict(spec)
                        s2['write'] = dict(spec['write'], data_kind=kind, from_idx=lo, to_idx=hi, input_chunk_size=ic,
                                           source_opts={'perm_seed': R.randrange(1000),
                                                        'extra': 0 if exact_fields else R.choice([0, 2]),
                                                        'exact': exact_fields and R.random() < 0.3, 'tmpdir': tmp})
                        res = filegen.write(s2, tmp, fname='w.dlis')
                        case = {'spec_index': si, 'spec': filegen.describe(spec), 'source': kind, 'from_idx': lo,
                                'to_idx': hi, 'input_chunk_size': ic, 'rows': rows}
                        chk.case('source-window', nontrivial_key=(si, kind, lo, hi, ic),
                                 sample={'source': kind, 'window': [lo, hi], 'rows': rows, 'chunk': ic,
                                         'status': res['status']})
                        chk.count(f'{kind}:{res["status"]}')
                        if res['status'] != 'ok':
                            chk.fail(f'source:{kind}:rejected', case, f'write raised {res["error"]} ({res["stage"]})')
                        elif res['data'] != ref['data']:
                            key = 'window' if (lo, hi) not in ((0, None), (0, rows)) else 'equivalence'
                            chk.fail(f'source:{kind}:{key}-differs', case,
                                     f'file differs from the dict source with pre-sliced arrays rows [{lo},{hi})')
        # an indexed frame whose index channel is written under a narrower type than its data (float64 values that are
        # not singles, cast to float32): the index attributes of the frame are derived from the data as handed in, whatever
        # the kind of source
        import numpy as _np
        for si in range(6 if tier == 'quick' else 40):
            rows = R.choice([3, 4, 6])
            spec = filegen.gen_spec(R, n_lf=1, small=True, rows=rows, vrl=8192, with_index='uniform')
            done = False
            for lf in spec['lfs']:
                for o in lf['objects']:
                    if o['kind'] == 'channel':
                        o['layout'] = 'plain'
                        if o.get('dataset_name') and o['dataset_name'].startswith('/'):
                            o['dataset_name'] = o['dataset_name'].strip('/').replace('/', '_')
                        if o.get('index_like'):
                            start, step = R.choice([(1500.05, 0.1524), (0.1, 0.1), (2499.9, -0.3048)])
                            o['dtype'], o['width'] = 'float64', None
                            o['data'] = _np.array([start + k * step for k in range(rows)], dtype='float64')
                            o['cast_dtype'] = 'float32'
                            done = True
            if not done:
                continue
            spec['hc'] = False
            spec['write'].update({'data_kind': 'dict', 'input_chunk_size': None, 'output_chunk_size': 2**20, 'from_idx': 0, 'to_idx': None})
            for (lo, hi) in ((0, None), (1, None), (0, rows - 1)):
                ref = filegen.write(sliced(spec, lo, hi if hi is not None else rows), tmp, fname='ref.dlis')
                if ref['status'] != 'ok':
                    chk.count(f'index-cast:reference-write-failed:{ref["error"]}')
                    continue
                for kind in ('inline', 'dict', 'struct', 'hdf5'):
                    s2 = dict(spec)
                    s2['write'] = dict(spec['write'], data_kind=kind, from_idx=lo, to_idx=hi,
                                       source_opts={'perm_seed': R.randrange(1000), 'extra': R.choice([0, 2]), 'exact': False, 'tmpdir': tmp})
                    res = filegen.write(s2, tmp, fname='w.dlis')
                    case = {'spec_index': si, 'spec': filegen.describe(spec), 'source': kind, 'from_idx': lo, 'to_idx': hi,
                            'index_channel': 'float64 data, cast_dtype float32'}
                    chk.case('index-cast', nontrivial_key=('ic', si, kind, lo, hi), sample={'source': kind, 'window': [lo, hi], 'status': res['status']})
                    chk.count(f'index-cast:{kind}:{res["status"]}')
                    if res['status'] != 'ok':
                        chk.fail(f'source:{kind}:rejected', case, f'write raised {res["error"]} ({res["stage"]})')
                    elif res['data'] != ref['data']:
                        chk.fail(f'source:{kind}:index-cast-differs', case, 'file differs from the dict source with pre-sliced arrays')
        # data set names that cross the channel names: channel A is fed from the data set called 'B' and channel B from the
        # one called 'A' (same dtype, so that a structured array with fields A, B has exactly the frame's row type)
        from dliswriter import DLISFile as _DF
        for si in range(8 if tier == 'quick' else 60):
            dt = R.choice(['float64', 'float32', 'int16', 'uint8'])
            n_ = R.choice([2, 3, 5])
            A_ = _np.arange(n_).astype(dt) + 1
            B_ = (_np.arange(n_) * 10 + 50).astype(dt)
            third = R.random() < 0.5

            def make(inline):
                df = _DF(set_identifier='CROSS')
                lf = df.add_logical_file()
                lf.add_origin('O', file_set_number=1, creation_time='2020/01/01 00:00:00')
                a = lf.add_channel('A', dataset_name='B', **({'data': B_} if inline else {}))
                b = lf.add_channel('B', dataset_name='A', **({'data': A_} if inline else {}))
                chans = [a, b]
                if third:
                    chans.append(lf.add_channel('C', **({'data': A_ * 2} if inline else {})))
                lf.add_frame('F', channels=chans)
                return df
            pth = f'{tmp}/cross.dlis'
            call(make(True).write, pth, output_chunk_size=2**20)
            ref = open(pth, 'rb').read()
            fields = [('A', dt), ('B', dt)] + ([('C', dt)] if third else [])
            for kind in ('dict', 'struct-same-order', 'struct-other-order'):
                if kind == 'dict':
                    src = {'A': A_, 'B': B_, 'C': A_ * 2}
                else:
                    fl = fields if kind == 'struct-same-order' else list(reversed(fields))
                    src = _np.zeros(n_, dtype=fl)
                    src['A'], src['B'] = A_, B_
                    if third:
                        src['C'] = A_ * 2
                ic = R.choice([None, 1, 2])
                st, err = call(make(False).write, pth, data=src, output_chunk_size=2**20, input_chunk_size=ic)
                case = {'channels': {'A': "dataset_name='B'", 'B': "dataset_name='A'"}, 'dtype': dt, 'rows': n_, 'source': kind,
                        'input_chunk_size': ic, 'third_channel': third}
                chk.case('crossed-dataset-names', nontrivial_key=('x', si, kind), sample=dict(case, status=st))
                if st != 'ok':
                    chk.fail(f'source:{kind}:rejected', case, f'write raised {err}')
                elif open(pth, 'rb').read() != ref:
                    chk.fail(f'source:{kind}:crossed-names-differ', case, 'file differs from the one written from inline data: the '
                                                                         'channels were not fed from the data sets they name')
        # a declared cast that narrows integers, with values outside the target's range: whatever such a cast makes of
        # them (numpy wraps), it makes the same of them for every kind of source
        for si in range(4 if tier == 'quick' else 30):
            rows = R.choice([3, 5])
            spec = filegen.gen_spec(R, n_lf=1, small=True, rows=rows, vrl=8192, with_index=False, kinds=set())
            done = 0
            for lf in spec['lfs']:
                for o in lf['objects']:
                    if o['kind'] == 'channel':
                        o['layout'] = 'plain'
                        if o.get('dataset_name') and o['dataset_name'].startswith('/'):
                            o['dataset_name'] = o['dataset_name'].strip('/').replace('/', '_')
                        src_dt, tgt = R.choice([('int32', 'uint16'), ('int32', 'int16'), ('int32', 'uint8'), ('uint32', 'int8'),
                                                ('int16', 'uint8'), ('uint16', 'int16')])
                        shape = o['data'].shape
                        pool = [70000, -1, -50000, 65536, 40000, 300, -129, 255, 256, 2 ** 31 - 1, 5, 0]
                        info = _np.iinfo(src_dt)
                        vals = [min(max(R.choice(pool), int(info.min)), int(info.max)) for _ in range(int(_np.prod(shape)))]
                        o['dtype'] = src_dt
                        o['data'] = _np.array(vals, dtype=src_dt).reshape(shape)
                        o['cast_dtype'] = tgt
                        o['index_like'] = None
                        done += 1
            if not done:
                continue
            spec['hc'] = False
            spec['write'].update({'data_kind': 'dict', 'input_chunk_size': None, 'output_chunk_size': 2**20, 'from_idx': 0, 'to_idx': None})
            ref = filegen.write(spec, tmp, fname='ref.dlis')
            if ref['status'] != 'ok':
                chk.count(f'narrowing-cast:reference-write-failed:{ref["error"]}')
                continue
            for kind in ('inline', 'struct', 'hdf5'):
                for ic in (None, 2):
                    s2 = dict(spec)
                    s2['write'] = dict(spec['write'], data_kind=kind, input_chunk_size=ic,
                                       source_opts={'perm_seed': R.randrange(1000), 'extra': R.choice([0, 2]), 'exact': False, 'tmpdir': tmp})
                    res = filegen.write(s2, tmp, fname='w.dlis')
                    case = {'spec_index': si, 'spec': filegen.describe(spec), 'source': kind, 'input_chunk_size': ic,
                            'casts': 'integers narrowed, values outside the target range'}
                    chk.case('narrowing-cast', nontrivial_key=('nc', si, kind, ic), sample={'source': kind, 'status': res['status']})
                    chk.count(f'narrowing-cast:{kind}:{res["status"]}')
                    if res['status'] != 'ok':
                        chk.fail(f'source:{kind}:rejected', case, f'write raised {res["error"]} ({res["stage"]})')
                    elif res['data'] != ref['data']:
                        chk.fail(f'source:{kind}:narrowing-cast-differs', case, 'file differs from the one written from the dict source')
        # an EMPTY data set name is a name like any other: the channel is fed from the data set called '' of a dict (a
        # structured array or HDF5 file cannot hold one), also when the dict has a data set named like the channel
        for si in range(6 if tier == 'quick' else 40):
            dt = R.choice(['float64', 'int16'])
            n_ = R.choice([2, 4])
            own = (_np.arange(n_) + 1).astype(dt)
            look = (_np.arange(n_) * 7 + 100).astype(dt)

            def make2(inline):
                df = _DF(set_identifier='EMPTY')
                lf = df.add_logical_file()
                lf.add_origin('O', file_set_number=1, creation_time='2020/01/01 00:00:00')
                a = lf.add_channel('RPM', dataset_name='', **({'data': own} if inline else {}))
                b = lf.add_channel('X', **({'data': look} if inline else {}))
                lf.add_frame('F', channels=[a, b])
                return df
            pth = f'{tmp}/empty.dlis'
            s0, e0 = call(make2(True).write, pth, output_chunk_size=2**20)
            if s0 != 'ok':
                chk.count(f'empty-dataset-name:inline-refused:{e0}')
                continue
            ref = open(pth, 'rb').read()
            for extra in (False, True):
                src = {'': own, 'X': look}
                if extra:
                    src['RPM'] = look
                st, err = call(make2(False).write, pth, data=src, output_chunk_size=2**20, input_chunk_size=R.choice([None, 1]))
                case = {'channel': "RPM with dataset_name=''", 'dict_keys': sorted(src), 'dtype': dt, 'rows': n_}
                chk.case('empty-dataset-name', nontrivial_key=('ed', si, extra), sample=dict(case, status=st))
                if st != 'ok':
                    chk.fail('source:dict:rejected', case, f'write raised {err}; the same channels with inline data are written')
                elif open(pth, 'rb').read() != ref:
                    chk.fail('source:dict:empty-name-differs', case, 'file differs from the one written from inline data')
        # one DLISFile written several times, each time from another kind of source holding OTHER values (same names,
        # shapes and dtypes): every file must equal the one a fresh specification writes from that data as a dict
        import numpy as np
        import pickle
        pass
        for si in range(12 if tier == 'quick' else 120):
            rows = R.choice([2, 3, 5])
            spec = filegen.gen_spec(R, n_lf=1, small=True, rows=rows, vrl=R.choice([8192, 128]), with_index=False)
            for lf in spec['lfs']:
                for o in lf['objects']:
                    if o['kind'] == 'channel':
                        o['layout'] = 'plain'
                        o['cast_dtype'] = None
                        if o.get('dataset_name') and o['dataset_name'].startswith('/'):
                            o['dataset_name'] = o['dataset_name'].strip('/').replace('/', '_')
            inline_first = (si % 3 == 0)      # channels created with data; what write() is handed then takes precedence
            spec['write'].update({'data_kind': 'inline' if inline_first else 'dict', 'input_chunk_size': None,
                                  'output_chunk_size': 2**20, 'from_idx': 0, 'to_idx': None})
            spec['object_routes'] = False
            st0, b = call(filegen.build, spec)
            if st0 != 'ok':
                continue
            spec['write']['data_kind'] = 'dict'
            names = {}
            for (li, oi, arr) in b.arrays:
                names[(li, oi)] = b.handles[li][oi].dataset_name
            for wn, kind in enumerate([R.choice(['dict'] if inline_first else ['dict', 'struct', 'hdf5']) for _ in range(3)]):
                cur = pickle.loads(pickle.dumps(spec))
                datasets = {}
                for (li, oi), key in names.items():
                    o = cur['lfs'][li]['objects'][oi]
                    o['data'] = filegen.gen_data(R, o['dtype'], o['width'], rows, None)
                    datasets[key] = o['data']
                ref = filegen.write(cur, tmp, fname='ref2.dlis')      # fresh object, dict source
                if ref['status'] != 'ok':
                    chk.count('reference-write-failed')
                    break
                src = datasets if kind == 'dict' else filegen.make_source(
                    kind, datasets, {'perm_seed': R.randrange(1000), 'extra': R.choice([0, 2]), 'tmpdir': tmp, 'h5name': 'seq.h5'})
                st, err = call(b.df.write, f'{tmp}/seq.dlis', data=src, output_chunk_size=2**20)
                case = {'spec_index': si, 'spec': filegen.describe(cur), 'write_number': wn + 1, 'source': kind,
                        'same_DLISFile_object': True, 'channels_created_with_data': inline_first}
                chk.case('successive-sources', nontrivial_key=('seq', si, wn), sample={'write': wn + 1, 'source': kind, 'status': st})
                chk.count(f'successive:{kind}:{st}')
                if st != 'ok':
                    chk.fail(f'successive:{kind}:rejected', case, f'write #{wn + 1} of the same DLISFile raised {err}')
                    break
                if open(f'{tmp}/seq.dlis', 'rb').read() != ref['data']:
                    chk.fail(f'successive:{kind}:differs', case, f'write #{wn + 1} (source {kind}) differs from a fresh '
                                                                'specification written from the same data')
                    break
        # ONE structured array (exactly the frame's fields: the no-copy path) serving several writes with different
        # windows and chunk sizes: every file must equal the one written from pre-sliced copies taken beforehand
        for si in range(8 if tier == 'quick' else 80):
            rows = 6
            spec = filegen.gen_spec(R, n_lf=1, small=True, rows=rows, vrl=8192, with_index=False, fastpath=True)
            for lf in spec['lfs']:
                for o in lf['objects']:
                    if o['kind'] == 'channel':
                        o['cast_dtype'] = None
                        o['layout'] = 'plain'
            spec['write'].update({'data_kind': 'dict', 'input_chunk_size': None, 'output_chunk_size': 2**20, 'from_idx': 0,
                                  'to_idx': None})
            spec['object_routes'] = False
            windows = [(0, None), (2, 5), (0, 3), (1, None), (0, None)]
            refs = {}
            for (lo, hi) in set(windows):
                ref = filegen.write(sliced(spec, lo, hi if hi is not None else rows), tmp, fname='ref3.dlis')
                refs[(lo, hi)] = ref['data'] if ref['status'] == 'ok' else None
            st0, b0 = call(filegen.build, spec)
            if st0 != 'ok' or any(v is None for v in refs.values()):
                continue
            src = filegen.make_source('struct', {k: v.copy() for k, v in b0.data.items()}, {'exact': True, 'tmpdir': tmp})
            for wn, (lo, hi) in enumerate(windows):
                stb, b = call(filegen.build, spec)
                if stb != 'ok':
                    break
                ic = R.choice([None, 1, 2, 4])
                kw = dict(data=src, output_chunk_size=2**20, input_chunk_size=ic, from_idx=lo)
                if hi is not None:
                    kw['to_idx'] = hi
                st, err = call(b.df.write, f'{tmp}/reuse.dlis', **kw)
                case = {'spec_index': si, 'spec': filegen.describe(spec), 'write_number': wn + 1, 'window': [lo, hi],
                        'input_chunk_size': ic, 'same_structured_array_object_for_all_writes': True}
                chk.case('reused-source', nontrivial_key=('reuse', si, wn), sample={'write': wn + 1, 'window': [lo, hi], 'status': st})
                if st != 'ok':
                    chk.fail('reused-source:rejected', case, f'write raised {err}')
                    break
                if open(f'{tmp}/reuse.dlis', 'rb').read() != refs[(lo, hi)]:
                    chk.fail('reused-source:differs', case, f'write #{wn + 1} from the structured array used before differs from '
                                                            f'the file of the pre-sliced rows [{lo},{hi})')
                    break
    finally:
        shutil.rmtree(tmp, ignore_errors=True)
    return finish(chk, bres, THEOREMS,
                  partial_note='numpy/h5py slicing and field access are outside the model; the harness compares whole files '
                               'byte for byte against the pre-sliced dict source.')
