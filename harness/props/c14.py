"""C14 — output depends only on the current specification, not on process history."""
import os
import pickle
import shutil
import subprocess
import sys
import tempfile

import numpy as np

from harness.common import Check, Model, build, finish, rng, VERIF, hexs
from harness import filegen, eflr
from harness.impl import call, sw, RC
from dliswriter import DLISFile as DLISFileCls

THEOREMS = ['Dlis.C14.history_independent', 'Dlis.C14.cachedWrite_transparent', 'Dlis.C14.pyEq_eq',
            'Dlis.C14.evict_coherent', 'Dlis.C14.signed_zero_collides', 'Dlis.C14.types_never_collide',
            'Dlis.C14.derived_dimension_history_independent', 'Dlis.C14.assigned_dimension_survives',
            'Dlis.C14.derived_index_attributes_history_independent',
            'Dlis.C17.hc_restored']


def fresh_write(spec, tmp, name):
    p = os.path.join(tmp, name + '.pickle')
    out = os.path.join(tmp, name + '.dlis')
    with open(p, 'wb') as f:
        pickle.dump(spec, f)
    env = dict(os.environ, WELL_ID_DLISWRITER_VERIF='1', PYTHONPATH=VERIF)
    r = subprocess.run([sys.executable, '-m', 'harness.fresh', p, out], cwd=VERIF, env=env, stdout=subprocess.PIPE,
                       stderr=subprocess.DEVNULL, timeout=300)
    st = r.stdout.decode().strip()
    if st == 'ok':
        return 'ok', open(out, 'rb').read()
    return 'err', st


POOL = [0.0, -0.0, 0, 1, 1.0, True, False, 2, 2.0, -1, 255, 256, 65535, 1e300, float('inf'), float('nan'), 'A', 'a', '1',
        '1.0', 'True', '', 'LONG' * 40, np.float32(0.0), np.float32(-0.0), np.float32(1.0), np.float64(1.0), np.int32(1),
        np.uint8(1)]
CODES = [RC.FDOUBL, RC.FSINGL, RC.USHORT, RC.UNORM, RC.SLONG, RC.UVARI, RC.IDENT, RC.ASCII, RC.STATUS, RC.SSHORT]


def run(tier):
    chk = Check('C14', tier)
    chk.rule = ('(a) histories of 20..200 write_struct calls over a pool of colliding keys (0.0/-0.0, 1/1.0/True, numpy '
                'scalars, strings) then a target call, compared with the stateless Lean encoder; (b) target specification '
                'written after 1..4 other specifications (sharing names / values) were built and written in the same '
                'process, and written twice, vs a fresh subprocess writing the target alone; (c) mutation after a write '
                '(rename, origin reference) then rewrite vs a fresh build of the mutated specification.')
    bres = build(THEOREMS)
    model = Model()
    R = rng('C14', 'hist')
    tmp = tempfile.mkdtemp(prefix='verif_c14_')
    try:
        # (a) write_struct histories
        reqs, metas = [], []
        for i in range(300 if tier == 'quick' else 3000):
            hist = [(R.choice(CODES), R.choice(POOL)) for _ in range(R.choice([20, 60, 200]))]
            for rc, v in hist:
                call(sw.write_struct, rc, v)
            rc, v = R.choice(hist) if R.random() < 0.7 else (R.choice(CODES), R.choice(POOL))
            st, out = call(sw.write_struct, rc, v)
            try:
                tok = eflr.aval_token(v)
            except eflr.Unmodelled:
                continue
            reqs.append(f'val {rc.value} {tok}')
            metas.append(({'code': rc.name, 'value': repr(v), 'history_length': len(hist)}, st, out))
            chk.case('write_struct-histories', nontrivial_key=(rc.name, repr(v), i), sample={'code': rc.name, 'value': repr(v)})
        if bres.ok:
            for (case, st, out), rep in zip(metas, model.ask(reqs)):
                if rep == 'err unmodelled':
                    chk.count('unmodelled')
                    continue
                irep = ('ok ' + hexs(out)) if st == 'ok' else 'err'
                mrep = rep if rep.startswith('ok') else 'err'
                if irep != mrep:
                    # the stateless model is what a fresh process computes: a difference is a history effect
                    chk.fail('cache:history-dependent-encoding', case, f'after the history write_struct returns {irep}, a fresh '
                                                                        f'encoder {mrep}')
        # (b) files
        n = 25 if tier == 'quick' else 150
        for i in range(n):
            target = filegen.gen_spec(R, small=(i % 2 == 0))
            target['write'].update({'data_kind': 'inline', 'from_idx': 0, 'to_idx': None})
            stf, fresh = fresh_write(target, tmp, 'fresh')
            for k in range(R.choice([1, 2, 4])):
                noise = filegen.gen_spec(R, small=True, hc=(R.random() < 0.2))
                filegen.write(noise, tmp, fname='noise.dlis')
                if R.random() < 0.4:
                    # a build in high-compatibility mode that is refused inside the context (the exception leaves it)
                    from dliswriter import high_compatibility_mode

                    def refused():
                        with high_compatibility_mode():
                            DLISFileCls(set_identifier='not allowed in the mode')
                    call(refused)
            r1 = filegen.write(target, tmp, fname='t1.dlis')
            case = {'index': i, 'spec': filegen.describe(target)}
            chk.case('after-other-files', nontrivial_key=('b', i), sample={'index': i, 'status': r1['status'], 'fresh': stf})
            chk.count(f'files:{r1["status"]}:{stf}')
            if (r1['status'] == 'ok') != (stf == 'ok'):
                chk.fail('history:writability-differs', case, f'in-process after other files: {r1["status"]} {r1["error"]}; fresh process: {stf} {fresh if stf != "ok" else ""}')
            elif stf == 'ok' and r1['data'] != fresh:
                chk.fail('history:bytes-differ-after-other-files', case, 'bytes differ from a fresh-process write of the same specification')
            # the same DLISFile written again
            if r1['status'] == 'ok':
                b = filegen.build(target)
                kw = dict(input_chunk_size=target['write']['input_chunk_size'], output_chunk_size=2**20)
                p = os.path.join(tmp, 'again.dlis')
                s1, e1 = call(b.df.write, p, **kw)
                d1 = open(p, 'rb').read() if s1 == 'ok' else None
                s2, e2 = call(b.df.write, p, **kw)
                d2 = open(p, 'rb').read() if s2 == 'ok' else None
                chk.case('write-twice', nontrivial_key=('twice', i))
                if s2 != 'ok':
                    chk.fail('rewrite:second-write-raises', case, f'writing the same DLISFile a second time raises {e2}')
                elif d1 != d2:
                    chk.fail('rewrite:second-write-differs', case, 'the second write of the same DLISFile gives different bytes')
        # (b1) the same specification in the other mode first: what high-compatibility mode refuses (or accepts) does not
        # depend on the names, units and labels having been seen before outside the mode, nor the other way round
        for i in range(16 if tier == 'quick' else 120):
            target = filegen.gen_spec(R, small=True, hc=(i % 4 >= 2))
            target['write'].update({'data_kind': 'inline', 'from_idx': 0, 'to_idx': None})
            target['hc'] = (i % 4 != 1)
            if i % 4 == 2:
                # compliant throughout but for ONE kind of thing, which the mode must refuse however often it was seen
                what = R.choice(['object-names', 'object-names', 'channel-units'])
                for lf in target['lfs']:
                    for o in lf['objects']:
                        if what == 'object-names' and o['kind'] != 'origin' and R.random() < 0.6:
                            o['name'] = o['name'][:200] + R.choice([' x', '.a', '#1', 'lower'])
                        if what == 'channel-units' and o['kind'] == 'channel':
                            o['attrs']['units'] = {'v': R.choice(['not-a-unit', 'furlong', 'M']), 'units': None, 'route': 'plain'}
            other = pickle.loads(pickle.dumps(target))
            other['hc'] = not target['hc']
            stf, fresh = fresh_write(target, tmp, 'fresh')
            r0 = filegen.write(other, tmp, fname='other-mode.dlis')
            r1 = filegen.write(target, tmp, fname='t1.dlis')
            case = {'index': i, 'spec': filegen.describe(target), 'high_compat': target['hc'],
                    'history': f'the same specification built and written with high-compatibility mode '
                               f'{"on" if other["hc"] else "off"} first ({r0["status"]})'}
            chk.case('after-the-other-mode', nontrivial_key=('b1', i), sample={'index': i, 'hc': target['hc'], 'status': r1['status'], 'fresh': stf})
            chk.count(f'modes:{"hc" if target["hc"] else "plain"}:{r1["status"]}:{stf}')
            if (r1['status'] == 'ok') != (stf == 'ok'):
                chk.fail('history:writability-differs-after-other-mode', case,
                         f'in-process: {r1["status"]} {r1["error"]}; fresh process: {stf} {fresh if stf != "ok" else ""}')
            elif stf == 'ok' and r1['data'] != fresh:
                chk.fail('history:bytes-differ-after-other-mode', case, 'bytes differ from a fresh-process write of the same specification')
        # (b2) data handed to one write must not be remembered for the next: a later write without that data, or from
        # another kind of source, behaves as it does on a fresh specification
        for i in range(20 if tier == 'quick' else 200):
            spec = filegen.gen_spec(R, n_lf=1, small=True, with_index=False, rows=R.choice([2, 3]))
            for lf in spec['lfs']:
                for o in lf['objects']:
                    if o['kind'] == 'channel':
                        o['cast_dtype'] = None
                        if o.get('dataset_name') and o['dataset_name'].startswith('/'):
                            o['dataset_name'] = o['dataset_name'].strip('/').replace('/', '_')
            spec['write'].update({'data_kind': 'dict', 'from_idx': 0, 'to_idx': None, 'input_chunk_size': None})
            spec['object_routes'] = False
            st0, b = call(filegen.build, spec)
            if st0 != 'ok':
                continue
            p = os.path.join(tmp, 'md.dlis')
            s1, e1 = call(b.df.write, p, data=dict(b.data), output_chunk_size=2**20)
            if s1 != 'ok':
                continue
            first = open(p, 'rb').read()
            follow = R.choice(['no-data', 'struct', 'hdf5', 'partial-dict'])
            case = {'index': i, 'spec': filegen.describe(spec), 'first_write': 'write(data=<dict of all datasets>)',
                    'second_write': follow, 'same_DLISFile_object': True}
            chk.case('data-not-remembered', nontrivial_key=('md', i), sample={'index': i, 'second': follow})
            if follow == 'no-data':
                s2, e2 = call(b.df.write, p, output_chunk_size=2**20)
                if s2 == 'ok':
                    chk.fail('history:write-data-remembered', case, 'a write without data succeeds after a write that was given '
                                                                    'the data; a fresh specification refuses it')
            elif follow == 'partial-dict':
                d = dict(b.data)
                del d[sorted(d)[-1]]
                s2, e2 = call(b.df.write, p, data=d, output_chunk_size=2**20)
                if s2 == 'ok':
                    chk.fail('history:write-data-remembered', case, 'a write lacking one dataset succeeds after a write that was '
                                                                    'given it; a fresh specification refuses it')
            else:
                src = filegen.make_source(follow, b.data, {'perm_seed': i, 'extra': 0, 'tmpdir': tmp, 'h5name': 'md.h5'})
                s2, e2 = call(b.df.write, p, data=src, output_chunk_size=2**20)
                if s2 != 'ok':
                    chk.fail('history:write-data-remembered', case, f'after a write from a dict, a write from a {follow} source '
                                                                    f'raises {e2}; a fresh specification writes it')
                elif open(p, 'rb').read() != first:
                    chk.fail('history:bytes-differ-after-other-source', case, f'the file written from the {follow} source differs')
        # (c) mutation after a write: origin references and names of referenced objects change, then rewrite
        from harness.filegen import Ref
        for i in range(15 if tier == 'quick' else 120):
            spec = filegen.gen_spec(R, n_lf=1, small=(i % 2 == 0))
            spec['write'].update({'data_kind': 'inline', 'from_idx': 0, 'to_idx': None})
            objs = spec['lfs'][0]['objects']
            # make sure object references of both kinds (OBNAME attributes and the OBJREF attribute SOURCE) exist
            for oi, o in enumerate(objs):
                if o['kind'] == 'channel' and 'source' not in o['attrs']:
                    earlier = [k for k in range(oi) if objs[k]['kind'] not in ('origin', 'frame')]
                    if earlier and R.random() < 0.6:
                        o['attrs']['source'] = {'v': Ref(0, R.choice(earlier)), 'units': None, 'route': 'plain'}
            st0, b = call(filegen.build, spec)
            if st0 != 'ok':
                continue
            p = os.path.join(tmp, 'm.dlis')
            kw = dict(input_chunk_size=None, output_chunk_size=2**20)
            s1, _ = call(b.df.write, p, **kw)
            if s1 != 'ok':
                continue
            cands = [oi for oi, o in enumerate(objs) if o['kind'] not in ('channel', 'origin', 'frame')]
            if not cands:
                continue
            mutated = pickle.loads(pickle.dumps(spec))
            muts = []
            for oi in cands:
                k = R.random()
                if k < 0.4:
                    newref = R.choice([9, 130])
                    b.handles[0][oi].origin_reference = newref
                    mutated['lfs'][0]['objects'][oi]['origin_reference'] = newref
                    muts.append(f'object #{oi}.origin_reference = {newref}')
                elif k < 0.7:
                    newname = objs[oi]['name'][:200] + '-R'
                    b.handles[0][oi].name = newname
                    mutated['lfs'][0]['objects'][oi]['name'] = newname
                    muts.append(f'object #{oi}.name = {newname!r}')
            # values replaced by values of another kind (numbers <-> text, int <-> float, date-time <-> float) on attributes
            # whose representation code follows the value
            import datetime as dtm2
            for oi, o in enumerate(objs):
                rows_ = {r_[1]: r_ for r_ in filegen.ATTRS[filegen.KINDS[o['kind']][1]]}
                for pyname, a in list(o['attrs'].items()):
                    row_ = rows_.get(pyname)
                    if row_ is None or a['v'] is None or R.random() > 0.5:
                        continue
                    newv = None
                    if row_[2] == 'Attribute' and row_[3] == 0 and isinstance(a['v'], (list, tuple)) and a['v']:
                        flat_old = eflr.flatten(a['v'])
                        n_ = len(flat_old) if o['kind'] != 'parameter' else 1
                        if all(isinstance(x, float) for x in flat_old):
                            newv = [R.randrange(-50, 50) for _ in range(n_)]
                        elif all(isinstance(x, int) for x in flat_old):
                            newv = [R.choice([1.5, -2.25, 0.125]) for _ in range(n_)]
                        else:
                            newv = [float(k_) for k_ in range(n_)]
                    elif row_[2] == 'DTimeAttribute' and 'allow_float' in row_[7]:
                        newv = 12.5 if not isinstance(a['v'], (int, float)) else dtm2.datetime(2001, 2, 3, 4, 5, 6)
                    if newv is None:
                        continue
                    st_v, _ = call(setattr, getattr(b.handles[0][oi], pyname), 'value', newv)
                    if st_v != 'ok':
                        continue
                    mutated['lfs'][0]['objects'][oi]['attrs'][pyname] = dict(a, v=newv)
                    muts.append(f'object #{oi}.{pyname}.value = {newv!r} (was {a["v"]!r})')
            if not muts:
                continue
            s2, e2 = call(b.df.write, p, **kw)
            stf, fresh = fresh_write(mutated, tmp, 'mut')
            case = {'index': i, 'spec': filegen.describe(spec), 'after_first_write': muts}
            chk.case('mutate-then-rewrite', nontrivial_key=('c', i), sample={'index': i, 'mutations': muts[:3]})
            if s2 == 'ok' and stf == 'ok' and open(p, 'rb').read() != fresh:
                # narrow identification of a known residue: a renamed object that had same-named siblings in its set
                # keeps the copy number computed at creation, a fresh build numbers the names anew
                renamed = [int(m.split('#')[1].split('.')[0]) for m in muts if '.name = ' in m]
                sibling = any(sum(1 for o2 in objs if (o2['kind'], o2['name']) == (objs[oi]['kind'], objs[oi]['name'])) > 1
                              for oi in renamed)
                key = 'rewrite:copy-number-not-recomputed-after-rename' if sibling else 'rewrite:stale-object-name'
                chk.fail(key, case, 'after changing origin references / names the rewritten file differs '
                                    'from a fresh build of the changed specification')
            elif (s2 == 'ok') != (stf == 'ok'):
                chk.fail('rewrite:writability-differs-after-mutation', case, f'rewrite {s2} {e2}, fresh build {stf}')
        # (d) values of another per-value shape assigned after a write (no dimension assigned by the user: it is derived
        # from the values at each write): the rewritten file is the one a fresh build of the new values gives
        import numpy as _np
        from dliswriter import DLISFile as _DF

        def shaped(m, k=2, off=0.0):
            return [[float(off + r * 10 + c) for c in range(m)] for r in range(k)] if m else [float(off + r) for r in range(k)]

        for i in range(12 if tier == 'quick' else 120):
            kind = ['parameter', 'computation', 'calibration_measurement'][i % 3]
            m1, m2 = R.sample([0, 1, 2, 3, 4], 2)
            zoned = R.random() < 0.7 or kind == 'parameter'

            def make(m):
                df = _DF(set_identifier='RESHAPE')
                lf = df.add_logical_file()
                lf.add_origin('O', file_set_number=1, creation_time='2020/01/01 00:00:00')
                ch = lf.add_channel('C', data=_np.arange(3.0))
                lf.add_frame('F', channels=[ch])
                zs = [lf.add_zone('Z1'), lf.add_zone('Z2')]
                if kind == 'parameter':
                    ob = lf.add_parameter('P', values=shaped(m), zones=zs)
                elif kind == 'computation':
                    ob = lf.add_computation('P', values=shaped(m), **({'zones': zs} if zoned else {}))
                else:
                    ob = lf.add_calibration_measurement('P', maximum_deviation=shaped(m), standard_deviation=shaped(m, off=0.5))
                return df, ob
            df1, ob1 = make(m1)
            pth = os.path.join(tmp, 'reshape.dlis')
            s1, e1 = call(df1.write, pth, output_chunk_size=2**20)
            if s1 != 'ok':
                chk.count(f'reshape:first-write-{e1}')
                continue
            if kind == 'calibration_measurement':
                ob1.maximum_deviation.value = shaped(m2)
                ob1.standard_deviation.value = shaped(m2, off=0.5)
            else:
                ob1.values.value = shaped(m2)
            s2, e2 = call(df1.write, pth, output_chunk_size=2**20)
            d2 = open(pth, 'rb').read() if s2 == 'ok' else None
            df3, _ = make(m2)
            s3, e3 = call(df3.write, pth, output_chunk_size=2**20)
            d3 = open(pth, 'rb').read() if s3 == 'ok' else None
            case = {'object': kind, 'first_values_shape': [2] + ([m1] if m1 else []), 'then_assigned_shape': [2] + ([m2] if m2 else []),
                    'dimension_assigned_by_user': False, 'then': 'the same DLISFile written again'}
            chk.case('reshape-then-rewrite', nontrivial_key=('d', i), sample=dict(case, second=s2, fresh=s3))
            if (s2 == 'ok') != (s3 == 'ok'):
                chk.fail('rewrite:writability-differs-after-reshape', case, f'rewrite: {s2} {e2}; fresh build of the new values: {s3} {e3}')
            elif s2 == 'ok' and d2 != d3:
                chk.fail('rewrite:stale-derived-dimension', case, 'the rewritten file differs from a fresh build of the new values')
        # (e) an indexed frame written twice with other rows each time: whatever the first write derived from its rows
        # (INDEX-MIN / -MAX, SPACING or — for an unevenly spaced index — DIRECTION) is derived anew from the rows of the second
        for i in range(16 if tier == 'quick' else 120):
            up = [0.0, 1.0, 3.0, 6.0, 10.0]
            down = [9.0, 7.0, 4.0, 0.5]
            even = [20.0, 22.0, 24.0, 26.0]
            flat = [5.0, 5.0, 5.0]
            parts = R.sample([('up', up), ('down', down), ('even', even), ('flat', flat)], 2)
            vals = parts[0][1] + parts[1][1]
            w1 = (0, len(parts[0][1]))
            w2 = (len(parts[0][1]), len(vals))
            dt = R.choice(['float64', 'float32', 'int32'])
            how = R.choice(['window', 'window', 'data'])

            def make():
                df = _DF(set_identifier='REIDX')
                lf = df.add_logical_file()
                lf.add_origin('O', file_set_number=1, creation_time='2020/01/01 00:00:00')
                if how == 'window':
                    c0 = lf.add_channel('DEPTH', data=_np.array(vals, dtype=dt), units='m')
                    c1 = lf.add_channel('X', data=_np.arange(len(vals), dtype=_np.float32))
                else:
                    c0 = lf.add_channel('DEPTH', units='m')
                    c1 = lf.add_channel('X')
                lf.add_frame('FR', channels=[c0, c1], index_type='BOREHOLE-DEPTH')
                return df

            def wr(df, w):
                if how == 'window':
                    return call(df.write, pth, output_chunk_size=2**20, from_idx=w[0], to_idx=w[1])
                seg = vals[w[0]:w[1]]
                return call(df.write, pth, output_chunk_size=2**20,
                            data={'DEPTH': _np.array(seg, dtype=dt), 'X': _np.arange(len(seg), dtype=_np.float32)})
            pth = os.path.join(tmp, 'reidx.dlis')
            df1 = make()
            s1, e1 = wr(df1, w1)
            s2, e2 = wr(df1, w2)
            d2 = open(pth, 'rb').read() if s2 == 'ok' else None
            s3, e3 = wr(make(), w2)
            d3 = open(pth, 'rb').read() if s3 == 'ok' else None
            case = {'index_values': vals, 'dtype': dt, 'first_write_rows': list(w1), 'second_write_rows': list(w2),
                    'rows_given_by': 'from_idx / to_idx' if how == 'window' else 'write(data=...)',
                    'first_rows': parts[0][0], 'second_rows': parts[1][0]}
            chk.case('reindex-then-rewrite', nontrivial_key=('e', i), sample=dict(case, first=s1, second=s2, fresh=s3))
            if s1 != 'ok':
                continue
            if (s2 == 'ok') != (s3 == 'ok'):
                chk.fail('rewrite:writability-differs-after-other-rows', case, f'second write: {s2} {e2}; fresh specification: {s3} {e3}')
            elif s2 == 'ok' and d2 != d3:
                chk.fail('rewrite:stale-derived-index-attribute', case, 'the second file differs from the one a fresh specification '
                                                                        'writes from the same rows')
        # (g) value lists that are equal as numbers but of other types (ints / floats / bools / numeral strings) written
        # earlier in the process: the representation code of a list is inferred from ITS values each time
        for i in range(10 if tier == 'quick' else 80):
            base = [R.randrange(2000, 9000) for _ in range(R.choice([1, 2, 3]))]
            variants = {'ints': [int(x) for x in base], 'floats': [float(x) for x in base], 'strings': [str(x) for x in base],
                        'float-strings': [f'{x}.0' for x in base]}
            if len(base) > 1:
                variants['mixed'] = [float(base[0])] + [int(x) for x in base[1:]]
            first, second = R.sample(sorted(variants), 2)

            def make3(vals):
                df = _DF(set_identifier='SAMEVAL')
                lf = df.add_logical_file()
                lf.add_origin('O', file_set_number=1, creation_time='2020/01/01 00:00:00')
                ch = lf.add_channel('C', data=_np.arange(3.0))
                lf.add_frame('F', channels=[ch])
                lf.add_axis('AX', coordinates=list(vals))
                zs = [lf.add_zone(f'Z{k}') for k in range(len(vals))]
                lf.add_parameter('P', values=list(vals), zones=zs)
                return df
            pth = os.path.join(tmp, 'sameval.dlis')
            # the reference: the same calls in a fresh process
            code = ("import sys, numpy as np\nfrom dliswriter import DLISFile\nvals = " + repr(variants[second]) + "\n"
                    "df = DLISFile(set_identifier='SAMEVAL'); lf = df.add_logical_file()\n"
                    "lf.add_origin('O', file_set_number=1, creation_time='2020/01/01 00:00:00')\n"
                    "ch = lf.add_channel('C', data=np.arange(3.0)); lf.add_frame('F', channels=[ch])\n"
                    "lf.add_axis('AX', coordinates=list(vals))\n"
                    "zs = [lf.add_zone(f'Z{k}') for k in range(len(vals))]\n"
                    "lf.add_parameter('P', values=list(vals), zones=zs)\n"
                    "df.write(sys.argv[1], output_chunk_size=2**20)\n")
            fpth = os.path.join(tmp, 'sameval_fresh.dlis')
            if os.path.exists(fpth):
                os.unlink(fpth)
            pr = subprocess.run([sys.executable, '-c', code, fpth], stdout=subprocess.DEVNULL, stderr=subprocess.DEVNULL, timeout=120)
            s_a, e_a = ('ok', None) if pr.returncode == 0 and os.path.exists(fpth) else ('err', f'exit {pr.returncode}')
            d_a = open(fpth, 'rb').read() if s_a == 'ok' else None
            call(make3(variants[first]).write, pth, output_chunk_size=2**20)                 # the history
            s_b, e_b = call(make3(variants[second]).write, pth, output_chunk_size=2**20)
            d_b = open(pth, 'rb').read() if s_b == 'ok' else None
            case = {'values': variants[second], 'equal_values_written_earlier_in_the_process': variants[first]}
            chk.case('equal-values-other-types', nontrivial_key=('g', i), sample=dict(case, before=s_a, after=s_b))
            if (s_a == 'ok') != (s_b == 'ok'):
                chk.fail('history:writability-differs-after-equal-values', case, f'fresh process: {s_a} {e_a}; after the history: {s_b} {e_b}')
            elif s_a == 'ok' and d_a != d_b:
                chk.fail('history:bytes-differ-after-equal-values', case, 'the file differs from the one a fresh process writes')
        # (f) the same at the level of the checks themselves, against the DimState model
        from harness import defaults as _defaults
        _defaults.sequence_stream(chk, model, bres, rng('C14', 'dimension-sequences'), 150 if tier == 'quick' else 1500)
        from harness.props import c13 as _c13
        _c13.frame_sequences(chk, model, bres, rng('C14', 'frame-sequences'), 100 if tier == 'quick' else 1000)
    finally:
        shutil.rmtree(tmp, ignore_errors=True)
    return finish(chk, bres, THEOREMS,
                  partial_note='per-object state surviving a write (derived values, merged data) is oracle-only.')
