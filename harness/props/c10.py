"""C10 — chunk sizes invisible; on-disk growth by whole visible records."""
import copy
import shutil
import tempfile

from harness.common import Check, Model, build, finish, rng, hexs, cps
from harness import filegen, wholefile as wf
from harness.impl import call

THEOREMS = ['Dlis.C10.output_chunks_invisible', 'Dlis.C10.output_chunk_independent', 'Dlis.C10.input_chunks_invisible',
            'Dlis.C10.file_is_frameFile', 'Dlis.C10.chunk_accepted_iff', 'Dlis.C03.frame_data_roundtrip']


def split_vrs(data):
    """visible records of a written file (lengths from their own headers)"""
    vrs, pos = [], 80
    while pos < len(data):
        n = int.from_bytes(data[pos:pos + 2], 'big')
        if n < 4:
            break
        vrs.append(data[pos:pos + n])
        pos += n
    return data[:80], vrs


def run(tier):
    chk = Check('C10', tier)
    chk.rule = ('small specifications x EVERY output chunk size from the record length to file size + 1 (plus integral '
                'floats, fractional floats, values below the record length, bool) x every input chunk size 1..rows+2 and '
                'None, random prior content at the target path; physical writes observed through the flush-tap with the '
                'file read back at every flush. Distinct by (specification, chunk sizes).')
    bres = build(THEOREMS)
    model = Model()
    R = rng('C10', 'chunks')
    tmp = tempfile.mkdtemp(prefix='verif_c10_')
    n_specs = 7 if tier == 'quick' else 30
    try:
        for si in range(n_specs):
            vrl = R.choice([20, 24, 32, 48, 64])
            spec = filegen.gen_spec(R, n_lf=1, small=True, vrl=vrl, rows=R.choice([3, 5, 8]),
                                    with_index=False if si % 5 in (1, 3, 4) else None)
            spec['write'].update({'input_chunk_size': None, 'output_chunk_size': 2**20})
            # every kind of data source in turn; the structured array with its columns in another order than the frame's
            # and with columns no frame uses, once without and once with a row window
            kind = ['struct', 'inline', 'hdf5', 'dict', 'struct'][si % 5]
            rows_ = {o['data'].shape[0] for lf in spec['lfs'] for o in lf['objects'] if o['kind'] == 'channel'}
            if kind != 'struct' or len(rows_) == 1:
                spec['write']['data_kind'] = kind
                if kind == 'struct':
                    spec['write']['source_opts'] = {'perm_seed': R.randrange(1000), 'extra': 2, 'exact': False}
                    if si % 5 == 0:
                        spec['write'].update({'from_idx': 0, 'to_idx': None})
            # a row window strictly inside the data (frames without index type only: index attributes are C13's), so that
            # the number of rows written and the number of rows in the source differ while the chunk size sweeps past both
            indexed_ = any('index_type' in o['attrs'] for lf in spec['lfs'] for o in lf['objects'] if o['kind'] == 'frame')
            if si % 5 in (1, 3, 4) and not indexed_ and len(rows_) == 1 and min(rows_) >= 3:
                spec['write'].update({'from_idx': 1, 'to_idx': min(rows_) - 1})
            ref = filegen.write(spec, tmp)
            if ref['status'] != 'ok':
                chk.count('reference-write-failed')
                continue
            data = ref['data']
            sul, vrs = split_vrs(data)
            nrows = max(o['data'].shape[0] for lf in spec['lfs'] for o in lf['objects'] if o['kind'] == 'channel')
            # ---- output chunk sizes
            sizes = list(range(vrl, min(len(data) + 2, vrl + (400 if tier == 'quick' else 3000))))
            sizes += [len(data) - 1, len(data), len(data) + 1, 2 * len(data)]
            extra = [float(vrl), float(vrl + 7), vrl + 0.5, vrl - 1, vrl - 2, True, len(data) + 0.25]   # 0 means "default" (2**32) and is not tried: 4 GiB buffer
            reqs, metas = [], []
            for oc in sizes + extra:
                s2 = dict(spec)
                s2['write'] = dict(spec['write'], output_chunk_size=oc)
                prior = bytes(R.randrange(256) for _ in range(R.choice([0, 10, len(data) + 50]))) if R.random() < 0.3 else None
                res = filegen.write(s2, tmp, prior=prior, read_disk=True)
                valid = isinstance(oc, (int, float)) and not isinstance(oc, bool) and oc % 1 == 0 and oc >= vrl
                if isinstance(oc, bool):
                    valid = (oc % 1 == 0 and oc >= vrl)     # a bool is an int in Python: True = 1 < vrl
                case = {'spec_index': si, 'spec': filegen.describe(spec), 'output_chunk_size': repr(oc),
                        'file_size': len(data), 'prior_content_bytes': None if prior is None else len(prior)}
                chk.case('output-chunk', nontrivial_key=(si, repr(oc)),
                         sample={'vrl': vrl, 'file_size': len(data), 'output_chunk_size': repr(oc), 'status': res['status']})
                chk.count(f'output:{"valid" if valid else "invalid"}:{res["status"]}')
                if not valid:
                    if res['status'] == 'ok':
                        chk.fail('output:accepts-invalid-chunk-size', case, 'write succeeded with an unacceptable output chunk size')
                    continue
                if res['status'] != 'ok':
                    chk.fail('output:rejects-valid-chunk-size', case, f'write raised {res["error"]}')
                    continue
                if res['data'] != data:
                    chk.fail('output:bytes-depend-on-chunk-size', case,
                             f'file differs from the one written with a large chunk (sizes {len(res["data"])} vs {len(data)})')
                fl = res['flushes']
                if fl and fl[-1][2] != len(res['data']):
                    chk.fail('output:reported-total', case, f'writer reports {fl[-1][2]} bytes, file has {len(res["data"])}')
                # every on-disk state: prefix of the final file on a visible-record boundary
                bounds = {80}
                acc = 80
                for v in vrs:
                    acc += len(v)
                    bounds.add(acc)
                for (mode, n, total, size, content) in fl:
                    if content is None:
                        continue
                    if not data.startswith(content) or len(content) not in bounds:
                        chk.fail('output:disk-state-not-a-record-boundary', case,
                                 f'after a flush the file has {len(content)} bytes: not a prefix of the final file ending on '
                                 f'a visible-record boundary')
                        break
                reqs.append(f'out {int(oc)} {hexs(sul)} ' + ' '.join(hexs(v) for v in vrs))
                metas.append((case, [f[1] for f in fl], fl[-1][2] if fl else None))
            if bres.ok and reqs:
                for (case, wl, total), rep in zip(metas, model.ask(reqs)):
                    irep = f'ok {total} ' + ','.join(str(x) for x in wl)
                    if rep != irep:
                        chk.disagree('output-chunk', case, irep, rep)
            # ---- input chunk sizes
            for ic in list(range(1, nrows + 3)) + [None, 1000]:
                s2 = dict(spec)
                s2['write'] = dict(spec['write'], input_chunk_size=ic)
                res = filegen.write(s2, tmp)
                case = {'spec_index': si, 'spec': filegen.describe(spec), 'input_chunk_size': ic, 'rows': nrows}
                chk.case('input-chunk', nontrivial_key=(si, 'in', ic), sample={'rows': nrows, 'input_chunk_size': ic,
                                                                              'status': res['status']})
                if res['status'] != 'ok':
                    chk.fail('input:rejects-valid-chunk-size', case, f'write raised {res["error"]}')
                elif res['data'] != data:
                    chk.fail('input:bytes-depend-on-chunk-size', case, 'file differs from the one written in a single chunk')
            # one DLISFile written several times with different chunk sizes: nothing carried over from a write may matter
            st_b, b = call(filegen.build, spec)
            if st_b == 'ok':
                for k, (ic, oc) in enumerate([(1, vrl), (None, 2**20), (2, vrl + 2), (max(nrows - 1, 1), 2 * vrl), (None, vrl)]):
                    s2 = dict(spec)
                    s2['write'] = dict(spec['write'], input_chunk_size=ic, output_chunk_size=oc)
                    # the target path keeps what the previous write (or somebody else) left there: it must be replaced
                    res = filegen.write(s2, tmp, built=b, fname='same_target.dlis',
                                        prior=(None if k else b'leftover content of an older, longer file' * 997), keep_existing=True)
                    case = {'spec_index': si, 'spec': filegen.describe(spec), 'write_number': k + 1,
                            'input_chunk_size': ic, 'output_chunk_size': oc, 'same_DLISFile_object': True}
                    chk.case('same-object-rewrites', nontrivial_key=(si, 'rw', k))
                    if res['status'] != 'ok':
                        chk.fail('rewrite:raises', case, f'write #{k + 1} of the same DLISFile raised {res["error"]}')
                        break
                    if res['data'] != data:
                        chk.fail('rewrite:bytes-depend-on-chunk-size', case,
                                 f'write #{k + 1} of the same DLISFile differs from a fresh single-chunk write')
                        break
            for ic in (0, -1, -2, -nrows):
                s2 = dict(spec)
                s2['write'] = dict(spec['write'], input_chunk_size=ic)
                res = filegen.write(s2, tmp)
                case = {'spec_index': si, 'spec': filegen.describe(spec), 'input_chunk_size': ic, 'rows': nrows}
                chk.case('input-chunk', nontrivial_key=(si, 'in', ic))
                chk.count(f'input:nonpositive:{res["status"]}')
                if res['status'] == 'ok' and res['data'] != data:
                    chk.fail('input:nonpositive-chunk-size-drops-rows', case,
                             f'write with input_chunk_size={ic} succeeded but the file differs ({len(res["data"])} vs '
                             f'{len(data)} bytes): rows are missing')
    finally:
        shutil.rmtree(tmp, ignore_errors=True)
    return finish(chk, bres, THEOREMS,
                  partial_note="OS semantics of open(...,'wb'/'ab') are trusted; the correspondence reads the real file at "
                               "every flush-tap callback.")
