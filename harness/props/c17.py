"""C17 — high-compatibility mode."""
import shutil
import tempfile

import numpy as np

from harness.common import Check, Model, build, finish, rng, cps, hexs
from harness import filegen, content
from harness.impl import call

from dliswriter import DLISFile, high_compatibility_mode
from dliswriter.configuration import global_config
from dliswriter.utils.high_compatibility_mode import high_compatibility_mode_decorator
from dliswriter.utils.internal.value_checkers import validate_string

THEOREMS = ['Dlis.C17.hc_restored', 'Dlis.C17.hc_on_inside', 'Dlis.C17.names_restricted', 'Dlis.C17.hcChar_class',
            'Dlis.C17.enum_restricted', 'Dlis.C17.breach_raises_iff', 'Dlis.C17.file_set_numbers',
            'Dlis.C17.channels_in_exactly_one_frame', 'Dlis.C17.channel_counts_only_in_mode',
            'Dlis.C17.pattern_pinned', 'Dlis.C17.setter_names_restricted', 'Dlis.C17.setter_enums_restricted',
            'Dlis.C17.setter_soft_outside', 'Dlis.C17.units_restricted', 'Dlis.Obligations.enums_eq',
            'Dlis.Obligations.convs_eq']


class Boom(Exception):
    pass


def run_shape(shape, trace, depth=0, inside=None):
    """shape: nested list program; 'o' = a library call (may fail), 'x' = raise inside; ['...'] = a context.
    `inside`: list collecting, for every library call made within at least one active context, whether it was refused"""
    for el in shape:
        if el == 'o':
            st_, _ = call(DLISFile, set_identifier='lower case id')      # fails in the mode, fine outside; never touches the flag
            trace.append(('o', global_config.high_compat_mode))
            if inside is not None and depth > 0:
                inside.append((depth, st_ != 'ok', global_config.high_compat_mode))
        elif el == 'x':
            raise Boom()
        elif isinstance(el, tuple) and el[0] == 'dec':
            @high_compatibility_mode_decorator
            def f():
                trace.append(('e', global_config.high_compat_mode))
                run_shape(el[1], trace, depth + 1, inside)
            try:
                f()
            finally:
                trace.append(('l', global_config.high_compat_mode))
        else:
            try:
                with high_compatibility_mode():
                    trace.append(('e', global_config.high_compat_mode))
                    run_shape(el, trace, depth + 1, inside)
            except Boom:
                trace.append(('l', global_config.high_compat_mode))
                trace.append(('caught', None))
            else:
                trace.append(('l', global_config.high_compat_mode))


def gen_shape(R, depth):
    out = []
    for _ in range(R.choice([0, 1, 2, 3])):
        k = R.random()
        if k < 0.35:
            out.append('o')
        elif k < 0.45 and depth > 0:
            out.append('x')
        elif depth < 3:
            inner = gen_shape(R, depth + 1)
            out.append(('dec', inner) if R.random() < 0.2 and 'x' not in inner else inner)
    return out


R_SPACING = [1.0]


def _base_builder(tmp, **over):
    return aspects(_want_base=True)(tmp, **over)


def aspects(_want_base=False):
    """(name, builder(breached) -> callable doing build+write; met-check on the decoded file)"""
    def base(tmp, **over):
        def go():
            df = DLISFile(set_identifier=over.get('set_identifier', 'SET-1'))
            lf = df.add_logical_file(fh_id=over.get('fh_id', 'HDR-1'))
            lf.add_origin(over.get('origin_name', 'ORIGIN'), creation_time='2020/01/01 00:00:00',
                          **({'file_set_number': over['fsn']} if 'fsn' in over else {}))
            if over.get('second_origin'):
                lf.add_origin('ORIGIN2', creation_time='2020/01/01 00:00:00')
            n = 4
            idx = np.array(over.get('index', [1.0, 2.0, 3.0, 4.0]), dtype=over.get('index_dtype', 'float64'))
            c0 = lf.add_channel(over.get('channel_name', 'DEPTH'), data=idx, units=over.get('units', 'm'))
            c1 = lf.add_channel('C1', data=np.arange(n).astype(over.get('dtype', 'float32')))
            chans = [c0, c1]
            if over.get('unassigned'):
                lf.add_channel('LONELY', data=np.arange(n, dtype=np.float32))
            fkw = {}
            if over.get('index_type'):
                fkw['index_type'] = over['index_type']
            if 'spacing' in over:
                fkw['spacing'] = over['spacing']
            lf.add_frame('FRAME', channels=chans, **fkw)
            if over.get('second_frame'):
                c2 = lf.add_channel('C2', data=np.arange(n, dtype=np.float32))
                lf.add_frame('FRAME2', channels=[c2, c1])
            if 'eq_type' in over or 'location' in over:
                lf.add_equipment('EQ', eq_type=over.get('eq_type'), location=over.get('location'))
            df.write(f'{tmp}/hc.dlis', output_chunk_size=2**20)
        return go
    if _want_base:
        return base
    return [
        ('object-name', lambda t, b: base(t, channel_name='depth' if b else 'DEPTH')),
        ('set-identifier', lambda t, b: base(t, set_identifier='Main set' if b else 'MAIN-SET')),
        ('header-id', lambda t, b: base(t, fh_id='my header' if b else 'MY-HEADER')),
        ('signed-int-channel', lambda t, b: base(t, dtype='int16' if b else 'uint16')),
        ('channel-in-no-frame', lambda t, b: base(t, unassigned=b)),
        ('channel-in-two-frames', lambda t, b: base(t, second_frame=b)),
        ('non-uniform-index', lambda t, b: base(t, index_type='BOREHOLE-DEPTH', index=[1.0, 2.0, 4.0, 8.0] if b else [1.0, 2.0, 3.0, 4.0])),
        ('non-uniform-index-with-explicit-spacing',
         lambda t, b: base(t, index_type='BOREHOLE-DEPTH', spacing=R_SPACING[0], index=[1.0, 2.0, 4.0, 8.0] if b else [1.0, 2.0, 3.0, 4.0])),
        ('non-uniform-index-with-spacing-and-units',
         lambda t, b: base(t, index_type='BOREHOLE-DEPTH', spacing={'value': 1.0, 'units': 'm'}, index=[1.0, 3.0, 4.0, 8.0] if b else [1.0, 2.0, 3.0, 4.0])),
        ('units', lambda t, b: base(t, units='furlong' if b else 'm')),
        ('index-type', lambda t, b: base(t, index_type='MY-INDEX' if b else 'BOREHOLE-DEPTH')),
        ('equipment-type', lambda t, b: base(t, eq_type='Gadget' if b else 'Tool')),
        ('equipment-location', lambda t, b: base(t, location='Moon' if b else 'Well')),
    ]


# the same aspects as keyword overrides of the base build, (met, breached), for combinations
ASPECT_OVERRIDES = [
    ('object-name', {'channel_name': 'DEPTH'}, {'channel_name': 'depth'}),
    ('set-identifier', {'set_identifier': 'MAIN-SET'}, {'set_identifier': 'Main set'}),
    ('header-id', {'fh_id': 'MY-HEADER'}, {'fh_id': 'my header'}),
    ('signed-int-channel', {'dtype': 'uint16'}, {'dtype': 'int16'}),
    ('channel-in-no-frame', {}, {'unassigned': True}),
    ('channel-in-two-frames', {}, {'second_frame': True}),
    ('index', {'index_type': 'BOREHOLE-DEPTH', 'index': [1.0, 2.0, 3.0, 4.0]},
     {'index_type': 'BOREHOLE-DEPTH', 'index': [1.0, 2.0, 4.0, 8.0]}),
    ('units', {'units': 'm'}, {'units': 'furlong'}),
    ('equipment-type', {'eq_type': 'Tool'}, {'eq_type': 'Gadget'}),
    ('equipment-location', {'location': 'Well'}, {'location': 'Moon'}),
]


def combination_stream(chk, tmp, R, n):
    """several aspects at once, each met or breached, with or without an explicit spacing, inside and outside the mode
    (plain, nested, left by an earlier exception): build+write raises iff the mode is on and something is breached"""
    base = aspects.__globals__.get('_base_builder')
    for i in range(n):
        over, breached = {}, []
        chosen = set(R.sample([a[0] for a in ASPECT_OVERRIDES], R.choice([0, 0, 0, 1, 1, 2, 3])))
        for name, met, br in ASPECT_OVERRIDES:
            if name in chosen:
                over.update(br)
                breached.append(name)
            elif R.random() < 0.6:
                over.update(met)
        if 'index' in over and R.random() < 0.4:
            over['spacing'] = R.choice([1.0, 0.5, {'value': 1.0, 'units': 'm'}])
        if 'index_type' not in over and 'index' in over:
            over.pop('index')
        f = base(tmp, **over)
        shape = R.choice(['outside', 'inside', 'inside', 'nested', 'after-exception'])

        def g():
            if shape == 'outside':
                return f()
            if shape == 'nested':
                with high_compatibility_mode():
                    with high_compatibility_mode():
                        pass
                    return f()
            if shape == 'after-exception':
                try:
                    with high_compatibility_mode():
                        raise Boom()
                except Boom:
                    pass
                return f()          # the mode was left by the exception: outside again
            with high_compatibility_mode():
                return f()
        st, err = call(g)
        inside = shape in ('inside', 'nested')
        case = {'breached': breached, 'overrides': {k: repr(v) for k, v in over.items()}, 'context': shape}
        chk.case('aspect-combinations', nontrivial_key=('comb', i), sample={'breached': breached, 'context': shape, 'status': st})
        chk.count(f'combination:{"in" if inside else "out"}:{"breach" if breached else "met"}:{st}')
        if global_config.high_compat_mode:
            chk.fail('context:flag-leaks', case, 'flag still on after the context')
            global_config.high_compat_mode = False
        want = 'err' if (breached and inside) else 'ok'
        if st != want:
            key = 'combination:not-enforced' if want == 'err' else ('combination:rejected-outside-mode' if not inside
                                                                   else 'combination:valid-rejected-in-mode')
            chk.fail(key, case, f'build+write {st} ({err}), expected {want}')


WRITE_TIME_ASPECTS = [
    ('signed-int-channel', {'dtype': 'int16'}),
    ('channel-in-no-frame', {'unassigned': True}),
    ('channel-in-two-frames', {'second_frame': True}),
    ('non-uniform-index', {'index_type': 'BOREHOLE-DEPTH', 'index': [1.0, 2.0, 4.0, 8.0]}),
]


def rewrite_across_modes_stream(chk, tmp, R, n):
    """ONE file object whose breach is only checked at write time, written several times, inside and outside the mode in
    any order: every write inside the mode must raise, every write outside must succeed — whatever happened before"""
    import numpy as np
    for i in range(n):
        name, over = R.choice(WRITE_TIME_ASPECTS)
        df = DLISFile(set_identifier='SET-1')
        lf = df.add_logical_file(fh_id='HDR-1')
        lf.add_origin('ORIGIN', creation_time='2020/01/01 00:00:00', file_set_number=1)
        idx = np.array(over.get('index', [1.0, 2.0, 3.0, 4.0]))
        c0 = lf.add_channel('DEPTH', data=idx, units='m')
        c1 = lf.add_channel('C1', data=np.arange(4).astype(over.get('dtype', 'float32')))
        if over.get('unassigned'):
            lf.add_channel('LONELY', data=np.arange(4, dtype=np.float32))
        lf.add_frame('FRAME', channels=[c0, c1], **({'index_type': over['index_type']} if 'index_type' in over else {}))
        if over.get('second_frame'):
            c2 = lf.add_channel('C2', data=np.arange(4, dtype=np.float32))
            lf.add_frame('FRAME2', channels=[c2, c1])
        seq = [R.choice(['in', 'out']) for _ in range(R.choice([2, 3, 4]))]
        if 'in' not in seq:
            seq.append('in')
        done = []
        for where in seq:
            def w():
                if where == 'in':
                    with high_compatibility_mode():
                        df.write(f'{tmp}/am.dlis', output_chunk_size=2**20)
                else:
                    df.write(f'{tmp}/am.dlis', output_chunk_size=2**20)
            st, err = call(w)
            done.append(f'{where}:{st}')
            case = {'aspect': name, 'writes_of_the_same_object': list(done)}
            if global_config.high_compat_mode:
                chk.fail('context:flag-leaks', case, 'flag still on after the context')
                global_config.high_compat_mode = False
            want = 'err' if where == 'in' else 'ok'
            if st != want:
                chk.fail('rewrite:not-enforced:' + name if want == 'err' else 'rewrite:rejected-outside-mode:' + name, case,
                         f'write number {len(done)} ({"inside" if where == "in" else "outside"} the mode) {st} ({err}), expected {want}')
                break
        chk.case('rewrite-across-modes', nontrivial_key=('ram', i), sample={'aspect': name, 'writes': done})


def run(tier):
    chk = Check('C17', tier)
    chk.rule = ('(a) every context shape up to depth 3 from a random grammar (library calls that fail, exceptions '
                'propagating out of 1..3 levels, decorator form), flag compared with the model after every step; (b) '
                'validate_string vs the character class for every code point < 256 in three positions + samples beyond; '
                '(c) 13 restricted aspects x {met, breached} x {inside, outside}; (d) default file-set numbers in the mode; '
                '(e) set_attributes on every name-like / enumerated attribute and every units-carrying attribute of every '
                'object type (70% inside the mode), compared with the converter model; oracle: what was accepted in the mode '
                'is over [A-Z0-9_-]+ / a value of the pinned enumeration.')
    bres = build(THEOREMS)
    model = Model()
    R = rng('C17', 'hc')
    tmp = tempfile.mkdtemp(prefix='verif_c17_')
    try:
        # (a) context shapes
        reqs, metas = [], []
        for i in range(400 if tier == 'quick' else 3000):
            shape = gen_shape(R, 0)
            before = global_config.high_compat_mode
            trace = []
            inside = []
            try:
                run_shape(shape, trace, 0, inside)
            except Boom:
                trace.append(('escaped', None))
            after = global_config.high_compat_mode
            if not before:
                for (dep, refused, flag) in inside:
                    if not refused or not flag:
                        chk.fail('context:restriction-off-inside-active-scope', {'shape': repr(shape)},
                                 f'a library call made inside {dep} active high-compatibility scope(s) (after an exception left an '
                                 f'inner one) was {"refused" if refused else "accepted"} with the mode flag {flag}')
                        break
            ops = ''.join(t[0] for t in trace if t[0] in 'elo')
            flags = ''.join('1' if t[1] else '0' for t in trace if t[0] in 'elo')
            case = {'shape': repr(shape), 'trace': ops}
            chk.case('contexts', nontrivial_key=repr(shape) if ops else None, sample={'shape': repr(shape)[:120], 'ops': ops})
            if after != before:
                chk.fail('context:flag-leaks', case, f'flag {before} before, {after} after the sequence')
                global_config.high_compat_mode = before
            reqs.append(f'hc {1 if before else 0} {ops or "o"}')
            metas.append((case, flags if ops else None))
        if bres.ok:
            for (case, flags), rep in zip(metas, model.ask(reqs)):
                if flags is None:
                    continue
                if rep.split(' ')[1] != flags:
                    chk.disagree('contexts', case, flags, rep)
        # (b) string validation
        sreqs, smeta = [], []
        cands = []
        for cp in list(range(0, 256)) + [0x100, 0x391, 0x410, 0xFF21, 0x1D400]:
            c = chr(cp)
            cands += [c, 'A' + c, c + '9', 'AB' + c + 'Z']
        cands += ['', 'A', 'Z', '0', '9', '_', '-', 'A_B-9', 'a', 'A B', 'É', 'À1']
        with high_compatibility_mode():
            for s in cands:
                st, _ = call(validate_string, s)
                sreqs.append(f'hcstr {cps(s)}')
                smeta.append((s, st))
        for s in cands[:50]:
            st, _ = call(validate_string, s)
            chk.case('strings-outside', nontrivial_key=None)
            if st != 'ok':
                chk.fail('names:rejected-outside-mode', {'string': repr(s)}, 'validate_string raises outside the mode')
        if bres.ok:
            for (s, st), rep in zip(smeta, model.ask(sreqs)):
                chk.case('strings', nontrivial_key=('s', s), sample={'string': repr(s), 'accepted': st == 'ok'})
                want = all(('A' <= ch <= 'Z') or ('0' <= ch <= '9') or ch in '_-' for ch in s) and len(s) > 0
                if (st == 'ok') != want:
                    chk.fail('names:class', {'string': repr(s)}, f'validate_string in the mode: {st}, pattern [A-Z0-9_-]+ says {want}')
                if (rep == '1') != (st == 'ok'):
                    chk.disagree('strings', {'string': repr(s)}, st, rep)
        # (c) aspects
        for name, mk in aspects():
            for breached in (False, True):
                for inside in (False, True):
                    f = mk(tmp, breached)
                    if inside:
                        def g():
                            with high_compatibility_mode():
                                f()
                        st, err = call(g)
                    else:
                        st, err = call(f)
                    case = {'aspect': name, 'breached': breached, 'inside_mode': inside}
                    chk.case('aspects', nontrivial_key=(name, breached, inside), sample={**case, 'status': st})
                    chk.count(f'aspect:{name}:{"breach" if breached else "met"}:{"in" if inside else "out"}:{st}')
                    if global_config.high_compat_mode:
                        chk.fail('context:flag-leaks', case, 'flag still on after the context')
                        global_config.high_compat_mode = False
                    want = 'err' if (breached and inside) else 'ok'
                    if st != want:
                        key = 'aspect:not-enforced' if want == 'err' else ('aspect:rejected-outside-mode' if not inside else 'aspect:valid-rejected-in-mode')
                        chk.fail(key + ':' + name, case, f'build+write {st} ({err}), expected {want}')
        combination_stream(chk, tmp, R, 120 if tier == 'quick' else 1200)
        rewrite_across_modes_stream(chk, tmp, R, 60 if tier == 'quick' else 600)
        # (c2) objects created in one mode, enumerated attributes (re)assigned in the other
        def make_objects():
            df = DLISFile(set_identifier='SET-1')
            lf = df.add_logical_file(fh_id='H')
            lf.add_origin('ORIGIN', creation_time='2020/01/01 00:00:00', file_set_number=1)
            ch = lf.add_channel('RATE', data=np.arange(3, dtype=np.float32))
            eq = lf.add_equipment('EQ-1')
            fr = lf.add_frame('MAIN-FRAME', channels=[ch])
            pa = lf.add_parameter('PARAM-1', values=[1.0])
            return {'channel-units': (ch.units, 'value', 'furlong', 'm'), 'equipment-type': (eq._type, 'value', 'Gizmo', 'Tool'),
                    'equipment-location': (eq.location, 'value', 'Moon', 'Well'),
                    'frame-index-type': (fr.index_type, 'value', 'WARP-FACTOR', 'BOREHOLE-DEPTH'),
                    'attribute-units': (pa.values, 'units', 'furlong', 'm')}
        for created_inside in (False, True):
            if created_inside:
                with high_compatibility_mode():
                    objs = make_objects()
            else:
                objs = make_objects()
            for name, (attr, part, bad, good) in objs.items():
                for assign_inside in (False, True):
                    for value, breached in ((bad, True), (good, False)):
                        def assign():
                            if assign_inside:
                                with high_compatibility_mode():
                                    setattr(attr, part, value)
                            else:
                                setattr(attr, part, value)
                        st, err = call(assign)
                        case = {'aspect': name, 'object_created_inside_mode': created_inside,
                                'assigned_inside_mode': assign_inside, 'value': value}
                        chk.case('cross-mode', nontrivial_key=(name, created_inside, assign_inside, breached))
                        want = 'err' if (breached and assign_inside) else 'ok'
                        if st != want:
                            key = 'aspect:not-enforced:' if want == 'err' else 'mode-leaks:rejected-outside-mode:'
                            chk.fail(key + name, case, f'assignment {st} ({err}), expected {want}: the mode in force when the '
                                                       f'value is assigned decides, not the mode the object was created in')
                        if global_config.high_compat_mode:
                            chk.fail('context:flag-leaks', case, 'flag still on')
                            global_config.high_compat_mode = False
        # (c3) whole specifications that respect every restriction, built and written inside the mode: must be
        # accepted, and the decoded file must satisfy the restrictions (names, units, file set numbers 1..n)
        from harness import wholefile as wf, content
        import re as _re
        specs = list(wf.generate('C17', tier, 60, 600, stream='hc-valid', hc=True))
        runs = wf.execute(specs, model, bres, chk, stream='hc-valid')
        for r in runs:
            chk.case('hc-valid-files', nontrivial_key=('hcv', r.index) if r.res['status'] == 'ok' else None,
                     sample=wf.sample_of(r))
            if global_config.high_compat_mode:
                chk.fail('context:flag-leaks', r.case, 'flag still on after an HC write')
                global_config.high_compat_mode = False
            if r.res['status'] != 'ok':
                chk.fail('aspect:valid-rejected-in-mode:whole-file', r.case, f'a specification respecting every restriction was '
                                                                             f'rejected inside the mode: {r.res["error"]} ({r.res["stage"]})')
                continue
            if not bres.ok or not wf.oracle_readable(r, chk, 'c17'):
                continue
            wf.oracle_fidelity(r, chk)
            pat = _re.compile(r'[A-Z0-9_-]+')
            for recs_lf in r.lfs:
                fsn = []
                for x in recs_lf:
                    if not x['eflr'] or x.get('undecodable') or x['set_type'] == 'FILE-HEADER':
                        continue
                    labs = [t['label'] for t in x['template']]
                    for o in x['objects']:
                        if not pat.fullmatch(o['name']):
                            chk.fail('aspect:not-enforced:object-name', r.case, f'object name {o["name"]!r} written inside the mode')
                        a = dict(zip(labs, o['attrs']))
                        if x['set_type'] == 'ORIGIN' and a.get('FILE-SET-NUMBER'):
                            fsn.append(int(a['FILE-SET-NUMBER']['vals'][0][1:]))
                if fsn and fsn != list(range(1, len(fsn) + 1)) and len(set(o_['set_name'] for o_ in [y for y in recs_lf if y['eflr'] and y.get('set_type') == 'ORIGIN'])) == 1:
                    chk.fail('file-set-number:not-sequential', r.case, f'default file set numbers written inside the mode: {fsn}')
        # (d) default file set numbers in the mode are 1..n
        def fsn():
            with high_compatibility_mode():
                df = DLISFile(set_identifier='SET-1')
                lf = df.add_logical_file(fh_id='H')
                os_ = [lf.add_origin(f'O{i}', creation_time='2020/01/01 00:00:00') for i in range(3)]
                return [o.file_set_number.value for o in os_]
        st, vals = call(fsn)
        chk.case('file-set-numbers', nontrivial_key='fsn', sample={'values': vals if st == 'ok' else None})
        if st != 'ok' or list(vals) != [1, 2, 3]:
            chk.fail('file-set-number:not-sequential', {'origins': 3}, f'default file set numbers in the mode: {vals}')
        # (d') origins with and without a supplied number in any order, in one set or two: a supplied number is kept,
        # every other origin gets its position in its set (hcFileSetNumber of Model/Hc.lean), whatever numbers are in use
        Rf = rng('C17', 'file-set-number-sequences')
        for i in range(60 if tier == 'quick' else 600):
            plan = [(Rf.choice([None, None, 'S2']), Rf.choice([None, None, None, 1, 2, 3, 4, 2, 3, 15]))
                    for _ in range(Rf.choice([2, 3, 4, 5]))]

            def fsn2():
                with high_compatibility_mode():
                    df = DLISFile(set_identifier='SET-1')
                    lf = df.add_logical_file(fh_id='H')
                    out = []
                    for k, (sn, given) in enumerate(plan):
                        kw = {} if given is None else {'file_set_number': given}
                        if sn:
                            kw['set_name'] = sn
                        out.append(lf.add_origin(f'O{k}', creation_time='2020/01/01 00:00:00', **kw).file_set_number.value)
                    return out
            st, vals = call(fsn2)
            pos, want = {}, []
            for sn, given in plan:
                pos[sn] = pos.get(sn, 0) + 1
                want.append(pos[sn] if given is None else given)
            chk.case('file-set-number-sequences', nontrivial_key=('fsq', i), sample={'plan': plan, 'values': vals if st == 'ok' else st})
            if st != 'ok' or list(vals) != want:
                chk.fail('file-set-number:not-sequential', {'origins (set name, supplied number)': plan},
                         f'file set numbers in the mode: {vals}; a supplied number is kept, the others are the positions: {want}')
        # (d'') the checks `write` makes first, in the mode: what it answers (written, or which check refuses - a channel
        # listed by no frame or by several included) vs acceptWriteHc of Model/Checks.lean
        from harness.props import c07 as _c07
        _c07.reference_histories(chk, model, bres, tier, 'C17')
        global_config.high_compat_mode = False
        # (e) the setters of every name-like and enumerated attribute of every object type, and the units setter of
        # every attribute, in and outside the mode, against the converter model and the mode oracle
        from harness import convert
        from harness.filegen import ATTRS, ENUMS
        convert.run_stream(chk, model, bres, rng('C17', 'setters'), 10 if tier == 'quick' else 60, ATTRS,
                           stream='setters', hc_share=0.7, enums_pinned=ENUMS,
                           only=lambda st, row, conv: conv == 'validateString' or conv.startswith('enum:') or row[6])
    finally:
        global_config.high_compat_mode = False
        shutil.rmtree(tmp, ignore_errors=True)
    return finish(chk, bres, THEOREMS, partial_note='re.fullmatch is trusted to implement the pinned pattern.')
