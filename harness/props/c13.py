"""C13 — frame index metadata."""
import itertools
import shutil
import tempfile
from fractions import Fraction

import numpy as np

from harness.common import Check, Model, build, finish, rng, cps, hexs
from harness import filegen, content
from harness.impl import call

from dliswriter import DLISFile

THEOREMS = ['Dlis.C13.index_min_max', 'Dlis.C13.spacing_uniform', 'Dlis.C13.spacing_present_only_if_uniform',
            'Dlis.C13.direction_sense', 'Dlis.C13.direction_only_without_spacing', 'Dlis.C13.user_values_unchanged',
            'Dlis.C13.single_row']
INT_DT = ['int8', 'int16', 'int32', 'uint8', 'uint16', 'uint32']


def shapes(R, tier):
    """index value lists (as Fractions) with a label"""
    out = []
    for n in (1, 2, 3, 5):
        out.append(('uniform-inc', [Fraction(3 + 2 * i) for i in range(n)]))
        out.append(('uniform-dec', [Fraction(9 - 2 * i) for i in range(n)]))
        out.append(('constant', [Fraction(4)] * n))
    out += [('non-monotonic', [Fraction(x) for x in (1, 5, 2, 8)]), ('increasing', [Fraction(x) for x in (1, 2, 4, 8)]),
            ('decreasing', [Fraction(x) for x in (90, 70, 60, 10)]),
            ('nearly-uniform', [Fraction(x) for x in (0, 1000, 2001, 3001)]),
            ('not-uniform-enough', [Fraction(x) for x in (0, 10, 21, 31)]),
            ('median-zero', [Fraction(x) for x in (5, 5, 5, 10)]),
            ('plateau-inc', [Fraction(x) for x in (1, 1, 2, 2, 3)])]
    alphabet = [0, 1, 2, 5]
    for n in ((2, 3) if tier == 'quick' else (2, 3, 4, 5)):
        for seq in itertools.product(alphabet, repeat=n):
            out.append(('enum', [Fraction(x) for x in seq]))
    for _ in range(150 if tier == 'quick' else 1500):
        n = R.choice([2, 3, 4, 6])
        out.append(('random', [Fraction(R.randrange(0, 200)) for _ in range(n)]))
    return out


def scale_for(dtype, vals, R):
    """map the abstract values into the dtype's domain: ints as they are (shifted for signed), floats x 2^-k"""
    if dtype in INT_DT:
        return vals, 0
    k = R.choice([0, 1, 3])
    return [v / (2 ** k) for v in vals], k


def expected_stats(vals):
    """exact arithmetic re-statement of the documented behaviour"""
    n = len(vals)
    lo, hi = min(vals), max(vals)
    ds = [b - a for a, b in zip(vals, vals[1:])]
    spacing, direction = None, None
    if ds:
        if all(d == 0 for d in ds):
            direction = None
        elif all(d >= 0 for d in ds):
            direction = 'INCREASING'
        elif all(d <= 0 for d in ds):
            direction = 'DECREASING'
        if len(set(ds)) == 1:
            spacing = ds[0]
        else:
            s = sorted(ds)
            med = s[len(s) // 2] if len(s) % 2 else (s[len(s) // 2 - 1] + s[len(s) // 2]) / 2
            if med != 0 and all((1 - d / med) ** 2 < Fraction(1, 1000) for d in set(ds)):
                spacing = med
    if spacing is not None:
        direction = None
    return lo, hi, spacing, direction


def ftok(x):
    return content.f64tok(float(x))


LAYOUT = ['plain']      # memory layout of the index array handed to the package (set by the streams)


def build_file(vals, dtype, user=None, window=None, routes=None, indexed=True):
    df = DLISFile(set_identifier='IDX', max_record_length=8192)
    lf = df.add_logical_file()
    lf.add_origin('O', file_set_number=1, creation_time='2020/01/01 00:00:00')
    idx = np.array([float(v) for v in vals], dtype=dtype)
    if LAYOUT[0] == 'bigendian':
        idx = idx.astype(idx.dtype.newbyteorder('>'))         # same values, the other byte order
    elif LAYOUT[0] == 'strided':
        big = np.zeros(2 * len(idx), dtype=idx.dtype)
        big[::2] = idx
        idx = big[::2]
    c0 = lf.add_channel('DEPTH', data=idx, units='m')
    c1 = lf.add_channel('X', data=np.arange(len(vals), dtype=np.float32))
    from dliswriter import AttrSetup
    kw = dict(index_type='BOREHOLE-DEPTH') if indexed else {}
    later = {}
    for k, v in (user or {}).items():
        route = (routes or {}).get(k, 'plain')
        if route == 'dict':
            kw[k] = {'value': v}
        elif route == 'setup':
            kw[k] = AttrSetup(value=v)
        elif route == 'setup-units':
            kw[k] = AttrSetup(value=v, units='m')
        elif route == 'later':
            later[k] = v
        else:
            kw[k] = v
    fr = lf.add_frame('FR', channels=[c0, c1], **kw)
    for k, v in later.items():
        getattr(fr, k).value = v
    return df


def frame_attrs(model, data):
    rep = model.ask([f"dump 8192 {cps('1')} {cps('IDX')} {hexs(data)}"])[0]
    if not rep.startswith('ok'):
        return None
    for r in filegen.parse_dump(rep):
        if r['eflr'] and r.get('set_type') == 'FRAME':
            return dict(zip([t['label'] for t in r['template']], r['objects'][0]['attrs']))
    return None


def run(tier):
    chk = Check('C13', tier)
    chk.rule = ('index channels of all 8 dtypes x value shapes (uniform increasing/decreasing incl. unsigned descending, '
                'constant, plateau, non-monotonic, nearly uniform inside/outside the tolerance, zero median, 1..5 rows) + '
                'all sequences of length <= 3 (thorough 5) over {0,1,2,5} + random; windows; user-supplied values; '
                'frames without index type; a second write with another window. Floats are dyadic (exact differences).')
    bres = build(THEOREMS)
    model = Model()
    R = rng('C13', 'index')
    tmp = tempfile.mkdtemp(prefix='verif_c13_')
    path = f'{tmp}/i.dlis'
    try:
        cases = []
        for label, vals in shapes(R, tier):
            dts = INT_DT + ['float32', 'float64'] if label != 'enum' and label != 'random' else [R.choice(INT_DT + ['float32', 'float64'])]
            for dtype in dts:
                v2, k = scale_for(dtype, vals, R)
                if dtype in INT_DT and dtype.startswith('int') and R.random() < 0.5:
                    v2 = [v - 10 for v in v2]
                if dtype in INT_DT:
                    info = np.iinfo(dtype)
                    if any(v < int(info.min) or v > int(info.max) for v in v2):
                        continue
                cases.append((label, dtype, v2, k))
        reqs = []
        for label, dtype, vals, k in cases:
            reqs.append('index ' + ','.join(str(int(v * 2 ** k)) for v in vals))
        mreps = model.ask(reqs) if bres.ok else [None] * len(cases)
        for (label, dtype, vals, k), mrep in zip(cases, mreps):
            LAYOUT[0] = R.choice(['plain', 'plain', 'bigendian', 'bigendian', 'strided'])
            case = {'dtype': dtype, 'index_values': [str(v) for v in vals], 'shape': label, 'index_array_layout': LAYOUT[0]}
            df = build_file(vals, dtype)
            LAYOUT[0] = 'plain'
            st, err = call(df.write, path, output_chunk_size=2**20)
            chk.case('index', nontrivial_key=(dtype, tuple(vals)), sample={'dtype': dtype, 'values': [float(v) for v in vals][:6],
                                                                          'shape': label, 'status': st})
            chk.count(f'{label}:{st}')
            if st != 'ok':
                chk.fail('index:write-raises', case, f'write raised {err}')
                continue
            a = frame_attrs(model, open(path, 'rb').read()) if bres.ok else None
            if a is None:
                continue
            got = {l: (a[l]['vals'], a[l]['units']) if a.get(l) else None for l in ('INDEX-MIN', 'INDEX-MAX', 'SPACING', 'DIRECTION')}
            lo, hi, sp, di = expected_stats(vals)
            want = {'INDEX-MIN': ([ftok(lo)], 'm'), 'INDEX-MAX': ([ftok(hi)], 'm'),
                    'SPACING': ([ftok(sp)], 'm') if sp is not None else None,
                    'DIRECTION': (['t' + content.hx(di)], '') if di is not None else None}
            if got != want:
                bad = [l for l in want if got[l] != want[l]]
                chk.fail('index:untruthful', case, '; '.join(f'{l}: written {got[l]}, expected {want[l]}' for l in bad))
            # the model's prediction (correspondence)
            if mrep is not None:
                f = dict(x.split('=') for x in mrep.split(' ')[1:])
                sc = Fraction(1, 2 ** k)
                msp = None if f['spacing'] == 'none' else Fraction(int(f['spacing'].split('/')[0]), 2) * sc
                pred = {'INDEX-MIN': ([ftok(int(f['min']) * sc)], 'm'), 'INDEX-MAX': ([ftok(int(f['max']) * sc)], 'm'),
                        'SPACING': ([ftok(msp)], 'm') if msp is not None else None,
                        'DIRECTION': (['t' + content.hx({'inc': 'INCREASING', 'dec': 'DECREASING'}[f['direction']])], '')
                        if f['direction'] != 'none' else None}
                if pred != got:
                    chk.disagree('index', case, str(got), str(pred))
        # NaN (and consecutive infinities) among the rows written: differences are not uniform -> no SPACING; no
        # monotonic sense -> no DIRECTION (INDEX-MIN/MAX of data containing NaN are not asserted)
        nan, inf = float('nan'), float('inf')
        for vals in ([1.0, nan, 3.0], [1.0, 2.0, nan], [nan, 2.0, 3.0, 4.0], [1.0, 2.0, 3.0, nan, 5.0], [1.0, inf, inf, 4.0],
                     [nan, nan, nan], [0.0, 1.0, nan, 3.0, 4.0, 5.0], [1.0, inf, 5.0], [0.0, inf, 1.0, 2.0], [3.0, -inf, 1.0],
                     [1.0, 2.0, inf]):
            for dtype in ('float64', 'float32'):
                for window in (None, (1, None)):
                    df = build_file(vals, dtype)
                    kw = {} if window is None else {'from_idx': window[0]}
                    st, err = call(df.write, path, output_chunk_size=2**20, **kw)
                    written = vals if window is None else vals[window[0]:]
                    case = {'dtype': dtype, 'index_values': [repr(v) for v in vals], 'from_idx': None if window is None else window[0]}
                    chk.case('nan', nontrivial_key=('nan', dtype, tuple(map(repr, vals)), window), sample={**case, 'status': st})
                    if st != 'ok' or not bres.ok:
                        continue
                    a = frame_attrs(model, open(path, 'rb').read())
                    has_nan = any(v != v or v in (inf, -inf) for v in written)
                    if a is not None and has_nan and len(written) >= 3:
                        if a.get('SPACING') is not None:
                            chk.fail('index:spacing-with-nan', case, f'SPACING written as {a["SPACING"]["vals"]} although the '
                                                                    f'index differences of the rows written are not uniform')
        # index values that are not short binary fractions (0.1 steps, measured depths): INDEX-MIN / INDEX-MAX are the
        # smallest / largest value of the rows written, exactly (a float32 value widened, not re-rounded through text)
        for _ in range(40 if tier == 'quick' else 400):
            dtype = R.choice(['float32', 'float32', 'float64'])
            n = R.choice([1, 2, 3, 5, 8])
            start = R.choice([0.1, 1000.7, 1022.2, -3.3, 1e-3, 2499.9, R.uniform(-5000, 5000)])
            step = R.choice([0.1, 0.1524, -0.1, 0.3048, R.uniform(0.01, 2.0)])
            arr = np.array([start + i * step for i in range(n)], dtype=dtype)
            if R.random() < 0.3:
                arr = arr[R.sample(range(n), n)]
            df = DLISFile(set_identifier='IDX', max_record_length=8192)
            lf = df.add_logical_file()
            lf.add_origin('O', file_set_number=1, creation_time='2020/01/01 00:00:00')
            c0 = lf.add_channel('DEPTH', data=arr, units='m')
            c1 = lf.add_channel('X', data=np.arange(n, dtype=np.float32))
            lf.add_frame('FR', channels=[c0, c1], index_type='BOREHOLE-DEPTH')
            lo_i = R.choice([None, None, 1]) if n >= 3 else None
            kw = {} if lo_i is None else {'from_idx': lo_i}
            st, err = call(df.write, path, output_chunk_size=2**20, **kw)
            written = arr if lo_i is None else arr[lo_i:]
            case = {'dtype': dtype, 'index_values': [repr(float(v)) for v in arr], 'from_idx': lo_i}
            chk.case('non-dyadic', nontrivial_key=('nd', dtype, tuple(float(v) for v in arr), lo_i), sample={**case, 'status': st})
            if st != 'ok':
                chk.fail('index:valid-index-refused', case, f'the write raises {err}')
                continue
            if not bres.ok:
                continue
            a = frame_attrs(model, open(path, 'rb').read())
            for lab, want in (('INDEX-MIN', float(written.min())), ('INDEX-MAX', float(written.max()))):
                got = a and a.get(lab)
                if got is None or got['vals'] != [ftok(want)]:
                    chk.fail('index:bounds-not-exact', case, f'{lab}: the rows written have {want!r} (as {dtype}), the file has '
                                                             f'{got and got["vals"]}')
        # a frame without index type is indexed by row number whatever its first channel looks like (several samples per
        # row included): INDEX-MIN 1, INDEX-MAX the number of rows written, SPACING 1
        for _ in range(20 if tier == 'quick' else 200):
            n, k = R.choice([1, 2, 5, 9]), R.choice([1, 2, 3, 8])
            first = np.arange(n * k, dtype=R.choice(['float32', 'int16', 'uint8'])).reshape(n, k) if k > 1 or R.random() < 0.5 \
                else np.arange(n, dtype='float64')
            df = DLISFile(set_identifier='IDX', max_record_length=8192)
            lf = df.add_logical_file()
            lf.add_origin('O', file_set_number=1, creation_time='2020/01/01 00:00:00')
            c0 = lf.add_channel('IMG', data=first)
            c1 = lf.add_channel('X', data=np.arange(n, dtype=np.float32))
            lf.add_frame('FR', channels=[c0, c1])
            lo_i = R.choice([None, 1]) if n >= 3 else None
            hi_i = R.choice([None, n - 1]) if n >= 3 else None
            kw = {}
            if lo_i is not None:
                kw['from_idx'] = lo_i
            if hi_i is not None:
                kw['to_idx'] = hi_i
            st, err = call(df.write, path, output_chunk_size=2**20, **kw)
            written = len(range(n)[slice(lo_i, hi_i)])
            case = {'first_channel_shape': list(first.shape), 'index_type': None, 'from_idx': lo_i, 'to_idx': hi_i}
            chk.case('row-number-frames', nontrivial_key=('rn', first.shape, str(first.dtype), lo_i, hi_i), sample={**case, 'status': st})
            if st != 'ok':
                chk.fail('index:valid-frame-refused', case, f'the write raises {err}')
                continue
            if not bres.ok:
                continue
            a = frame_attrs(model, open(path, 'rb').read())
            for lab, want in (('INDEX-MIN', 1), ('INDEX-MAX', written), ('SPACING', 1)):
                got = a and a.get(lab)
                if got is None or got['vals'] not in ([ftok(want)], [f'i{want}']):
                    chk.fail('index:row-number-bounds', case, f'{lab}: {written} rows are written (frame numbers 1..{written}), the '
                                                              f'file has {got and got["vals"]}')
        # user-supplied values are written unchanged
        for _ in range(80 if tier == 'quick' else 600):
            # index values never start, end or step at zero: a supplied zero differs from every derived value
            vals = [Fraction(R.randrange(3, 50)) for _ in range(R.choice([1, 3, 4]))]
            if R.random() < 0.4:
                vals = [Fraction(10 + 2 * i) for i in range(R.choice([3, 4]))]        # uniform: a spacing would be derived
            user, routes = {}, {}
            if R.random() < 0.6:
                user['index_min'] = R.choice([-5.5, 0, 0.0, 123.25])
            if R.random() < 0.6:
                user['index_max'] = R.choice([77.0, 1e6, 0, 0.0])
            if R.random() < 0.5:
                user['spacing'] = R.choice([0.5, -2.0, 7, 0, 0.0])
            if R.random() < 0.4:
                user['direction'] = R.choice(['INCREASING', 'DECREASING'])
            for k_ in user:
                routes[k_] = R.choice(['plain', 'dict', 'setup', 'later'] + (['setup-units'] if k_ != 'direction' else []))
            indexed = R.random() < 0.75
            if not indexed:
                user.pop('direction', None)
            df = build_file(vals, R.choice(['float64', 'int32', 'uint8']), user=user, routes=routes, indexed=indexed)
            st, err = call(df.write, path, output_chunk_size=2**20)
            case = {'index_values': [str(v) for v in vals], 'user_supplied': user, 'routes': routes,
                    'index_type': 'BOREHOLE-DEPTH' if indexed else None}
            chk.case('user-values', nontrivial_key=('user', tuple(vals), tuple(sorted(user.items())), tuple(sorted(routes.items())), indexed))
            if st != 'ok' or not bres.ok:
                continue
            a = frame_attrs(model, open(path, 'rb').read())
            lab = {'index_min': 'INDEX-MIN', 'index_max': 'INDEX-MAX', 'spacing': 'SPACING', 'direction': 'DIRECTION'}
            for k_, v in user.items():
                want = ['t' + content.hx(v)] if isinstance(v, str) else [ftok(v)]
                if a is None or a.get(lab[k_]) is None or a[lab[k_]]['vals'] != want:
                    chk.fail('index:user-value-changed', case, f'{lab[k_]}: supplied {v!r}, written {a and a.get(lab[k_])}')
        # windows, and a second write of the same specification with another window
        for _ in range(10 if tier == 'quick' else 100):
            n = R.choice([4, 6])
            vals = sorted({Fraction(R.randrange(0, 60)) for _ in range(n + 3)})[:n]
            if len(vals) < 3:
                continue
            dtype = R.choice(['float64', 'uint16', 'int32'])
            lo_i = R.randrange(0, len(vals) - 1)
            hi_i = R.randrange(lo_i + 1, len(vals) + 1)
            df = build_file(vals, dtype)
            st, err = call(df.write, path, output_chunk_size=2**20, from_idx=lo_i, to_idx=hi_i)
            case = {'dtype': dtype, 'index_values': [str(v) for v in vals], 'from_idx': lo_i, 'to_idx': hi_i}
            chk.case('window', nontrivial_key=('win', dtype, tuple(vals), lo_i, hi_i))
            if st != 'ok' or not bres.ok:
                if st != 'ok':
                    chk.fail('index:write-raises', case, f'write raised {err}')
                continue
            a = frame_attrs(model, open(path, 'rb').read())
            lo, hi, sp, di = expected_stats(vals[lo_i:hi_i])
            if a is None or a['INDEX-MIN']['vals'] != [ftok(lo)] or a['INDEX-MAX']['vals'] != [ftok(hi)]:
                chk.fail('index:window-bounds', case, f'INDEX-MIN/MAX written {a and a["INDEX-MIN"]}, {a and a["INDEX-MAX"]}; '
                                                      f'rows written span {lo}..{hi}')
            # second write, full range
            st2, err2 = call(df.write, path, output_chunk_size=2**20)
            if st2 == 'ok':
                a2 = frame_attrs(model, open(path, 'rb').read())
                lo2, hi2, _, _ = expected_stats(vals)
                if a2 is None or a2['INDEX-MIN']['vals'] != [ftok(lo2)] or a2['INDEX-MAX']['vals'] != [ftok(hi2)]:
                    chk.fail('rewrite:stale-derived-values', {**case, 'second_write': 'full range'},
                             f'second write (all rows {lo2}..{hi2}) still carries INDEX-MIN/MAX {a2 and a2["INDEX-MIN"]["vals"]}, '
                             f'{a2 and a2["INDEX-MAX"]["vals"]} derived at the first write')
    finally:
        shutil.rmtree(tmp, ignore_errors=True)
    return finish(chk, bres, THEOREMS,
                  partial_note='float rounding inside numpy and NaN ordering are outside the model; float data is dyadic.')
