"""C13 — frame index metadata."""
import itertools
import shutil
import tempfile
from fractions import Fraction

import numpy as np

from harness.common import Check, Model, build, finish, rng, cps, hexs
from harness import filegen, content
from harness.impl import call

from dliswriter import DLISFile

THEOREMS = ['Dlis.C13.index_min_max', 'Dlis.C13.spacing_uniform', 'Dlis.C13.spacing_present_only_if_uniform',
            'Dlis.C13.direction_sense', 'Dlis.C13.direction_only_without_spacing', 'Dlis.C13.user_values_unchanged',
            'Dlis.C13.single_row', 'Dlis.C13.index_attributes_follow_each_write', 'Dlis.C13.user_index_attributes_survive']
INT_DT = ['int8', 'int16', 'int32', 'uint8', 'uint16', 'uint32']


def shapes(R, tier):
    """index value lists (as Fractions) with a label"""
    out = []
    for n in (1, 2, 3, 5):
        out.append(('uniform-inc', [Fraction(3 + 2 * i) for i in range(n)]))
        out.append(('uniform-dec', [Fraction(9 - 2 * i) for i in range(n)]))
        out.append(('constant', [Fraction(4)] * n))
    out += [('non-monotonic', [Fraction(x) for x in (1, 5, 2, 8)]), ('increasing', [Fraction(x) for x in (1, 2, 4, 8)]),
            ('decreasing', [Fraction(x) for x in (90, 70, 60, 10)]),
            ('nearly-uniform', [Fraction(x) for x in (0, 1000, 2001, 3001)]),
            ('not-uniform-enough', [Fraction(x) for x in (0, 10, 21, 31)]),
            ('median-zero', [Fraction(x) for x in (5, 5, 5, 10)]),
            ('plateau-inc', [Fraction(x) for x in (1, 1, 2, 2, 3)])]
    alphabet = [0, 1, 2, 5]
    for n in ((2, 3) if tier == 'quick' else (2, 3, 4, 5)):
        for seq in itertools.product(alphabet, repeat=n):
            out.append(('enum', [Fraction(x) for x in seq]))
    for _ in range(150 if tier == 'quick' else 1500):
        n = R.choice([2, 3, 4, 6])
        out.append(('random', [Fraction(R.randrange(0, 200)) for _ in range(n)]))
    return out


def scale_for(dtype, vals, R):
    """map the abstract values into the dtype's domain: ints as they are (shifted for signed), floats x 2^-k"""
    if dtype in INT_DT:
        return vals, 0
    k = R.choice([0, 1, 3])
    return [v / (2 ** k) for v in vals], k


def expected_stats(vals):
    """exact arithmetic re-statement of the documented behaviour"""
    n = len(vals)
    lo, hi = min(vals), max(vals)
    ds = [b - a for a, b in zip(vals, vals[1:])]
    spacing, direction = None, None
    if ds:
        if all(d == 0 for d in ds):
            direction = None
        elif all(d >= 0 for d in ds):
            direction = 'INCREASING'
        elif all(d <= 0 for d in ds):
            direction = 'DECREASING'
        if len(set(ds)) == 1:
            spacing = ds[0]
        else:
            s = sorted(ds)
            med = s[len(s) // 2] if len(s) % 2 else (s[len(s) // 2 - 1] + s[len(s) // 2]) / 2
            if med != 0 and all((1 - d / med) ** 2 < Fraction(1, 1000) for d in set(ds)):
                spacing = med
    if spacing is not None:
        direction = None
    return lo, hi, spacing, direction


def ftok(x):
    return content.f64tok(float(x))


LAYOUT = ['plain']      # memory layout of the index array handed to the package (set by the streams)


def build_file(vals, dtype, user=None, window=None, routes=None, indexed=True):
    df = DLISFile(set_identifier='IDX', max_record_length=8192)
    lf = df.add_logical_file()
    lf.add_origin('O', file_set_number=1, creation_time='2020/01/01 00:00:00')
    idx = np.array([float(v) for v in vals], dtype=dtype)
    if LAYOUT[0] == 'bigendian':
        idx = idx.astype(idx.dtype.newbyteorder('>'))         # same values, the other byte order
    elif LAYOUT[0] == 'strided':
        big = np.zeros(2 * len(idx), dtype=idx.dtype)
        big[::2] = idx
        idx = big[::2]
    c0 = lf.add_channel('DEPTH', data=idx, units='m')
    c1 = lf.add_channel('X', data=np.arange(len(vals), dtype=np.float32))
    from dliswriter import AttrSetup
    kw = dict(index_type='BOREHOLE-DEPTH') if indexed else {}
    later = {}
    for k, v in (user or {}).items():
        route = (routes or {}).get(k, 'plain')
        if route == 'dict':
            kw[k] = {'value': v}
        elif route == 'setup':
            kw[k] = AttrSetup(value=v)
        elif route == 'setup-units':
            kw[k] = AttrSetup(value=v, units='m')
        elif route == 'later':
            later[k] = v
        else:
            kw[k] = v
    fr = lf.add_frame('FR', channels=[c0, c1], **kw)
    for k, v in later.items():
        getattr(fr, k).value = v
    return df


def frame_attrs(model, data):
    rep = model.ask([f"dump 8192 {cps('1')} {cps('IDX')} {hexs(data)}"])[0]
    if not rep.startswith('ok'):
        return None
    for r in filegen.parse_dump(rep):
        if r['eflr'] and r.get('set_type') == 'FRAME':
            return dict(zip([t['label'] for t in r['template']], r['objects'][0]['attrs']))
    return None


def frame_sequences(chk, model, bres, R, n, stream='frame-sequences'):
    """ONE frame written 2..4 times from other rows each time (data handed to write()), some writes in high-compatibility
    mode (an unevenly spaced index is refused there, after INDEX-MIN / -MAX were derived), the user assigning some of the
    index attributes before the first or a later write: the four attributes held after every attempt vs `frameSetup`
    threaded through `FrameIdx` (Model/FrameIdx.lean); oracle: what the user assigned is never replaced"""
    from dliswriter import high_compatibility_mode
    if not bres.ok:
        return
    segs = {'up': [1, 2, 4, 8, 16], 'down': [90, 70, 40, 5], 'even': [20, 22, 24, 26], 'even-down': [9, 6, 3], 'flat': [5, 5, 5],
            'one': [7], 'near': [0, 1000, 2001, 3001], 'mixed': [1, 5, 2, 8]}
    tmp = tempfile.mkdtemp(prefix='verif_fseq_')
    reqs, metas = [], []
    try:
        for i in range(n):
            indexed = R.random() < 0.8
            df = DLISFile(set_identifier='FSEQ', max_record_length=8192)
            lf = df.add_logical_file()
            lf.add_origin('O', file_set_number=1, creation_time='2020/01/01 00:00:00')
            c0 = lf.add_channel('DEPTH')
            c1 = lf.add_channel('X')
            fr = lf.add_frame('FR', channels=[c0, c1], **({'index_type': 'BOREHOLE-DEPTH'} if indexed else {}))
            parts = {'index_min': fr.index_min, 'index_max': fr.index_max, 'spacing': fr.spacing, 'direction': fr.direction}
            user = {}

            def assign(tok_list):
                for nm in ('index_min', 'index_max', 'spacing', 'direction'):
                    if R.random() < 0.12:
                        v = R.choice(['INCREASING', 'DECREASING']) if nm == 'direction' else R.choice([3, 50, -7, 1000])
                        parts[nm].value = v
                        user[nm] = v
                        tok_list.append({'INCREASING': 'inc', 'DECREASING': 'dec'}.get(v, str(2 * v if nm == 'spacing' else v)))
                    else:
                        tok_list.append(None)
            init = []
            assign(init)
            toks = ['fidx'] + [t if t is not None else '~' for t in init]
            impl, steps = [], []
            problem = None
            for k in range(R.choice([2, 2, 3, 4])):
                a = [] if k else [None] * 4
                if k:
                    assign(a)
                    if R.random() < 0.3:
                        # an assignment the library refuses leaves everything as it was
                        nm_ = R.choice(['index_min', 'index_max', 'spacing'])
                        bad_ = R.choice(['shallow', None, 'x1'])
                        st_bad, _ = call(setattr, parts[nm_], 'value', bad_)
                        steps.append({'refused_assignment': f'{nm_}.value = {bad_!r}', 'outcome': st_bad})
                        if st_bad == 'ok':
                            chk.count(f'{stream}:unexpectedly-accepted:{bad_!r}')
                            user[nm_] = parts[nm_].value
                hc = R.random() < 0.25
                name = R.choice(sorted(segs))
                xs = segs[name]
                data = {'DEPTH': np.array(xs, dtype=np.float64), 'X': np.arange(len(xs), dtype=np.float32)}

                def w():
                    if hc:
                        with high_compatibility_mode():
                            df.write(f'{tmp}/s.dlis', data=data, output_chunk_size=2**20)
                    else:
                        df.write(f'{tmp}/s.dlis', data=data, output_chunk_size=2**20)
                st, err = call(w)
                toks += ['S', '1' if hc else '0', '1' if indexed else '0', ','.join(str(x) for x in xs)] + \
                        [t if t is not None else '=' for t in a]
                steps.append({'high_compat': hc, 'rows': name, 'index_values': xs,
                              'assigned_before': {nm: user[nm] for nm, t in zip(parts, a) if t is not None}})

                def tok(nm):
                    v = parts[nm].value
                    if v is None:
                        return '~'
                    if nm == 'direction':
                        return {'INCREASING': 'inc', 'DECREASING': 'dec'}.get(getattr(v, 'value', v), '?' + str(v))
                    f = Fraction(float(v)) * (2 if nm == 'spacing' else 1)
                    return str(int(f)) if f.denominator == 1 else '?' + str(f)
                impl.append(('ok' if st == 'ok' else 'err') + ' ' + ' '.join(tok(nm) for nm in parts))
                for nm, v in user.items():
                    held = parts[nm].value
                    if getattr(held, 'value', held) != v:
                        problem = f'step {k + 1}: {nm} assigned {v!r} by the user, now {held!r}'
                if st == 'ok' and problem is None:
                    # model-free: what the user did not assign describes the rows of THIS write
                    if indexed:
                        lo, hi, sp, di = expected_stats([Fraction(x) for x in xs])
                        if 'spacing' in user:
                            di = None if sp is not None else di      # (the code looks at the data's spacing, not the user's)
                    else:
                        lo, hi, sp, di = 1, len(xs), 1, None
                    want = {'index_min': lo, 'index_max': hi, 'spacing': sp, 'direction': di}
                    for nm in parts:
                        if nm in user:
                            continue
                        held = parts[nm].value
                        held = getattr(held, 'value', held)
                        w_ = want[nm]
                        same = (held is None and w_ is None) or (held is not None and w_ is not None and
                                                                 (held == w_ if nm == 'direction' else Fraction(float(held)) == Fraction(w_)))
                        if not same:
                            problem = (f'write {k + 1} (rows {xs}): {nm} is {held!r} after the write, the rows written call for '
                                       f'{None if w_ is None else (w_ if nm == "direction" else float(w_))!r}')
                            break
            case = {'index_type': 'BOREHOLE-DEPTH' if indexed else None, 'assigned_at_creation': dict(zip(parts, init)), 'writes': steps}
            if problem:
                chk.fail(f'{stream}:user-value-replaced' if 'by the user' in problem else f'{stream}:not-derived-from-this-write',
                         case, problem)
            reqs.append(' '.join(toks))
            metas.append((case, ';'.join(impl)))
        for (case, impl), req, rep in zip(metas, reqs, model.ask(reqs)):
            chk.case(stream, nontrivial_key=hash(req), sample={'request': req[:200], 'impl': impl[:200]})
            chk.count(f"{stream}:{'refusals' if 'err' in impl else 'all-ok'}")
            if rep != impl:
                chk.disagree(stream, dict(case, request=req[:600]), impl, rep)
    finally:
        shutil.rmtree(tmp, ignore_errors=True)


def run(tier):
    chk = Check('C13', tier)
    chk.rule = ('index channels of all 8 dtypes x value shapes (uniform increasing/decreasing incl. unsigned descending, '
                'constant, plateau, non-monotonic, nearly uniform inside/outside the tolerance, zero median, 1..5 rows) + '
                'all sequences of length <= 3 (thorough 5) over {0,1,2,5} + random; windows; user-supplied values; '
                'frames without index type; a second write with another window. Floats are dyadic (exact differences).')
    bres = build(THEOREMS)
    model = Model()
    R = rng('C13', 'index')
    tmp = tempfile.mkdtemp(prefix='verif_c13_')
    path = f'{tmp}/i.dlis'
    try:
        cases = []
        for label, vals in shapes(R, tier):
            dts = INT_DT + ['float32', 'float64'] if label != 'enum' and label != 'random' else [R.choice(INT_DT + ['float32', 'float64'])]
            for dtype in dts:
                v2, k = scale_for(dtype, vals, R)
                if dtype in INT_DT and dtype.startswith('int') and R.random() < 0.5:
                    v2 = [v - 10 for v in v2]
                if dtype in INT_DT:
                    info = np.iinfo(dtype)
                    if any(v < int(info.min) or v > int(info.max) for v in v2):
                        continue
                cases.append((label, dtype, v2, k))
        reqs = []
        for label, dtype, vals, k in cases:
            reqs.append('index ' + ','.join(str(int(v * 2 ** k)) for v in vals))
        mreps = model.ask(reqs) if bres.ok else [None] * len(cases)
        for (label, dtype, vals, k), mrep in zip(cases, mreps):
            LAYOUT[0] = R.choice(['plain', 'plain', 'bigendian', 'bigendian', 'strided'])
            case = {'dtype': dtype, 'index_values': [str(v) for v in vals], 'shape': label, 'index_array_layout': LAYOUT[0]}
            df = build_file(vals, dtype)
            LAYOUT[0] = 'plain'
            st, err = call(df.write, path, output_chunk_size=2**20)
            chk.case('index', nontrivial_key=(dtype, tuple(vals)), sample={'dtype': dtype, 'values': [float(v) for v in vals][:6],
                                                                          'shape': label, 'status': st})
            chk.count(f'{label}:{st}')
            if st != 'ok':
                chk.fail('index:write-raises', case, f'write raised {err}')
                continue
            a = frame_attrs(model, open(path, 'rb').read()) if bres.ok else None
            if a is None:
                continue
            got = {l: (a[l]['vals'], a[l]['units']) if a.get(l) else None for l in ('INDEX-MIN', 'INDEX-MAX', 'SPACING', 'DIRECTION')}
            lo, hi, sp, di = expected_stats(vals)
            want = {'INDEX-MIN': ([ftok(lo)], 'm'), 'INDEX-MAX': ([ftok(hi)], 'm'),
                    'SPACING': ([ftok(sp)], 'm') if sp is not None else None,
                    'DIRECTION': (['t' + content.hx(di)], '') if di is not None else None}
            if got != want:
                bad = [l for l in want if got[l] != want[l]]
                chk.fail('index:untruthful', case, '; '.join(f'{l}: written {got[l]}, expected {want[l]}' for l in bad))
            # the model's prediction (correspondence)
            if mrep is not None:
                f = dict(x.split('=') for x in mrep.split(' ')[1:])
                sc = Fraction(1, 2 ** k)
                msp = None if f['spacing'] == 'none' else Fraction(int(f['spacing'].split('/')[0]), 2) * sc
                pred = {'INDEX-MIN': ([ftok(int(f['min']) * sc)], 'm'), 'INDEX-MAX': ([ftok(int(f['max']) * sc)], 'm'),
                        'SPACING': ([ftok(msp)], 'm') if msp is not None else None,
                        'DIRECTION': (['t' + content.hx({'inc': 'INCREASING', 'dec': 'DECREASING'}[f['direction']])], '')
                        if f['direction'] != 'none' else None}
                if pred != got:
                    chk.disagree('index', case, str(got), str(pred))
        # NaN (and consecutive infinities) among the rows written: differences are not uniform -> no SPACING; no
        # monotonic sense -> no DIRECTION (INDEX-MIN/MAX of data containing NaN are not asserted)
        nan, inf = float('nan'), float('inf')
        for vals in ([1.0, nan, 3.0], [1.0, 2.0, nan], [nan, 2.0, 3.0, 4.0], [1.0, 2.0, 3.0, nan, 5.0], [1.0, inf, inf, 4.0],
                     [nan, nan, nan], [0.0, 1.0, nan, 3.0, 4.0, 5.0], [1.0, inf, 5.0], [0.0, inf, 1.0, 2.0], [3.0, -inf, 1.0],
                     [1.0, 2.0, inf]):
            for dtype in ('float64', 'float32'):
                for window in (None, (1, None)):
                    df = build_file(vals, dtype)
                    kw = {} if window is None else {'from_idx': window[0]}
                    st, err = call(df.write, path, output_chunk_size=2**20, **kw)
                    written = vals if window is None else vals[window[0]:]
                    case = {'dtype': dtype, 'index_values': [repr(v) for v in vals], 'from_idx': None if window is None else window[0]}
                    chk.case('nan', nontrivial_key=('nan', dtype, tuple(map(repr, vals)), window), sample={**case, 'status': st})
                    if st != 'ok' or not bres.ok:
                        continue
                    a = frame_attrs(model, open(path, 'rb').read())
                    has_nan = any(v != v or v in (inf, -inf) for v in written)
                    if a is not None and has_nan and len(written) >= 3:
                        if a.get('SPACING') is not None:
                            chk.fail('index:spacing-with-nan', case, f'SPACING written as {a["SPACING"]["vals"]} although the '
                                                                    f'index differences of the rows written are not uniform')
        # index values that are not short binary fractions (0.1 steps, measured depths): INDEX-MIN / INDEX-MAX are the
        # smallest / largest value of the rows written, exactly (a float32 value widened, not re-rounded through text)
        for _ in range(40 if tier == 'quick' else 400):
            dtype = R.choice(['float32', 'float32', 'float64'])
            n = R.choice([1, 2, 3, 5, 8])
            start = R.choice([0.1, 1000.7, 1022.2, -3.3, 1e-3, 2499.9, R.uniform(-5000, 5000)])
            step = R.choice([0.1, 0.1524, -0.1, 0.3048, R.uniform(0.01, 2.0)])
            arr = np.array([start + i * step for i in range(n)], dtype=dtype)
            if R.random() < 0.3:
                arr = arr[R.sample(range(n), n)]
            df = DLISFile(set_identifier='IDX', max_record_length=8192)
            lf = df.add_logical_file()
            lf.add_origin('O', file_set_number=1, creation_time='2020/01/01 00:00:00')
            c0 = lf.add_channel('DEPTH', data=arr, units='m')
            c1 = lf.add_channel('X', data=np.arange(n, dtype=np.float32))
            lf.add_frame('FR', channels=[c0, c1], index_type='BOREHOLE-DEPTH')
            lo_i = R.choice([None, None, 1]) if n >= 3 else None
            kw = {} if lo_i is None else {'from_idx': lo_i}
            st, err = call(df.write, path, output_chunk_size=2**20, **kw)
            written = arr if lo_i is None else arr[lo_i:]
            case = {'dtype': dtype, 'index_values': [repr(float(v)) for v in arr], 'from_idx': lo_i}
            chk.case('non-dyadic', nontrivial_key=('nd', dtype, tuple(float(v) for v in arr), lo_i), sample={**case, 'status': st})
            if st != 'ok':
                chk.fail('index:valid-index-refused', case, f'the write raises {err}')
                continue
            if not bres.ok:
                continue
            a = frame_attrs(model, open(path, 'rb').read())
            for lab, want in (('INDEX-MIN', float(written.min())), ('INDEX-MAX', float(written.max()))):
                got = a and a.get(lab)
                if got is None or got['vals'] != [ftok(want)]:
                    chk.fail('index:bounds-not-exact', case, f'{lab}: the rows written have {want!r} (as {dtype}), the file has '
                                                             f'{got and got["vals"]}')
        # a frame without index type is indexed by row number whatever its first channel looks like (several samples per
        # row included): INDEX-MIN 1, INDEX-MAX the number of rows written, SPACING 1
        for _ in range(20 if tier == 'quick' else 200):
            n, k = R.choice([1, 2, 5, 9]), R.choice([1, 2, 3, 8])
            first = np.arange(n * k, dtype=R.choice(['float32', 'int16', 'uint8'])).reshape(n, k) if k > 1 or R.random() < 0.5 \
                else np.arange(n, dtype='float64')
            df = DLISFile(set_identifier='IDX', max_record_length=8192)
            lf = df.add_logical_file()
            lf.add_origin('O', file_set_number=1, creation_time='2020/01/01 00:00:00')
            c0 = lf.add_channel('IMG', data=first)
            c1 = lf.add_channel('X', data=np.arange(n, dtype=np.float32))
            lf.add_frame('FR', channels=[c0, c1])
            lo_i = R.choice([None, 1]) if n >= 3 else None
            hi_i = R.choice([None, n - 1]) if n >= 3 else None
            kw = {}
            if lo_i is not None:
                kw['from_idx'] = lo_i
            if hi_i is not None:
                kw['to_idx'] = hi_i
            st, err = call(df.write, path, output_chunk_size=2**20, **kw)
            written = len(range(n)[slice(lo_i, hi_i)])
            case = {'first_channel_shape': list(first.shape), 'index_type': None, 'from_idx': lo_i, 'to_idx': hi_i}
            chk.case('row-number-frames', nontrivial_key=('rn', first.shape, str(first.dtype), lo_i, hi_i), sample={**case, 'status': st})
            if st != 'ok':
                chk.fail('index:valid-frame-refused', case, f'the write raises {err}')
                continue
            if not bres.ok:
                continue
            a = frame_attrs(model, open(path, 'rb').read())
            for lab, want in (('INDEX-MIN', 1), ('INDEX-MAX', written), ('SPACING', 1)):
                got = a and a.get(lab)
                if got is None or got['vals'] not in ([ftok(want)], [f'i{want}']):
                    chk.fail('index:row-number-bounds', case, f'{lab}: {written} rows are written (frame numbers 1..{written}), the '
                                                              f'file has {got and got["vals"]}')
        # user-supplied values are written unchanged
        for _ in range(80 if tier == 'quick' else 600):
            # index values never start, end or step at zero: a supplied zero differs from every derived value
            vals = [Fraction(R.randrange(3, 50)) for _ in range(R.choice([1, 3, 4]))]
            if R.random() < 0.4:
                vals = [Fraction(10 + 2 * i) for i in range(R.choice([3, 4]))]        # uniform: a spacing would be derived
            user, routes = {}, {}
            if R.random() < 0.6:
                user['index_min'] = R.choice([-5.5, 0, 0.0, 123.25])
            if R.random() < 0.6:
                user['index_max'] = R.choice([77.0, 1e6, 0, 0.0])
            if R.random() < 0.5:
                user['spacing'] = R.choice([0.5, -2.0, 7, 0, 0.0])
            if R.random() < 0.4:
                user['direction'] = R.choice(['INCREASING', 'DECREASING'])
            for k_ in user:
                routes[k_] = R.choice(['plain', 'dict', 'setup', 'later'] + (['setup-units'] if k_ != 'direction' else []))
            indexed = R.random() < 0.75
            if not indexed:
                user.pop('direction', None)
            df = build_file(vals, R.choice(['float64', 'int32', 'uint8']), user=user, routes=routes, indexed=indexed)
            st, err = call(df.write, path, output_chunk_size=2**20)
            case = {'index_values': [str(v) for v in vals], 'user_supplied': user, 'routes': routes,
                    'index_type': 'BOREHOLE-DEPTH' if indexed else None}
            chk.case('user-values', nontrivial_key=('user', tuple(vals), tuple(sorted(user.items())), tuple(sorted(routes.items())), indexed))
            if st != 'ok' or not bres.ok:
                continue
            a = frame_attrs(model, open(path, 'rb').read())
            lab = {'index_min': 'INDEX-MIN', 'index_max': 'INDEX-MAX', 'spacing': 'SPACING', 'direction': 'DIRECTION'}
            for k_, v in user.items():
                want = ['t' + content.hx(v)] if isinstance(v, str) else [ftok(v)]
                if a is None or a.get(lab[k_]) is None or a[lab[k_]]['vals'] != want:
                    chk.fail('index:user-value-changed', case, f'{lab[k_]}: supplied {v!r}, written {a and a.get(lab[k_])}')
        # windows, and a second write of the same specification with another window
        for _ in range(10 if tier == 'quick' else 100):
            n = R.choice([4, 6])
            vals = sorted({Fraction(R.randrange(0, 60)) for _ in range(n + 3)})[:n]
            if len(vals) < 3:
                continue
            dtype = R.choice(['float64', 'uint16', 'int32'])
            lo_i = R.randrange(0, len(vals) - 1)
            hi_i = R.randrange(lo_i + 1, len(vals) + 1)
            df = build_file(vals, dtype)
            st, err = call(df.write, path, output_chunk_size=2**20, from_idx=lo_i, to_idx=hi_i)
            case = {'dtype': dtype, 'index_values': [str(v) for v in vals], 'from_idx': lo_i, 'to_idx': hi_i}
            chk.case('window', nontrivial_key=('win', dtype, tuple(vals), lo_i, hi_i))
            if st != 'ok' or not bres.ok:
                if st != 'ok':
                    chk.fail('index:write-raises', case, f'write raised {err}')
                continue
            a = frame_attrs(model, open(path, 'rb').read())
            lo, hi, sp, di = expected_stats(vals[lo_i:hi_i])
            if a is None or a['INDEX-MIN']['vals'] != [ftok(lo)] or a['INDEX-MAX']['vals'] != [ftok(hi)]:
                chk.fail('index:window-bounds', case, f'INDEX-MIN/MAX written {a and a["INDEX-MIN"]}, {a and a["INDEX-MAX"]}; '
                                                      f'rows written span {lo}..{hi}')
            # second write, full range
            st2, err2 = call(df.write, path, output_chunk_size=2**20)
            if st2 == 'ok':
                a2 = frame_attrs(model, open(path, 'rb').read())
                lo2, hi2, _, _ = expected_stats(vals)
                if a2 is None or a2['INDEX-MIN']['vals'] != [ftok(lo2)] or a2['INDEX-MAX']['vals'] != [ftok(hi2)]:
                    chk.fail('rewrite:stale-derived-values', {**case, 'second_write': 'full range'},
                             f'second write (all rows {lo2}..{hi2}) still carries INDEX-MIN/MAX {a2 and a2["INDEX-MIN"]["vals"]}, '
                             f'{a2 and a2["INDEX-MAX"]["vals"]} derived at the first write')
        frame_sequences(chk, model, bres, rng('C13', 'frame-sequences'), 120 if tier == 'quick' else 1200)
    finally:
        shutil.rmtree(tmp, ignore_errors=True)
    return finish(chk, bres, THEOREMS,
                  partial_note='float rounding inside numpy and NaN ordering are outside the model; float data is dyadic.')
