"""C01 / C02 / C15 — framing layer.  One runner, parameterised by property (they share streams but differ in
the oracle that turns an implementation output into a verdict)."""
import os
import tempfile
import shutil

from harness.common import Check, Model, build, finish, rng, hexs, cps, unhex
from harness import l1
from harness.impl import call

THEOREMS = {
    'C01': ['Dlis.C01.layout_wellformed', 'Dlis.C01.layout_explicit', 'Dlis.C01.label_fields',
            'Dlis.C01.readSegs_frameFile', 'Dlis.Obligations.sul_constants', 'Dlis.Obligations.segWeights_eq'],
    'C02': ['Dlis.C02.segmentation_lossless', 'Dlis.C02.frameRecs_append', 'Dlis.C02.flags_bracketed',
            'Dlis.Obligations.eflrTypes_eq', 'Dlis.Obligations.iflrTypes_eq'],
    'C15': ['Dlis.C15.framing_total', 'Dlis.C15.framing_fails_iff', 'Dlis.C15.framing_faithful',
            'Dlis.C15.capacity_progress'],
}


def run_l1(prop, tier, chk, model, bres):
    R = rng(prop, 'l1')
    tmp = tempfile.mkdtemp(prefix='verif_l1_')
    try:
        # ---- stream (a): make_segments over the (capacity, length) window
        reqs, cases = [], []
        for cap, L in l1.seg_window(tier):
            e = bool((cap + L) % 2)
            ty = (cap * 7 + L) % 12
            body = l1.body_of(R, L)
            reqs.append(f'segs {cap} {1 if e else 0} {ty} {hexs(body)}')
            cases.append((cap, L, e, ty, body))
        replies = model.ask(reqs) if bres.ok else [None] * len(reqs)
        for (cap, L, e, ty, body), req, mrep in zip(cases, reqs, replies):
            st, out = l1.impl_segments(cap, e, ty, body)
            irep = ('ok ' + ','.join(s.hex() for s in out)) if st == 'ok' else 'err'
            mnorm = None if mrep is None else (mrep if mrep.startswith('ok') else 'err')
            branch = 'refused' if cap < 12 else ('short' if 0 < L < 12 else 'single' if L <= cap else
                                                   'shorten' if 0 < (L % cap) < 12 else 'exact' if L % cap == 0 else 'multi')
            chk.case('segments', nontrivial_key=(cap, L), sample={'cap': cap, 'L': L, 'impl': irep[:60]})
            chk.count(f'segments:{branch}:{"odd" if L % 2 else "even"}')
            if mnorm is not None and mnorm != irep:
                chk.disagree('segments', {'cap': cap, 'L': L, 'eflr': e, 'type': ty, 'body': hexs(body)[:200]},
                             irep, mrep)
            # oracle (writability, C15): a capacity the validity check lets through must be usable for any length
            if prop == 'C15' and 12 <= cap and cap % 2 == 0 and st != 'ok':
                chk.fail('segments:raises-on-size', {'capacity': cap, 'max_record_length': cap + 8,
                                                     'body_length': L},
                         f'make_segments({cap}) raised {out} for a {L}-byte body')
        # ---- stream (b): StorageUnitLabel + DLISWriter with synthetic records
        n_files = 600 if tier == 'quick' else 4000
        freqs, fcases = [], []
        for i in range(n_files):
            if i < 40 or R.random() < 0.5:
                vrl = R.choice([20, 22, 24, 26, 28, 30, 32, 34, 40, 64, 100, 256])
            else:
                vrl = R.choice([R.randrange(20, 400, 2), 8192, 16384, 1024, R.randrange(20, 16385, 2)])
            if R.random() < 0.08:
                vrl = R.choice([18, 19, 21, 16386, 0, 33])          # rejected by the validity check
            cap = max(vrl - 8, 1)
            nrec = R.choice([0, 1, 1, 2, 3, 6])
            recs = []
            for _ in range(nrec):
                L = R.choice([0, 1, 2, 5, 11, 12, 13, cap - 1, cap, cap + 1, cap + 11, cap + 12, cap + 13, 2 * cap,
                              2 * cap + 1, 3 * cap + 5, R.randrange(0, 4 * cap + 2)])
                L = max(0, min(L, 40000))
                recs.append((R.random() < 0.5, R.randrange(0, 12), l1.body_of(R, L)))
            seq = R.choice([1, 1, 2, 9999, 10000, 0, -5, R.randrange(1, 9999)])
            setid = R.choice(['MAIN-STORAGE-UNIT', '', 'X' * 60, 'Y' * 61, 'set id with spaces', 'naïve', 'A'])
            fcases.append((vrl, seq, setid, recs))
            freqs.append(l1.file_req(vrl, seq, setid, recs))
        replies = model.ask(freqs) if bres.ok else [None] * len(freqs)
        rd = []
        rd_cases = []
        for (vrl, seq, setid, recs), req, mrep in zip(fcases, freqs, replies):
            st, data, total = l1.impl_file(tmp, vrl, seq, setid, recs)
            irep = ('ok ' + hexs(data)) if st == 'ok' else 'err'
            mnorm = None if mrep is None else (mrep if mrep.startswith('ok') else 'err')
            sizes = [len(b) for _, _, b in recs]
            chk.case('file', nontrivial_key=(vrl, seq, setid, tuple(sizes)),
                     sample={'vrl': vrl, 'seq': seq, 'set_id': setid, 'body_sizes': sizes, 'impl': irep[:40]})
            chk.count(f'file:{"ok" if st == "ok" else "err"}')
            case = {'max_record_length': vrl, 'sul_sequence_number': seq, 'set_identifier': setid,
                    'records': [[e, t, hexs(b)[:400]] for e, t, b in recs], 'body_sizes': sizes}
            if mnorm is not None and mnorm != irep:
                chk.disagree('file', case, irep, mrep)
            label_ok = len(str(seq)) <= 4 and len(setid) <= 60 and setid.isascii()
            vrl_ok = 20 <= vrl <= 16384 and vrl % 2 == 0
            if st == 'ok':
                rd.append(l1.read_req('readsegs' if prop == 'C01' else 'read', vrl, seq, setid, data))
                rd_cases.append((case, recs, data))
            elif prop == 'C15' and label_ok and vrl_ok:
                chk.fail('file:raises-on-size', case, f'write raised {data} although the record length passes the '
                                                      f'validity check and the label fields fit')
        if bres.ok:
            for (case, recs, data), rep in zip(rd_cases, model.ask(rd)):
                if prop == 'C01':
                    if not rep.startswith('ok'):
                        chk.fail('file:malformed-layout', case, 'strict physical reader rejects the output file')
                else:
                    want = l1.show_recs(recs)
                    if rep != want:
                        chk.fail('file:records-differ', case,
                                 f'reassembled records {rep[:200]!r} differ from the records given {want[:200]!r}')
    finally:
        shutil.rmtree(tmp, ignore_errors=True)


def real_record_stream(prop, tier, chk, model, bres):
    """real record objects handed to DLISWriter.write_logical_records, among them records of classes derived from the
    library's concrete record classes with a record type of their own (an end-of-data record as a payload-less no-format
    record of type 127; a user-defined set type), made after their parent classes were first used: the file carries,
    per record, the flag and type of the record's own class and its body"""
    if not bres.ok:
        return
    import numpy as np
    from dliswriter.logical_record import eflr_types as T
    from dliswriter.logical_record.iflr_types.no_format_frame_data import NoFormatFrameData
    from dliswriter.utils.internal.internal_enums import IFLRType, EFLRType
    from harness import l1 as _l1
    from harness.impl import wr
    from dliswriter.logical_record.misc.storage_unit_label import StorageUnitLabel
    R = rng(prop, 'real-records')

    from enum import IntEnum

    class OwnType(IntEnum):
        EOD = 127

    class EndOfData(NoFormatFrameData):
        logical_record_type = OwnType.EOD

    class PrivateAxisSet(T.AxisSet):
        logical_record_type = EFLRType.UDI

    tmp = tempfile.mkdtemp(prefix='verif_rr_')
    try:
        for i in range(12 if tier == 'quick' else 100):
            vrl = R.choice([64, 128, 8192])
            nfs = T.NoFormatSet()
            nf = T.NoFormatItem('NF', parent=nfs, origin_reference=1)
            axs = T.AxisSet()
            T.AxisItem('AX', parent=axs, origin_reference=1, axis_id='A')
            pax = PrivateAxisSet()
            T.AxisItem('PX', parent=pax, origin_reference=1, axis_id='P')
            recs = [nfs, axs, NoFormatFrameData(nf, bytes(R.randrange(256) for _ in range(R.choice([0, 3, 200])))), pax,
                    NoFormatFrameData(nf, b'second'), EndOfData(nf, b'')]
            if R.random() < 0.5:
                recs.insert(3, EndOfData(nf, b'x'))
            want = []
            for r_ in recs:
                body = bytes(r_._make_body_bytes())
                want.append((bool(r_.is_eflr), int(type(r_).logical_record_type.value), body))
            fn = f'{tmp}/rr.dlis'

            def f():
                w = wr.DLISWriter(fn, visible_record_length=vrl)
                w.write_storage_unit_label(StorageUnitLabel('REAL', 1, vrl))
                w.write_logical_records(recs, output_chunk_size=1 << 20)
            st, err = call(f)
            case = {'max_record_length': vrl, 'records': [f'{type(r_).__name__} (a {type(r_).__mro__[1].__name__}) declared type '
                                                          f'{int(type(r_).logical_record_type.value)}' for r_ in recs]}
            chk.case('real-records', nontrivial_key=('rr', i), sample={'vrl': vrl, 'n': len(recs), 'status': st})
            if st != 'ok':
                chk.fail('real-records:raises', case, f'write raised {err}')
                continue
            rep = model.ask([_l1.read_req('read', vrl, 1, 'REAL', open(fn, 'rb').read())])[0]
            if rep != _l1.show_recs(want):
                chk.fail('real-records:records-differ', case, f'read back {rep[:160]!r}, handed in {_l1.show_recs(want)[:160]!r}')
    finally:
        shutil.rmtree(tmp, ignore_errors=True)


def wide_rows_stream(tier, chk):
    """writability does not depend on how wide a frame row is: rows of 64 KiB .. 2 MiB + 3 bytes (one multi-sample channel,
    two rows), with and without an explicit input chunk size; the file must be at least as long as the rows it holds"""
    import numpy as np
    from dliswriter import DLISFile
    tmp = tempfile.mkdtemp(prefix='verif_wide_')
    try:
        widths = [65536, 1048576, 1048577, 2097155] if tier == 'quick' else [65536, 131072, 1048575, 1048576, 1048577, 1048584, 2097155]
        for w in widths:
            for dt, div in (('uint8', 1), ('float64', 8)):
                k = max(w // div, 1)
                for ic in (None, 1):
                    fn = f'{tmp}/wide.dlis'

                    def go():
                        df = DLISFile(set_identifier='WIDE', max_record_length=16384)
                        lf = df.add_logical_file()
                        lf.add_origin('O', file_set_number=1, creation_time='2020/01/01 00:00:00')
                        data = (np.arange(2 * k) % 251).astype(dt).reshape(2, k)
                        ch = lf.add_channel('IMG', data=data)
                        lf.add_frame('F', channels=[ch])
                        df.write(fn, output_chunk_size=2**22, input_chunk_size=ic)
                    st, err = call(go)
                    case = {'row_bytes': k * div, 'dtype': dt, 'samples_per_row': k, 'rows': 2, 'input_chunk_size': ic}
                    chk.case('wide-rows', nontrivial_key=('wide', w, dt, ic), sample=dict(case, status=st if st == 'ok' else err))
                    if st != 'ok':
                        chk.fail('wide-rows:valid-spec-not-writable', case, f'write raised {err}')
                        continue
                    size = os.path.getsize(fn)
                    if size < 2 * k * div:
                        chk.fail('wide-rows:rows-missing', case, f'the file has {size} bytes, the two rows alone take {2 * k * div}')
    finally:
        shutil.rmtree(tmp, ignore_errors=True)


def run_prop(prop, tier):
    chk = Check(prop, tier)
    chk.rule = ('(a) exhaustive (capacity, body length) window through the real make_segments: capacities 12..40 '
                '(thorough 12..64) x lengths 0..4*cap+40 and windows k*cap+-14 for large capacities; (b) random '
                'record lists through the real StorageUnitLabel+DLISWriter at small/large/invalid record lengths, '
                'body lengths at every branch boundary; (c) whole DLISFile.write() runs, file bytes vs the model '
                'applied to the tapped records. Distinct by (capacity, length) / (vrl, label, body sizes).')
    th = THEOREMS[prop]
    bres = build(th)
    model = Model()
    run_l1(prop, tier, chk, model, bres)
    if prop == 'C02':
        real_record_stream(prop, tier, chk, model, bres)
    if prop == 'C15':
        wide_rows_stream(tier, chk)
    try:
        from harness import filegen
        filegen.run_framing_stream(prop, tier, chk, model, bres)
    except ImportError:
        chk.notes.append('whole-file stream not available in this revision')
    # the label (sequence number, set identifier), file headers and objects changed after a first write, then the same
    # DLISFile written again: the second file is read by the strict physical reader configured with the *new* label
    from harness import wholefile as wf
    for r in wf.rewrite_runs(prop, tier, model, bres, chk, 40, 300):
        if bres.ok:
            wf.oracle_readable(r, chk, prop.lower() + '-rewrite')
    return finish(chk, bres, th,
                  partial_note='Theorems are about frameFile/readFile of the Lean model; the tie to the code is the '
                               'correspondence of make_segments, DLISWriter and whole writes with the model.')


def run(tier):
    return run_prop('C02', tier)
