"""C07 / C09 / C18 / C20 — identity, order, isolation, rejected calls: histories of add_* calls on the real API vs
the Lean state machine, + oracles on the decoded file, + (C07, C09) the whole-file content stream."""
import shutil
import tempfile

from harness.common import Check, Model, build, finish, rng, cps, hexs
from harness import history as H, filegen, content, wholefile as wf
from harness.impl import call, Taps

CFG = {
    'C07': dict(theorems=['Dlis.C07.copy_unique_reachable', 'Dlis.C07.reference_bytes', 'Dlis.C07.objref_bytes',
                          'Dlis.C07.origin_backfilled', 'Dlis.C07.origin_choice', 'Dlis.run_invariants',
                          'Dlis.C07.accepted_references_resolve', 'Dlis.C07.foreign_reference_refused',
                          'Dlis.C07.own_references_accepted', 'Dlis.C07.frame_channels_registered',
                          'Dlis.checkObjects_follows_order', 'Dlis.Obligations.checkOrder_eq', 'Dlis.Obligations.writeSteps_eq',
                          'Dlis.C18.logical_files_isolated']),
    'C09': dict(theorems=['Dlis.C09.generator_shape', 'Dlis.C09.header_fields', 'Dlis.C09.defining_origin_first',
                          'Dlis.C04.empty_set_no_record', 'Dlis.C04.fileHeader_parses', 'Dlis.run_invariants',
                          'Dlis.Obligations.eflrTypes_eq']),
    'C18': dict(theorems=['Dlis.C18.logical_files_isolated', 'Dlis.C18.shared_set_rejected',
                          'Dlis.C18.frames_independent', 'Dlis.C18.reference_closure_isolated',
                          'Dlis.C07.foreign_reference_refused', 'Dlis.run_invariants']),
    'C20': dict(theorems=['Dlis.C20.rejected_call_is_identity', 'Dlis.C20.rejected_leaves_objects',
                          'Dlis.C20.later_copy_numbers_unaffected', 'Dlis.C20.history_without_rejected_calls',
                          'Dlis.C20.later_files_unaffected', 'Dlis.C20.refused_check_leaves_assignment',
                          'Dlis.C20.refused_setup_leaves_assignment',
                          'Dlis.C20.dataset_names_unaffected',
                          'Dlis.C20.dataset_name_fresh', 'Dlis.run_invariants']),
}
RULE = ('histories of 3..14 add_* calls over 1..3 logical files: 11 object types + origins, repeated names, explicit '
        'origin references (0, 5, 128), default / shared / per-file set names, rejected calls before (non-str name) and '
        'after (refused attribute value) the object registers itself, origin first or late; then a channel and a frame '
        'per logical file and a write. Compared with the Lean state machine: every live object\'s (origin, copy), '
        'header origins, registry order, writability, emitted set records. Distinct by history.')


def decoded_inventory(recs):
    """per logical file: list of (set type, set name, [(name, origin, copy)]) in file order"""
    out = []
    for lf in content.split_logical_files(recs):
        sets = []
        for r in lf:
            if r['eflr'] and not r.get('undecodable') and r['set_type'] != 'FILE-HEADER':
                sets.append((r['set_type'], r['set_name'], [(o['name'], o['origin'], o['copy']) for o in r['objects']]))
        out.append(sets)
    return out


def run_prop(prop, tier):
    cfg = CFG[prop]
    chk = Check(prop, tier)
    chk.rule = RULE
    bres = build(cfg['theorems'])
    model = Model()
    R = rng(prop, 'histories')
    n = 700 if tier == 'quick' else 5000
    hists = [H.gen_history(R, tier) for _ in range(n)]
    for h in hists:
        if any('oref_of' in o for o in h['ops']):
            H.apply_history(h)          # resolves the origin references the user reads off origin objects
    mreps = model.ask([H.hist_req(h) for h in hists]) if bres.ok else [None] * n
    tmp = tempfile.mkdtemp(prefix='verif_hist_')
    try:
        dump_reqs, dump_meta = [], []
        for i, (h, mrep) in enumerate(zip(hists, mreps)):
            case = {'index': i, 'history': h}
            df, lfs, live, outcomes = H.apply_history(h)
            want_out = ['ok' if o['out'] == 'ok' else 'err' for o in h['ops']]
            nrej = sum(1 for o in h['ops'] if o['out'] != 'ok')
            chk.case('histories', nontrivial_key=i, sample={'n_lf': h['n_lf'], 'ops': len(h['ops']), 'rejected': nrej,
                                                             'first_ops': [H.op_token(o) for o in h['ops'][:4]]})
            chk.count(f'lf:{h["n_lf"]}')
            chk.count(f'rejected-calls:{min(nrej, 3)}')
            # per-op outcome: a call the generator made invalid must raise, a valid one must not
            # (an explicit origin reference that is already taken is a legitimate RuntimeError)
            items, rows = H.impl_state(df, lfs, live)
            path = f'{tmp}/h.dlis'
            st, err = call(df.write, path, output_chunk_size=2**20)
            chk.count(f'write:{st}')
            if mrep is not None:
                m = H.parse_model(mrep)
                iw = (st == 'ok')
                if m['items'] != items:
                    chk.disagree('histories:objects', case, items, m['items'])
                elif [r[0] for r in rows] != [l['hdr'] for l in m['lfs']]:
                    chk.disagree('histories:header-origin', case, str([r[0] for r in rows]), str([l['hdr'] for l in m['lfs']]))
                elif [','.join(r[1]) for r in rows] != [','.join(l['keys']) for l in m['lfs']]:
                    chk.disagree('histories:registry', case, str([r[1] for r in rows]), str([l['keys'] for l in m['lfs']]))
                elif m['writable'] != iw:
                    chk.disagree('histories:writable', case, f'write {st} {err}', f'model writable={m["writable"]}')
            if st == 'ok':
                data = open(path, 'rb').read()
                dump_reqs.append(f"dump 8192 {cps('1')} {cps('HIST')} {hexs(data)}")
                dump_meta.append((i, h, case, live, mrep))
            else:
                # oracle C18: a history whose logical files never touch the same set key and which has an origin
                # in every logical file must be writable
                pass
        if bres.ok:
            for (i, h, case, live, mrep), rep in zip(dump_meta, model.ask(dump_reqs)):
                if not rep.startswith('ok'):
                    chk.fail('histories:unreadable', case, 'strict reader rejects the file')
                    continue
                recs = filegen.parse_dump(rep)
                inv = decoded_inventory(recs)
                oracle(prop, chk, case, h, inv, recs, live)
                # model's emitted records vs the file's
                m = H.parse_model(mrep)
                want = []
                for lf in m['lfs']:
                    sets = []
                    for rtxt in (lf['recs'].split(';') if lf['recs'] else []):
                        key, _, its = rtxt.partition('=')
                        sets.append((key, [tuple(x.split('/')[:3]) for x in its.split('+')]))
                    want.append(sets)
                got = [[(f"{H.KIDX[filegen.SETTYPE_KIND[st]]}:{'~' if sn is None else cps(sn)}",
                         [(cps(n), str(o), str(c)) for (n, o, c) in objs]) for (st, sn, objs) in sets] for sets in inv]
                if got != want:
                    chk.disagree('histories:records', case, str(got)[:3000], str(want)[:3000])
        if prop == 'C20':
            run_c20_oracle(chk, hists, tmp, model, bres)
            c20_data_stream(chk, tier, tmp)
            c20_failed_write_stream(chk, tier, tmp)
            wf.refused_then_corrected('C20', tier, model, bres, chk, 30, 300)
            dataset_name_stream(chk, model, bres, tier)
            from harness import defaults as _defaults
            _defaults.sequence_stream(chk, model, bres, rng('C20', 'dimension-sequences'), 150 if tier == 'quick' else 1500)
            from harness.props import c13 as _c13
            _c13.frame_sequences(chk, model, bres, rng('C20', 'frame-sequences'), 100 if tier == 'quick' else 1000)
        if chk.disagreements and not chk.failures and bres.ok:
            # failing-input search: the correspondence is broken; look for a concrete history on which the
            # property itself fails, over a much larger set of histories (oracles only)
            chk.notes.append('correspondence broken: widened failing-input search over %d more histories' % (8 * n))
            extra = [H.gen_history(R, tier) for _ in range(8 * n)]
            reqs2, meta2 = [], []
            for j, h in enumerate(extra):
                df, lfs, live, outcomes = H.apply_history(h)
                path = f'{tmp}/s.dlis'
                st, err = call(df.write, path, output_chunk_size=2**20)
                if st == 'ok':
                    reqs2.append(f"dump 8192 {cps('1')} {cps('HIST')} {hexs(open(path, 'rb').read())}")
                    meta2.append(({'index': n + j, 'history': h}, h, live))
            for (case, h, live), rep in zip(meta2, model.ask(reqs2)):
                if rep.startswith('ok'):
                    recs = filegen.parse_dump(rep)
                    oracle(prop, chk, case, h, decoded_inventory(recs), recs, live)
            if prop == 'C20' and not chk.failures:
                run_c20_oracle(chk, extra[:2 * n], tmp, model, bres)
    finally:
        shutil.rmtree(tmp, ignore_errors=True)
    if prop in ('C07', 'C09'):
        specs = list(wf.generate(prop, tier, 200, 1500))
        runs = wf.execute(specs, model, bres, chk)
        for r in runs:
            chk.case('whole-file', nontrivial_key=('wf', r.index) if r.res['status'] == 'ok' else None,
                     sample=wf.sample_of(r))
            if r.res['status'] == 'ok' and bres.ok and wf.oracle_readable(r, chk, prop.lower()):
                if prop == 'C07':
                    oracle_references(chk, r)
                    wf.oracle_fidelity(r, chk, references_only=True)
                else:
                    oracle_order_whole(chk, r)
    if prop == 'C18':
        # whole files with 2..3 logical files, every data source kind (one structured array / HDF5 file / dict shared by
        # all frames of all logical files): each logical file must decode to its own objects and its own rows
        R18 = rng('C18', 'whole-file')
        n18 = 120 if tier == 'quick' else 1000
        specs = [(i, filegen.gen_spec(R18, n_lf=R18.choice([2, 2, 3]), small=(i % 2 == 0))) for i in range(n18)]
        runs = wf.execute(specs, model, bres, chk)
        good = []
        for r in runs:
            chk.case('whole-file', nontrivial_key=('wf', r.index) if r.res['status'] == 'ok' else None, sample=wf.sample_of(r))
            if r.res['status'] == 'ok' and bres.ok and wf.oracle_readable(r, chk, 'c18'):
                wf.oracle_fidelity(r, chk)
                good.append(r)
        wf.run_frames_oracle(good, model, bres, chk)
        wf.run_noformat_oracle(good, model, bres, chk)
        # ... and after objects of one logical file were renamed / re-referenced and the file written again
        rr = [r for r in wf.rewrite_runs(prop, tier, model, bres, chk, 40, 400)
              if bres.ok and wf.oracle_readable(r, chk, 'c18-rewrite')]
        before = len(chk.failures)
        for r in rr:
            wf.oracle_fidelity(r, chk)
        wf.run_frames_oracle(rr, model, bres, chk)
        wf.run_noformat_oracle(rr, model, bres, chk)
        for f in chk.failures[before:]:
            f['key'] = 'rewrite:' + f['key']
    if prop == 'C18':
        # logical files whose channels were given their data at creation under the SAME data set names, plus a dict handed
        # to write() (an unused extra data set, or data for a channel of one logical file only): every logical file is
        # written from its own data; without an overriding entry the file is the one written without the dict
        import numpy as np
        from dliswriter import DLISFile
        R18b = rng('C18', 'same-dataset-names')
        tmpd = tempfile.mkdtemp(prefix='verif_c18d_')
        try:
            for i in range(10 if tier == 'quick' else 80):
                n_lf = R18b.choice([2, 3])
                rows = [R18b.choice([3, 5, 6]) for _ in range(n_lf)] if R18b.random() < 0.5 else [4] * n_lf

                def make():
                    df = DLISFile(set_identifier='SAMEDS')
                    for k in range(n_lf):
                        lf = df.add_logical_file(fh_id=f'LF{k}', fh_sequence_number=k + 1)
                        lf.add_origin(f'O{k}', set_name=f'S{k}', file_set_number=1, creation_time='2020/01/01 00:00:00')
                        d = lf.add_channel('DEPTH', set_name=f'S{k}', data=np.arange(rows[k], dtype=np.float64) + 1000 * (k + 1))
                        g = lf.add_channel('GR', set_name=f'S{k}', data=(np.arange(rows[k]) * (k + 2)).astype(np.float32))
                        lf.add_frame('MAIN', set_name=f'S{k}', channels=[d, g])
                    return df
                p0, p1 = f'{tmpd}/a.dlis', f'{tmpd}/b.dlis'
                s0, e0 = call(make().write, p0, output_chunk_size=2**20)
                extra = {'UNUSED': np.arange(7, dtype=np.float32)}
                s1, e1 = call(make().write, p1, data=extra, output_chunk_size=2**20)
                case = {'logical_files': n_lf, 'rows': rows, 'channels': 'DEPTH, GR in every logical file, data given at add_channel',
                        'write_data': "{'UNUSED': ...}"}
                chk.case('same-dataset-names', nontrivial_key=('sd', i), sample=dict(case, plain=s0, with_dict=s1))
                if s0 != 'ok':
                    continue
                if s1 != 'ok':
                    chk.fail('isolation:data-of-another-logical-file', case, f'with an unrelated dict handed to write() the write raises {e1}')
                elif open(p0, 'rb').read() != open(p1, 'rb').read():
                    chk.fail('isolation:data-of-another-logical-file', case, 'with an unrelated dict handed to write() the file differs '
                                                                            'from the one written without it (rows of another logical file)')
                if list(extra) != ['UNUSED']:
                    chk.fail('isolation:caller-dict-filled', case, f'the dict handed to write() now has the keys {sorted(extra)}')
        finally:
            shutil.rmtree(tmpd, ignore_errors=True)
    if prop == 'C09':
        # record order and record types as a whole: file bytes vs modelWrite on the live description
        wf.modelwrite_stream('C09', tier, model, bres, chk, 60, 500)
    if prop in ('C07', 'C09'):
        # objects renamed / moved to another origin after a first write, then the same DLISFile written again
        for r in wf.rewrite_runs(prop, tier, model, bres, chk, 60, 500):
            if bres.ok and wf.oracle_readable(r, chk, prop.lower() + '-rewrite'):
                before = len(chk.failures)
                if prop == 'C07':
                    oracle_references(chk, r)
                else:
                    oracle_order_whole(chk, r)
                for f in chk.failures[before:]:
                    f['key'] = 'rewrite:' + f['key']
    if prop == 'C07' and bres.ok:
        cross_reference_stream(chk, model, tier)
    if prop in ('C07', 'C18'):
        reference_histories(chk, model, bres, tier, prop)
    return finish(chk, bres, cfg['theorems'],
                  partial_note='The state machine abstracts attribute values to ok / rejected-early / rejected-late; its '
                               'tie to the code is the history correspondence.')


def effective_adds(h):
    """per logical file the (set type, set name, name) of the calls that must have succeeded: calls the generator
    made valid, except an origin whose explicit reference is already taken in its logical file (documented
    RuntimeError)"""
    n_lf = h['n_lf']
    added = [[] for _ in range(n_lf)]
    taken = [[] for _ in range(n_lf)]
    for op in h['ops']:
        if op['out'] != 'ok':
            continue
        if op['kind'] == 'origin':
            if op['oref']:
                if op['oref'] in taken[op['lf']]:
                    continue
                ref = op['oref']
            else:
                ref = len(taken[op['lf']])
                while ref in taken[op['lf']]:
                    ref += 1
            taken[op['lf']].append(ref)
        added[op['lf']].append((filegen.KINDS[op['kind']][1], op['sn'], op['name']))
    return added


def oracle(prop, chk, case, h, inv, recs, live):
    n_lf = h['n_lf']
    bad = [r for r in recs if r['eflr'] and r.get('undecodable')]
    if bad:
        chk.fail('histories:undecodable-set', case, f'{len(bad)} explicitly formatted record(s) of the written file do not decode '
                                                    f'under the component grammar (e.g. a set without objects)')
    if len(inv) != n_lf:
        chk.fail('histories:logical-file-count', case, f'{len(inv)} logical files in the file, {n_lf} created')
        return
    # expectation straight from the op list: which objects were added (successfully) through which logical file
    added = effective_adds(h)
    if prop in ('C18', 'C20', 'C07'):
        for lf in range(n_lf):
            got = sorted((st, sn or '', n) for (st, sn, objs) in inv[lf] for (n, o, c) in objs)
            want = sorted((st, sn or '', n) for (st, sn, n) in added[lf])
            if got != want:
                key = 'isolation:inventory' if prop == 'C18' else ('rejected:trace' if prop == 'C20' else 'identity:inventory')
                extra = [x for x in got if x not in want]
                missing = [x for x in want if x not in got]
                chk.fail(key, case, f'logical file {lf}: objects in the file but not added to it: {extra[:5]}; added but '
                                    f'missing: {missing[:5]}')
    if prop == 'C07':
        for op in h['ops']:
            if op.get('chosen_origin') is not None and op.get('got_origin') is not None and op['got_origin'] != op['chosen_origin']:
                chk.fail('identity:chosen-origin-not-used', case,
                         f"{op['kind']} {op['name']!r} was added with origin_reference=<origin #{op['oref_of']} of logical file "
                         f"{op['lf']}>.origin_reference = {op['chosen_origin']}, but carries origin {op['got_origin']}")
        for lf in range(n_lf):
            ids = [(st, o, c, n) for (st, sn, objs) in inv[lf] for (n, o, c) in objs]
            if len(set(ids)) != len(ids):
                dup = sorted({x for x in ids if ids.count(x) > 1})
                within = [(st, sn) for (st, sn, objs) in inv[lf] if len(set(objs)) != len(objs)]
                if within:
                    chk.fail('identity:duplicate-within-set', case,
                             f'logical file {lf}: two objects of set {within[0]} share (origin, copy, name): {dup[:4]}')
                else:
                    chk.fail('identity:duplicate-across-sets', case,
                             f'logical file {lf}: same-named objects of one type in differently named sets share an '
                             f'identity (type, origin, copy, name): {dup[:4]}')
            origin_refs = {o for (st, sn, objs) in inv[lf] if st == 'ORIGIN' for (n, o, c) in objs}
            explicit = {op['oref'] for op in h['ops'] if op['lf'] == lf and op['oref']}
            for (st, o, c, n) in ids:
                if o not in origin_refs and o not in explicit:
                    chk.fail('identity:origin-field', case,
                             f'logical file {lf}: object {st} {n!r} has origin {o}, which is neither an ORIGIN of the '
                             f'logical file {sorted(origin_refs)} nor chosen by the user')
    if prop == 'C18':
        # isolation of origins: no object carries the reference of an origin that exists only in another logical file
        refs = [{o for (st, sn, objs) in inv[lf] if st == 'ORIGIN' for (n, o, c) in objs} for lf in range(n_lf)]
        for lf in range(n_lf):
            explicit = {op['oref'] for op in h['ops'] if op['lf'] == lf and op['oref']}
            for (st, sn, objs) in inv[lf]:
                for (n, o, c) in objs:
                    foreign = [k for k in range(n_lf) if k != lf and o in refs[k]]
                    if o not in refs[lf] and o not in explicit and foreign:
                        chk.fail('isolation:origin-of-another-logical-file', case,
                                 f'logical file {lf}: object {st} {n!r} carries origin {o}, the reference of an ORIGIN '
                                 f'that exists only in logical file {foreign[0]} (own origins: {sorted(refs[lf])})')
    if prop == 'C09':
        for lf, sets in enumerate(inv):
            keys = [(st, sn) for (st, sn, objs) in sets]
            if len(set(keys)) != len(keys):
                chk.fail('order:duplicate-set', case, f'logical file {lf}: a (type, name) occurs twice: {keys}')
            if any(not objs for (_, _, objs) in sets):
                chk.fail('order:empty-set', case, f'logical file {lf}: an empty set was written')
            kinds = [st == 'ORIGIN' for (st, sn, objs) in sets]
            if not kinds or not kinds[0] or any(k and not p for p, k in zip(kinds, kinds[1:])):
                chk.fail('order:origin-not-first', case, f'logical file {lf}: set order {keys}')


def oracle_order_whole(chk, r):
    """C09 on a decoded whole file: header, origin, sets, data"""
    for li, (recs_lf, E) in enumerate(zip(r.lfs, r.exp)):
        problems = []
        if not recs_lf or not recs_lf[0]['eflr'] or recs_lf[0].get('set_type') != 'FILE-HEADER':
            problems.append('first record is not FILE-HEADER')
        else:
            hdr = recs_lf[0]
            if len(hdr['objects']) != 1:
                problems.append(f'{len(hdr["objects"])} header objects')
            else:
                a = dict(zip([t['label'] for t in hdr['template']], hdr['objects'][0]['attrs']))
                seq, hid, ident = E['header']
                if a.get('SEQUENCE-NUMBER') is None or a['SEQUENCE-NUMBER']['vals'] != ['t' + content.hx(seq)]:
                    problems.append(f'SEQUENCE-NUMBER {a.get("SEQUENCE-NUMBER")}')
                if a.get('ID') is None or a['ID']['vals'] != ['t' + content.hx(hid)]:
                    problems.append(f'ID {a.get("ID")}')
        if len(recs_lf) < 2 or not recs_lf[1]['eflr'] or recs_lf[1].get('set_type') != 'ORIGIN':
            problems.append('the header is not followed by an ORIGIN set')
        else:
            org = recs_lf[1]
            a = dict(zip([t['label'] for t in org['template']], org['objects'][0]['attrs']))
            if a.get('FILE-ID') is None or a['FILE-ID']['vals'] != ['t' + content.hx(E['header'][1].rstrip(' ') if False else r.spec['lfs'][li]['fh_id'])]:
                problems.append(f'defining origin FILE-ID {a.get("FILE-ID")} vs header id')
            if a.get('FILE-SET-NUMBER') is None:
                problems.append('defining origin has no FILE-SET-NUMBER')
        seen_iflr = False
        keys = []
        defined = set()
        for x in recs_lf:
            if x['eflr']:
                if seen_iflr:
                    problems.append('an explicitly formatted record follows an indirectly formatted one')
                if not x.get('undecodable'):
                    keys.append((x['set_type'], x['set_name']))
                    if not x['objects']:
                        problems.append(f'empty set {x["set_type"]}')
                    for o in x['objects']:
                        defined.add((x['set_type'], o['origin'], o['copy'], o['name']))
            else:
                seen_iflr = True
                # the object an indirectly formatted record belongs to is defined earlier in the same logical file
                ref = decode_obname(x['body'])
                want_type = {0: 'FRAME', 1: 'NO-FORMAT'}.get(x['type'])
                if ref is None or want_type is None:
                    problems.append(f'indirectly formatted record of type {x["type"]} without a readable object name')
                elif (want_type,) + ref not in defined:
                    problems.append(f'indirectly formatted record refers to {want_type} {ref}, which does not precede it '
                                    f'(defined so far: {sorted(d for d in defined if d[0] == want_type)[:4]})')
        if len(set(keys)) != len(keys):
            problems.append('a (type, name) occurs twice')
        if problems:
            chk.fail('order:whole-file', r.case, f'logical file {li}: ' + '; '.join(problems[:5]))


def decode_obname(body):
    """OBNAME at the head of an IFLR body: origin (UVARI), copy (USHORT), name (IDENT) -> (origin, copy, name)"""
    try:
        b0 = body[0]
        if b0 < 0x80:
            origin, k = b0, 1
        elif b0 < 0xC0:
            origin, k = ((b0 & 0x3F) << 8) | body[1], 2
        else:
            origin, k = ((b0 & 0x3F) << 24) | (body[1] << 16) | (body[2] << 8) | body[3], 4
        copy = body[k]
        n = body[k + 1]
        name = body[k + 2:k + 2 + n]
        if len(name) != n:
            return None
        return origin, copy, name.decode('ascii')
    except (IndexError, UnicodeDecodeError):
        return None


REF_TYPE = {(st_, row_[0]): row_[7].split('ref=')[1].split(';')[0] for st_ in filegen.ATTRS for row_ in filegen.ATTRS[st_]
            if 'ref=' in row_[7] and row_[7].split('ref=')[1].split(';')[0] != '*'}


def oracle_references(chk, r):
    """C07 on a decoded whole file: every OBNAME / OBJREF value and every IFLR reference resolves to exactly one
    object defined in the same logical file (before the record, for IFLRs)"""
    for li, recs_lf in enumerate(r.lfs):
        defs = {}
        problems = []
        for x in recs_lf:
            if x['eflr'] and not x.get('undecodable'):
                for o in x['objects']:
                    defs[(x['set_type'], o['origin'], o['copy'], o['name'])] = defs.get((x['set_type'], o['origin'], o['copy'], o['name']), 0) + 1
        for k, v in defs.items():
            if v > 1:
                problems.append(f'identity {k} defined {v} times')
        by_obname = {}
        for (st, o, c, n) in defs:
            by_obname.setdefault((o, c, n), []).append(st)
        seen = set()
        for x in recs_lf:
            if x['eflr'] and not x.get('undecodable'):
                for o in x['objects']:
                    seen.add((o['origin'], o['copy'], o['name']))
                    for lab, a in zip([t['label'] for t in x['template']], o['attrs']):
                        if a is None:
                            continue
                        for v in a['vals']:
                            if v.startswith('o') and a['rc'] == 23:
                                oo, cc, nn = v[1:].split('.')
                                key = (int(oo), int(cc), bytes.fromhex(nn).decode() if nn != '-' else '')
                                if key not in by_obname:
                                    problems.append(f'{x["set_type"]} {o["name"]!r} {lab}: reference {key} resolves to no object of the logical file')
                                else:
                                    # an OBNAME carries no type: the attribute's definition says which type it denotes
                                    want_t = REF_TYPE.get((x['set_type'], lab))
                                    if want_t and want_t not in by_obname[key]:
                                        problems.append(f'{x["set_type"]} {o["name"]!r} {lab}: reference {key} denotes a {want_t} object; '
                                                        f'the logical file has only {by_obname[key]} under that name')
                            if v.startswith('r') and a['rc'] == 24:
                                tt, oo, cc, nn = v[1:].split('.')
                                key = (bytes.fromhex(tt).decode(), int(oo), int(cc), bytes.fromhex(nn).decode() if nn != '-' else '')
                                if key not in defs:
                                    problems.append(f'{x["set_type"]} {o["name"]!r} {lab}: object reference {key} resolves to no object of the logical file')
        # the reference that opens an indirectly formatted record: exactly one FRAME / NO-FORMAT object defined earlier
        # in the same logical file
        so_far = {}
        for x in recs_lf:
            if x['eflr']:
                if not x.get('undecodable'):
                    for o in x['objects']:
                        k = (x['set_type'], o['origin'], o['copy'], o['name'])
                        so_far[k] = so_far.get(k, 0) + 1
            else:
                ref = decode_obname(x['body'])
                want_type = {0: 'FRAME', 1: 'NO-FORMAT'}.get(x['type'])
                if ref is None or want_type is None:
                    problems.append(f'indirectly formatted record of type {x["type"]} opens with no readable object name')
                elif so_far.get((want_type,) + ref, 0) != 1:
                    problems.append(f'indirectly formatted record refers to {want_type} {ref}, defined '
                                    f'{so_far.get((want_type,) + ref, 0)} times before it (defined so far: '
                                    f'{sorted(d for d in so_far if d[0] == want_type)[:4]})')
        if problems:
            chk.fail('references:unresolved', r.case, f'logical file {li}: ' + '; '.join(problems[:5]))
    # the expected targets (the objects the user passed) are compared by the C05 fidelity oracle


def reference_histories(chk, model, bres, tier, prop):
    """write-time object checks: objects of 1..3 logical files, references assigned between them through the public
    setters (frame -> channels, channel -> axis / long name / source, tool -> parts / channels, group -> objects / groups),
    within and across logical files; what `write` answers vs `acceptWrite` of Model/Checks.lean, and, model-free, every
    accepted file holds each reference's target in the holder's logical file"""
    R = rng(prop, 'reference-histories')
    n = 250 if tier == 'quick' else 2500
    hs = [H.gen_ref_history(R, hc=(prop == 'C17')) for _ in range(n)]
    tmp = tempfile.mkdtemp(prefix='verif_refs_')
    try:
        dumps, meta = [], []
        results = []
        for i, h in enumerate(hs):
            got, live = H.apply_ref_history(h, f'{tmp}/r.dlis')
            data = open(f'{tmp}/r.dlis', 'rb').read() if got == 'ok' else None
            results.append((got, data))
        mreps = model.ask([H.chk_req(h) for h in hs]) if bres.ok else [None] * n
        for i, (h, mrep, (got, data)) in enumerate(zip(hs, mreps, results)):
            case = {'index': i, 'history': h}
            cross = sum(1 for a in h['assigns'] for t in a['targets']
                        if [o for o in h['ops'] if o['out'] == 'ok'][t]['lf'] != [o for o in h['ops'] if o['out'] == 'ok'][a['holder']]['lf'])
            chk.case('reference-histories', nontrivial_key=('rh', i),
                     sample={'n_lf': h['n_lf'], 'objects': len(h['ops']), 'references': sum(len(a['targets']) for a in h['assigns']),
                             'across_logical_files': cross, 'write': got})
            chk.count('refs:' + got.split(':')[0])
            chk.count(f'refs:cross:{min(cross, 2)}')
            if got.startswith('other:'):
                chk.disagree('reference-histories:unexpected-refusal', case, got, str(mrep))
                continue
            if mrep is not None and mrep != got:
                chk.disagree('reference-histories:write-checks', case, got, mrep)
            # the property itself, model-free: an accepted file has no reference across logical files ...
            if got == 'ok' and h.get('hc'):
                # ... and, in the mode, no channel listed by no frame or by several (read off the specification)
                acc_ = [o for o in h['ops'] if o['out'] == 'ok']
                for ci, o in enumerate(acc_):
                    if o['kind'] == 'channel':
                        uses = sum(a['targets'].count(ci) for a in h['assigns']
                                   if a['attr'] == 'channels' and acc_[a['holder']]['kind'] == 'frame'
                                   and acc_[a['holder']]['lf'] == o['lf'])
                        if uses != 1:
                            chk.fail('aspect:not-enforced:channel-frame-count', case,
                                     f'channel {o["name"]!r} of logical file {o["lf"]} is listed {uses} times by the frames of '
                                     f'its logical file and the file is written inside the mode')
                            break
            if got == 'ok' and cross:
                chk.fail('references:accepted-across-logical-files', case,
                         f'{cross} reference(s) to objects of another logical file and the file is written')
            if got == 'ok':
                dumps.append(f"dump 8192 {cps('1')} {cps('REFS')} {hexs(data)}")
                meta.append((case, h))
        # ... and every reference in it names an object defined in the same logical file of the file as decoded
        if bres.ok:
            for (case, h), rep in zip(meta, model.ask(dumps)):
                if not rep.startswith('ok'):
                    chk.fail('references:unreadable', case, 'strict reader rejects the file')
                    continue
                recs = filegen.parse_dump(rep)
                inv = decoded_inventory(recs)
                acc = [o for o in h['ops'] if o['out'] == 'ok']
                for a in h['assigns']:
                    lf = acc[a['holder']]['lf']
                    if lf >= len(inv):
                        chk.fail('references:logical-file-missing', case, f'logical file {lf} not in the decoded file')
                        break
                    names = {(stype, nm) for (stype, _sn, objs) in inv[lf] for (nm, _o, _c) in objs}
                    for t in a['targets']:
                        want = (filegen.KINDS[acc[t]['kind']][1], acc[t]['name'])
                        if want not in names:
                            chk.fail('references:target-not-in-logical-file', case,
                                     f'{a["attr"]} of object {a["holder"]} refers to {want}, which logical file {lf} of the '
                                     f'written file does not define')
    finally:
        shutil.rmtree(tmp, ignore_errors=True)


def cross_reference_stream(chk, model, tier, prop='C07'):
    """references whose target was added to ANOTHER logical file: must be refused, or resolve in the file.  Every
    attribute of every object type that can hold an object (reference classes and the OBNAME / OBJREF codes of the
    pinned schema) in turn, in both directions"""
    import numpy as np
    from dliswriter import DLISFile
    R = rng(prop, 'cross-lf')
    tmp = tempfile.mkdtemp(prefix='verif_xref_')
    targets = [(st, row) for st in sorted(filegen.ATTRS) for row in filegen.ATTRS[st]
               if row[3] in (23, 24) or row[2] in ('EFLRAttribute', 'EFLROrTextAttribute')]
    minimal = {'channel': lambda L, n, sn: L.add_channel(n, set_name=sn, data=np.arange(3, dtype=np.float32)),
               'origin': None, 'frame': None}
    try:
        reps = 1 if tier == 'quick' else 4
        for i, (st, row) in enumerate(targets * reps):
            kind = filegen.SETTYPE_KIND[st]
            df = DLISFile(set_identifier='XREF')
            lfs, objs = [], []
            for k in range(2):
                lf = df.add_logical_file(fh_id=f'H{k}', fh_sequence_number=k + 1)
                lf.add_origin(f'O{k}', set_name=f'L{k}', file_set_number=3, creation_time='2020/01/01 00:00:00')
                ch = lf.add_channel(f'CH{k}', set_name=f'L{k}', data=np.arange(3, dtype=np.float32))
                fr = lf.add_frame(f'FR{k}', channels=[ch], set_name=f'L{k}')
                have = {'CHANNEL': ch, 'FRAME': fr}
                for kd, (meth, sty, _) in filegen.KINDS.items():
                    if kd in ('channel', 'frame', 'origin'):
                        continue
                    stx, ob = call(getattr(lf, meth), f'{kd[:3].upper()}{k}', set_name=f'L{k}')
                    if stx == 'ok':
                        have[sty] = ob
                lfs.append(lf)
                objs.append(have)
            src, dst = ((0, 1), (1, 0))[(i + i // len(targets)) % 2]
            want = row[7].split('ref=')[1].split(';')[0] if 'ref=' in row[7] else '*'
            target = objs[src].get(want) if want != '*' else objs[src]['ZONE']
            if target is None:
                continue
            val = [target] if row[4] else target
            kw = {filegen.api_keyword(kind, row[1]): val}

            def build():
                L = lfs[dst]
                if kind == 'channel':
                    L.add_channel('CX', set_name=f'L{dst}', data=np.arange(3, dtype=np.float32), **kw)
                elif kind == 'frame':
                    L.add_frame('FX', set_name=f'L{dst}', **kw)
                else:
                    getattr(L, filegen.KINDS[kind][0])('NEW', set_name=f'L{dst}', **kw)
                df.write(f'{tmp}/x.dlis', output_chunk_size=2**20)
            if i < len(targets):
                # control: the same call with the target taken from the referencing logical file itself is accepted
                tgt0 = objs[dst].get(want) if want != '*' else objs[dst]['ZONE']
                kw0 = {filegen.api_keyword(kind, row[1]): [tgt0] if row[4] else tgt0}
                L0 = lfs[dst]
                if kind == 'channel':
                    c_st, c_err = call(L0.add_channel, 'CX0', set_name=f'L{dst}', data=np.arange(3, dtype=np.float32), **kw0)
                elif kind == 'frame':
                    c_st, c_err = 'ok', None        # (a channel belongs to one frame's data here; the control is the file itself)
                else:
                    c_st, c_err = call(getattr(L0, filegen.KINDS[kind][0]), 'NEW0', set_name=f'L{dst}', **kw0)
                chk.count(f'cross-lf:control:{c_st if c_st == "ok" else c_err}')
                if c_st == 'ok':
                    c_st, c_err = call(df.write, f'{tmp}/x0.dlis', output_chunk_size=2**20)
                if c_st != 'ok':
                    chk.fail('cross-lf:control-refused', {'object': st, 'attribute': row[0]},
                             f'a reference to an object of the same logical file is refused: {c_err}')
                    continue
            stt, err = call(build)
            case = {'referencing_object': f'{st} (logical file {dst})', 'attribute': row[0],
                    'target': f'{target.parent.set_type} {target.name!r} of logical file {src}'}
            chk.case('cross-lf-references', nontrivial_key=('x', st, row[0], src), sample={**case, 'status': stt if stt == 'ok' else err})
            chk.count(f'cross-lf:{st}.{row[0]}:{stt}')
            if stt != 'ok':
                continue
            rep = model.ask([f"dump 8192 {cps('1')} {cps('XREF')} {hexs(open(f'{tmp}/x.dlis', 'rb').read())}"])[0]
            r = wf.Run()
            r.case, r.recs = case, (filegen.parse_dump(rep) if rep.startswith('ok') else None)
            if r.recs is None:
                chk.fail('references:unreadable', case, 'strict reader rejects the file')
                continue
            r.lfs = content.split_logical_files(r.recs)
            before = len(chk.failures)
            oracle_references(chk, r)
            for f in chk.failures[before:]:
                f['key'] = 'references:target-in-another-logical-file'
        # ... and an object of the WRONG TYPE (same logical file) for every attribute whose references denote one type:
        # refused, or written so that it resolves to an object of that type
        for i, (st, row) in enumerate(targets):
            want = row[7].split('ref=')[1].split(';')[0] if 'ref=' in row[7] else '*'
            if want == '*':
                continue
            kind = filegen.SETTYPE_KIND[st]
            df = DLISFile(set_identifier='XREF')
            lf = df.add_logical_file(fh_id='H', fh_sequence_number=1)
            lf.add_origin('O', file_set_number=3, creation_time='2020/01/01 00:00:00')
            ch = lf.add_channel('CH', data=np.arange(3, dtype=np.float32))
            fr = lf.add_frame('FR', channels=[ch])
            have = {'CHANNEL': ch, 'FRAME': fr}
            for kd, (meth, sty, _) in filegen.KINDS.items():
                if kd in ('channel', 'frame', 'origin'):
                    continue
                # same name for all: an OBNAME alone cannot tell them apart
                stx, ob = call(getattr(lf, meth), 'SAME')
                if stx == 'ok':
                    have[sty] = ob
            others = [t for t in sorted(have) if t != want and t not in ('CHANNEL', 'FRAME')]
            target = have[R.choice(others)]
            kw = {filegen.api_keyword(kind, row[1]): [target] if row[4] else target}

            def build2():
                if kind == 'channel':
                    lf.add_channel('CX', data=np.arange(3, dtype=np.float32), **kw)
                elif kind == 'frame':
                    lf.add_frame('FX', **kw)
                else:
                    getattr(lf, filegen.KINDS[kind][0])('NEW', **kw)
                df.write(f'{tmp}/y.dlis', output_chunk_size=2**20)
            stt, err = call(build2)
            case = {'referencing_object': st, 'attribute': row[0], 'references_denote': want,
                    'given': f'{target.parent.set_type} {target.name!r}'}
            chk.case('wrong-typed-references', nontrivial_key=('wt', st, row[0]), sample={**case, 'status': stt if stt == 'ok' else err})
            chk.count(f'wrong-type:{st}.{row[0]}:{stt}')
            if stt != 'ok':
                continue
            rep = model.ask([f"dump 8192 {cps('1')} {cps('XREF')} {hexs(open(f'{tmp}/y.dlis', 'rb').read())}"])[0]
            r = wf.Run()
            r.case, r.recs = case, (filegen.parse_dump(rep) if rep.startswith('ok') else None)
            if r.recs is None:
                chk.fail('references:unreadable', case, 'strict reader rejects the file')
                continue
            r.lfs = content.split_logical_files(r.recs)
            before = len(chk.failures)
            oracle_references(chk, r)
            for f in chk.failures[before:]:
                f['key'] = 'references:object-of-another-type'
            if len(chk.failures) == before:
                chk.fail('references:object-of-another-type', case,
                         f'a {target.parent.set_type} object was accepted where references denote {want} objects and written as if it '
                         f'were one')
    finally:
        shutil.rmtree(tmp, ignore_errors=True)


def run_c20_oracle(chk, hists, tmp, model, bres):
    """the same history without the rejected calls must give a file with the same content"""
    if not bres.ok:
        return
    reqs, meta = [], []
    for i, h in enumerate(hists):
        if not any(o['out'] != 'ok' for o in h['ops']):
            continue
        datas = []
        for drop in (False, True):
            df, lfs, live, outcomes = H.apply_history(h, drop_rejected=drop)
            path = f'{tmp}/c20_{int(drop)}.dlis'
            st, err = call(df.write, path, output_chunk_size=2**20)
            datas.append((st, open(path, 'rb').read() if st == 'ok' else err))
        case = {'index': i, 'history': h}
        chk.evaluations += 1
        chk.streams['with-vs-without-rejected'] = chk.streams.get('with-vs-without-rejected', 0) + 1
        if datas[0][0] != datas[1][0]:
            # narrow identification of the known residue: a rejected call named a set that another logical file
            # has objects in -> the set is registered in both -> the shared-set check refuses the write
            foreign = False
            for op in h['ops']:
                if op['out'] != 'ok':
                    if any(o2['out'] == 'ok' and o2['lf'] != op['lf'] and o2['kind'] == op['kind'] and (o2['sn'] or None) == (op['sn'] or None)
                           for o2 in h['ops']):
                        foreign = True
            key = 'rejected:changes-writability' + (':set-of-another-logical-file' if foreign and datas[0][0] == 'err' else '')
            chk.fail(key, case, f'with the rejected calls the write is {datas[0]}, without them {datas[1][0]}')
            continue
        if datas[0][0] == 'ok':
            reqs += [f"dump 8192 {cps('1')} {cps('HIST')} {hexs(d[1])}" for d in datas]
            meta.append((case, datas[0][1] == datas[1][1]))
    reps = model.ask(reqs)
    for k, (case, same_bytes) in enumerate(meta):
        a, b = reps[2 * k], reps[2 * k + 1]
        if not (a.startswith('ok') and b.startswith('ok')):
            chk.fail('rejected:unreadable', case, 'strict reader rejects one of the files')
            continue
        ia = [sorted(x) for x in decoded_inventory_full(filegen.parse_dump(a))]
        ib = [sorted(x) for x in decoded_inventory_full(filegen.parse_dump(b))]
        if ia != ib:
            diff = [(x, y) for la, lb in zip(ia, ib) for x, y in zip(la, lb) if x != y][:2]
            # narrow identification of a known residue: a rejected add_origin call created its (empty) ORIGIN set
            # before the set that holds the intended defining origin, so another origin became the defining one
            h = case['history']
            h2 = {'n_lf': h['n_lf'], 'ops': [o for o in h['ops'] if not (o['kind'] == 'origin' and o['out'] != 'ok')]}
            key = 'rejected:trace'
            try:
                df, lfs, live, outcomes = H.apply_history(h2)
                pth = f'{tmp}/c20_x.dlis'
                st, err = call(df.write, pth, output_chunk_size=2**20)
                if st == 'ok':
                    rep = model.ask([f"dump 8192 {cps('1')} {cps('HIST')} {hexs(open(pth, 'rb').read())}"])[0]
                    ic = [sorted(x) for x in decoded_inventory_full(filegen.parse_dump(rep))]
                    if ic == ib:
                        key = 'rejected:trace:rejected-add_origin-created-its-set-first'
            except Exception:
                pass
            chk.fail(key, case, f'content differs from the history without the rejected calls: {str(diff)[:800]}')
        elif not same_bytes:
            # the state is the same (theorem history_without_rejected_calls), so the files are the same bytes, record
            # order included
            chk.fail('rejected:bytes-differ', case, 'same objects, but the file differs from the one of the history without '
                                                    'the rejected calls (record order)')


def c20_data_stream(chk, tier, tmp):
    """rejected add_channel calls that carried data (and rejected calls of other kinds) followed by accepted ones
    that rely on the data registry being as if the rejected call had never been made: the write outcome and the
    bytes must equal those of the same calls without the rejected ones"""
    import numpy as np
    from dliswriter import DLISFile
    R = rng('C20', 'data')
    n = 150 if tier == 'quick' else 1500
    BAD = H.LATE_REJECT['channel'] + [{'origin_reference': 'x'}, {'properties': ['NOT-A-PROPERTY']}, {'units': 5}]
    for i in range(n):
        nrows = R.choice([3, 5])
        names = ['DEPTH', 'RPM', 'GR']
        ops = []
        for nm in names:
            if R.random() < 0.6:
                # a rejected call first, carrying data (or not), under the same or another dataset name
                ops.append({'name': nm if R.random() < 0.8 else 12345, 'data': R.random() < 0.8, 'fill': 4242.0 + len(ops),
                            'bad': R.choice(BAD) if R.random() < 0.85 else {}, 'dsn': R.choice([None, None, 'ds_' + nm]),
                            'rejected': True})
                if ops[-1]['name'] != 12345 and not ops[-1]['bad']:
                    ops[-1]['bad'] = R.choice(BAD)
            ops.append({'name': nm, 'data': R.random() < 0.5, 'fill': float(len(ops)), 'bad': {}, 'dsn': None, 'rejected': False})
        source = R.choice(['none', 'dict-missing', 'dict-all', 'struct'])
        results = []
        for drop in (False, True):
            def go():
                df = DLISFile(set_identifier='C20D', max_record_length=8192)
                lf = df.add_logical_file(fh_id='H')
                lf.add_origin('O', file_set_number=1, creation_time='2020/01/01 00:00:00')
                chans, outcomes = [], []
                for op in ops:
                    if drop and op['rejected']:
                        continue
                    kw = dict(op['bad'])
                    if op['data']:
                        kw['data'] = np.full(nrows, op['fill'], dtype=np.float64)
                    if op['dsn']:
                        kw['dataset_name'] = op['dsn']
                    st, res = call(lf.add_channel, op['name'], **kw)
                    outcomes.append(st)
                    if st == 'ok':
                        chans.append(res)
                lf.add_frame('FR', channels=chans)
                accepted = [op for op in ops if not op['rejected']]
                kwargs = {}
                if source == 'dict-all':
                    kwargs['data'] = {op['name']: np.full(nrows, 100.0 + k) for k, op in enumerate(accepted)}
                elif source == 'dict-missing':
                    kwargs['data'] = {op['name']: np.full(nrows, 100.0 + k) for k, op in enumerate(accepted) if op['data']}
                elif source == 'struct':
                    arr = np.zeros(nrows, dtype=[(op['name'], np.float64) for op in accepted])
                    for k, op in enumerate(accepted):
                        arr[op['name']] = 200.0 + k
                    kwargs['data'] = arr
                path = f'{tmp}/c20d_{int(drop)}.dlis'
                df.write(path, output_chunk_size=2**20, **kwargs)
                return outcomes, open(path, 'rb').read()
            results.append(call(go))
        case = {'index': i, 'calls': [{k: (v if k != 'bad' else repr(v)) for k, v in op.items()} for op in ops],
                'rows': nrows, 'write_data': source}
        chk.case('rejected-calls-with-data', nontrivial_key=('c20d', i), sample={'index': i, 'source': source,
                                                                              'with': results[0][0], 'without': results[1][0]})
        (s0, r0), (s1, r1) = results
        chk.count(f'c20-data:{source}:{s0}/{s1}')
        if s0 == 'ok':
            exp_out = ['err' if op['rejected'] else 'ok' for op in ops]
            if r0[0] != exp_out:
                chk.count('c20-data:call-outcomes-unexpected')
                continue       # a call meant to be rejected was accepted (or vice versa): not a comparable pair
        if s0 != s1:
            chk.fail('rejected:data-registry:writability', case, f'with the rejected calls the write is {s0} '
                     f'({r0 if s0 != "ok" else ""}), without them {s1} ({r1 if s1 != "ok" else ""})')
        elif s0 == 'ok' and r0[1] != r1[1]:
            chk.fail('rejected:data-registry:bytes', case, 'the file differs from the one written by the same calls without '
                                                           'the rejected ones')


def c20_failed_write_stream(chk, tier, tmp):
    """second half of the property: a write that raises (a dataset missing from the data, an unacceptable chunk size,
    a breach of high-compatibility mode) leaves the specification able to produce, once the cause is removed, the
    file a fresh specification produces"""
    from dliswriter import high_compatibility_mode
    R = rng('C20', 'failed-write')
    n = 40 if tier == 'quick' else 400
    for i in range(n):
        forced = (i % 4 == 0)
        spec = filegen.gen_spec(R, n_lf=R.choice([1, 1, 2]), small=True, with_index='uniform' if forced else R.choice([None, 'uniform']),
                                **({'rows': R.choice([3, 4, 6])} if forced else {}))
        spec['write'].update({'data_kind': 'dict' if forced else R.choice(['dict', 'inline']), 'from_idx': 0, 'to_idx': None,
                              'input_chunk_size': None, 'output_chunk_size': 2**20})
        spec['hc'] = False
        rf = filegen.write(spec, tmp, fname='fw_fresh.dlis')        # a fresh specification, written once
        if rf['status'] != 'ok':
            continue
        fresh = rf['data']
        st0, b = call(filegen.build, spec)
        if st0 != 'ok':
            continue
        path = f'{tmp}/fw.dlis'
        causes = []
        for _ in range(R.choice([1, 1, 2])):
            cause = R.choice(['missing-dataset', 'bad-output-chunk', 'bad-input-chunk', 'mode-breach', 'unwritable-path',
                              'uneven-index-in-mode', 'uneven-index-in-mode'])
            if forced:
                cause = 'uneven-index-in-mode'
            kw = dict(output_chunk_size=2**20)
            if spec['write']['data_kind'] == 'dict':
                kw['data'] = dict(b.data)
            if cause == 'uneven-index-in-mode':
                # the attempt is handed OTHER index values, unevenly spaced, in high-compatibility mode: refused while the
                # frame's index attributes are being derived from them; the final write gets the specification's own data
                import numpy as np
                idx = [(li, oi, arr) for (li, oi, arr) in b.arrays if spec['lfs'][li]['objects'][oi].get('index_like')
                       and arr.ndim == 1 and arr.shape[0] >= 3]
                if 'data' not in kw or not idx:
                    continue
                for (li, oi, arr) in idx:
                    key = next((k for k, v in b.data.items() if v is arr), None)
                    if key is not None:
                        alt = np.array([1000 + k_ * k_ for k_ in range(arr.shape[0])]).astype(arr.dtype)
                        kw['data'][key] = alt

                def hc_write2():
                    with high_compatibility_mode():
                        b.df.write(path, **kw)
                st, err = call(hc_write2)
                causes.append(f'{cause}:{st}{"" if st == "ok" else ":" + str(err)}')
                continue
            if cause == 'missing-dataset':
                if 'data' not in kw or not kw['data']:
                    continue
                del kw['data'][sorted(kw['data'])[-1]]
                st, err = call(b.df.write, path, **kw)
            elif cause == 'bad-output-chunk':
                kw['output_chunk_size'] = spec['sul']['max_record_length'] - 2
                st, err = call(b.df.write, path, **kw)
            elif cause == 'bad-input-chunk':
                kw['input_chunk_size'] = 0.5
                st, err = call(b.df.write, path, **kw)
            elif cause == 'unwritable-path':
                st, err = call(b.df.write, f'{tmp}/no/such/dir/x.dlis', **kw)
            else:
                def hc_write():
                    with high_compatibility_mode():
                        b.df.write(path, **kw)
                st, err = call(hc_write)
            causes.append(f'{cause}:{st}{"" if st == "ok" else ":" + str(err)}')
        # a write refused inside the mode's context leaves the context: what is valid outside the mode is accepted again
        from dliswriter import DLISFile as _DFp
        from dliswriter.configuration import global_config as _gc
        stp, errp = call(_DFp, set_identifier='lower case id')
        if stp != 'ok':
            chk.fail('failed-write:mode-left-on', {'index': i, 'spec': filegen.describe(spec), 'earlier_write_attempts': causes},
                     f"after the attempts a call that is valid outside high-compatibility mode (DLISFile(set_identifier='lower case "
                     f"id')) is refused: {errp}")
            _gc.high_compat_mode = False
        kw = dict(output_chunk_size=2**20)
        if spec['write']['data_kind'] == 'dict':
            kw['data'] = b.data
        st2, err2 = call(b.df.write, path, **kw)
        case = {'index': i, 'spec': filegen.describe(spec), 'earlier_write_attempts': causes}
        chk.case('failed-write-then-write', nontrivial_key=('fw', i) if any(':err' in c for c in causes) else None,
                 sample={'index': i, 'attempts': causes, 'final': st2})
        for c in causes:
            chk.count('failed-write:' + ':'.join(c.split(':')[:2]))
        if not any(':err' in c for c in causes):
            continue
        if st2 != 'ok':
            chk.fail('failed-write:blocks-later-write', case, f'after the failed attempts a correct write raises {err2}; a fresh '
                                                              f'specification writes fine')
        elif open(path, 'rb').read() != fresh:
            chk.fail('failed-write:changes-later-file', case, 'after the failed attempts the file differs from the one a fresh '
                                                              'specification produces')


def dataset_name_stream(chk, model, bres, tier):
    """sequences of add_channel calls (repeated names, explicit data set names incl. taken ones, rejected calls in
    between): the data set name of every accepted channel vs Model/Dataset.lean"""
    import numpy as np
    from dliswriter import DLISFile
    if not bres.ok:
        return
    R = rng('C20', 'dataset-names')
    reqs, meta = [], []
    for i in range(150 if tier == 'quick' else 1500):
        df = DLISFile(set_identifier='DSN')
        lf = df.add_logical_file()
        lf.add_origin('O', file_set_number=1, creation_time='2020/01/01 00:00:00')
        names = R.choice([['A', 'B'], ['A'], ['A', 'A__1', 'B']])
        calls, outs = [], []
        for _ in range(R.choice([2, 4, 7])):
            nm = R.choice(names)
            explicit = R.choice([None, None, None, 'X', nm, nm + '__1', 'A__2'])
            reject = R.random() < 0.3
            kw = {}
            if explicit is not None:
                kw['dataset_name'] = explicit
            if reject:
                kw.update(R.choice([{'minimum_value': 'x'}, {'cast_dtype': 'float32'}, {'properties': ['NOPE']}, {'units': 5}]))
            st, res = call(lf.add_channel, nm, **kw)
            calls.append((nm, explicit, st == 'ok'))
            outs.append(('ok:' + cps(res.dataset_name)) if st == 'ok' else ('err:' + res))
        reqs.append('dsn ' + ' '.join(f"{cps(n)} {'~' if e is None else cps(e)} {1 if ok else 0}" for n, e, ok in calls))
        meta.append((calls, outs))
    for (calls, outs), rep in zip(meta, model.ask(reqs)):
        mouts = rep.split(' ')
        case = {'calls': [f'add_channel({n!r}, dataset_name={e!r}) -> {"accepted" if ok else "rejected"}' for n, e, ok in calls]}
        chk.case('dataset-names', nontrivial_key=('dsn', tuple(calls)), sample={'calls': case['calls'][:4], 'names': outs[:4]})
        for k, ((n, e, ok), io, mo) in enumerate(zip(calls, outs, mouts)):
            if ok and io != mo:
                chk.disagree('dataset-names', dict(case, call_number=k + 1), io, mo)
                break
            if not ok and mo.startswith('err:') and not io.startswith('err:'):
                chk.disagree('dataset-names', dict(case, call_number=k + 1), io, mo)
                break
        # oracle: the names of the accepted calls are those of the same calls without the rejected ones
        accepted = [(n, e) for n, e, ok in calls if ok]
        df2 = DLISFile(set_identifier='DSN')
        lf2 = df2.add_logical_file()
        lf2.add_origin('O', file_set_number=1, creation_time='2020/01/01 00:00:00')
        fresh = []
        for n, e in accepted:
            st, res = call(lf2.add_channel, n, **({'dataset_name': e} if e is not None else {}))
            fresh.append(('ok:' + cps(res.dataset_name)) if st == 'ok' else ('err:' + res))
        got = [io for (n, e, ok), io in zip(calls, outs) if ok]
        if got != fresh:
            chk.fail('rejected:dataset-names', case, f'data set names {got} with the rejected calls, {fresh} without them')


def decoded_inventory_full(recs):
    out = []
    for lf in content.split_logical_files(recs):
        sets = []
        for r in lf:
            if r['eflr'] and not r.get('undecodable'):
                sets.append(repr((r['set_type'], r['set_name'], [(o['name'], o['origin'], o['copy'], str(o['attrs']))
                                                                 for o in r['objects']])))
        out.append(sets)
    return out


def run(tier):
    return run_prop('C07', tier)
