"""C04 — EFLR component grammar.  Correspondence: EFLRSet._make_body_bytes() of live sets vs the Lean setBody on
the description extracted from the same live objects; oracle: the Lean strict EFLR parser on the implementation's
bytes + structural expectations derived from the objects' values."""
from harness.common import Check, Model, build, finish, rng, hexs, cps
from harness import impl, eflr
from harness.impl import call
from harness.eflr import Unmodelled

from dliswriter import DLISFile
from dliswriter.logical_record import eflr_types
from dliswriter.logical_record.core.eflr import AttrSetup

THEOREMS = [
    'Dlis.C04.parseEflr_setBody', 'Dlis.C04.attr_value_bit', 'Dlis.C04.attr_count_matches',
    'Dlis.C04.fileHeader_parses', 'Dlis.C04.fileHeader_instance', 'Dlis.C04.empty_list_encoding', 'Dlis.C04.empty_set_no_record', 'Dlis.Obligations.schema_ok', 'Dlis.Obligations.sets_eq',
]

SET_CLASSES = [s for s in eflr_types.eflr_sets if s is not eflr_types.FileHeaderSet]


def make_pool(R, lf):
    """a few plain items of every kind that other objects may reference"""
    pool = {}

    def add(cls, it):
        pool.setdefault(cls, []).append(it)
    for i in range(2):
        add(eflr_types.AxisItem, lf.add_axis(f'AX{i}'))
        add(eflr_types.ZoneItem, lf.add_zone(f'ZN{i}'))
        add(eflr_types.LongNameItem, lf.add_long_name(f'LN{i}'))
        add(eflr_types.ChannelItem, lf.add_channel(f'CH{i}'))
        add(eflr_types.EquipmentItem, lf.add_equipment(f'EQ{i}'))
        add(eflr_types.ParameterItem, lf.add_parameter(f'PA{i}'))
        add(eflr_types.ComputationItem, lf.add_computation(f'CO{i}'))
        add(eflr_types.CalibrationCoefficientItem, lf.add_calibration_coefficient(f'CC{i}'))
        add(eflr_types.CalibrationMeasurementItem, lf.add_calibration_measurement(f'CM{i}'))
        add(eflr_types.GroupItem, lf.add_group(f'GR{i}'))
        add(eflr_types.WellReferencePointItem, lf.add_well_reference_point(f'WR{i}'))
    add(eflr_types.FrameItem, lf.add_frame('FR0', channels=[pool[eflr_types.ChannelItem][0]]))
    return pool


def build_set(R, set_cls, tier):
    """-> (set object, spec of what was assigned) built through the item constructors of the live package"""
    df = DLISFile()
    lf = df.add_logical_file()
    org = lf.add_origin('ORG', file_set_number=1, creation_time='2020/01/01 00:00:00')
    pool = make_pool(R, lf)
    set_name = R.choice([None, None, 'S1', 'NAMED-SET', ''])
    the_set = set_cls(set_name=set_name)
    item_cls = set_cls.item_type
    n_obj = R.choice([1, 1, 2, 3, 5])
    probe = the_set.item_type.__new__(the_set.item_type)   # not used; attribute names come from a real item below
    spec = []
    for k in range(n_obj):
        name = R.choice(['X', 'OBJ', eflr.rstr(R), 'X'])
        kwargs = {}
        if item_cls is eflr_types.OriginItem:
            base = item_cls('PROBE', parent=set_cls(), origin_reference=9, file_set_number=1,
                            creation_time='2020/01/01 00:00:00')
        else:
            base = item_cls('PROBE', parent=set_cls())
        names = list(base.attributes.keys())
        p_assign = R.choice([0.0, 0.2, 0.5, 1.0])
        for an in names:
            a = base.attributes[an]
            if a._units_settable and R.random() < 0.06:
                # units without a value: the attribute has no value, so it stays an absent attribute
                kwargs[an] = R.choice([{'units': 'm'}, AttrSetup(units='s')])
                continue
            if R.random() >= p_assign:
                continue
            try:
                v = eflr.gen_value(R, a, pool)
            except Unmodelled:
                continue
            u = None
            if a._units_settable and R.random() < 0.3:
                u = R.choice(['m', 's', 'ft', 'in', 'unknown-unit', eflr.rstr(R, 130)])
            route = R.choice(['plain', 'dict', 'setup'])
            if u is None and route == 'plain':
                kwargs[an] = v
            elif route == 'dict':
                kwargs[an] = {'value': v, 'units': u} if u is not None else {'value': v}
            else:
                kwargs[an] = AttrSetup(value=v, units=u)
        if item_cls is eflr_types.OriginItem:
            kwargs.setdefault('file_set_number', R.randrange(1, 2**30))
            kwargs.setdefault('creation_time', '2021/02/03 04:05:06')
            st, it = call(item_cls, name, parent=the_set, origin_reference=R.choice([1, 2, 127, 128, 20000]), **kwargs)
        else:
            st, it = call(item_cls, name, parent=the_set, origin_reference=R.choice([1, 1, 5, 128, 16384]), **kwargs)
        spec.append((name, sorted(kwargs), st))
    return the_set, spec


def expected_structure(desc):
    """what a reader must see, from the objects' state (not from dliswriter's encoder)"""
    ty, nm, labels, objs = desc
    out = []
    for (o, c, n, attrs) in objs:
        row = []
        for a in attrs:
            if a is None:
                row.append('~')
            else:
                rc, units, is_list, vals = a
                cnt = len(vals) if is_list else 1
                row.append((cnt, rc, units or '', len(vals)))
        out.append((o, c, n, row))
    return ty, (nm or None), labels, out


def check_parse(chk, rep, desc, case, key_prefix):
    """compare the strict parser's dump of implementation bytes with the structural expectation"""
    if not rep.startswith('ok '):
        chk.fail(f'{key_prefix}:undecodable', case, 'strict EFLR parser rejects the record body')
        return
    ty, nm, labels, objs = expected_structure(desc)
    try:
        head, _, tail = rep.partition(' T[')
        tmpl, _, objtxt = tail.partition('] ')
        f = dict(x.split('=') for x in head.split(' ')[1:])
        got_labels = [t.split(':')[0] for t in tmpl.split(' ')] if tmpl else []
        problems = []
        if f['type'] != hexs(ty.encode()):
            problems.append('set type')
        if (f['name'] == '~') != (nm is None) or (nm is not None and f['name'] != hexs(nm.encode())):
            problems.append('set name')
        if got_labels != [hexs(l.encode()) for l in labels]:
            problems.append('template labels')
        gobjs = objtxt.split(' ') if objtxt else []
        if len(gobjs) != len(objs):
            problems.append(f'{len(gobjs)} objects decoded, {len(objs)} defined')
        for g, (o, c, n, row) in zip(gobjs, objs):
            ident, _, attrs = g.partition('|')
            if ident != f'O{o},{c},{hexs(n.encode())}':
                problems.append(f'object identity {ident}')
            gattrs = attrs.split(';') if attrs else []
            # trailing absent attributes may be omitted by the grammar
            while len(gattrs) < len(row):
                gattrs.append('~')
            for lab, ga, ea in zip(labels, gattrs, row):
                if ea == '~':
                    if ga != '~':
                        problems.append(f'{lab}: unset attribute decodes as present')
                    continue
                if ga == '~':
                    problems.append(f'{lab}: assigned attribute decodes as absent')
                    continue
                cnt, rc, units, vals = ga.split(':')
                nvals = 0 if vals == '-' else len(vals.split(','))
                if int(cnt) != ea[0] or (ea[1] is not None and int(rc) != ea[1]) or units != hexs(ea[2].encode()) \
                        or nvals != ea[3]:
                    problems.append(f'{lab}: decoded count={cnt} rc={rc} units={units} values={nvals}, '
                                    f'expected count={ea[0]} rc={ea[1]} units={hexs(ea[2].encode())} values={ea[3]}')
        if problems:
            chk.fail(f'{key_prefix}:content', case, '; '.join(problems[:6]))
    except Exception as exc:  # parsing my own dump failed: machinery problem
        chk.internal.append({'what': 'cannot interpret parser dump', 'exc': repr(exc), 'dump': rep[:300]})


def run(tier):
    chk = Check('C04', tier)
    chk.rule = ('sets of every one of the 21 generic object types + FILE-HEADER, 1..5 objects, random attribute '
                'subsets (none/20%/50%/all), multiplicities 0,1,2,3,5,127,128,200, nested lists, units, named/unnamed/'
                'empty-named sets, three assignment routes; distinct by (set type, description).')
    bres = build(THEOREMS)
    model = Model()
    R = rng('C04', 'sets')
    n_iter = (120 if tier == "quick" else 800)
    reqs, cases = [], []
    for it in range(n_iter):
        for set_cls in SET_CLASSES:
            try:
                the_set, spec = build_set(R, set_cls, tier)
            except Exception as exc:
                chk.internal.append({'what': 'generator failed', 'set': set_cls.__name__, 'exc': repr(exc)})
                continue
            # the write-time consistency checks belong to the object-model layer (C12); a set whose items fail
            # them never reaches the encoder (NB they are not idempotent, so they are not run separately here)
            try:
                st, body = 'ok', the_set._make_body_bytes()
            except Exception as exc:  # noqa
                tb, in_checks = exc.__traceback__, False
                while tb is not None:
                    if tb.tb_frame.f_code.co_name == '_run_checks_and_set_defaults':
                        in_checks = True
                    tb = tb.tb_next
                if in_checks:
                    chk.count('skipped:write-time-check-raised')
                    continue
                st, body = 'err', impl.err_name(exc)
            try:
                desc = eflr.set_desc(the_set)
                req = eflr.desc_req(desc)
            except Unmodelled as u:
                chk.count(f'unmodelled:{u}')
                continue
            reqs.append(req)
            cases.append((set_cls.set_type, desc, spec, st, body))
    replies = model.ask(reqs) if bres.ok else [None] * len(reqs)
    preqs, pcases = [], []
    for (sty, desc, spec, st, body), req, mrep in zip(cases, reqs, replies):
        irep = ('ok ' + hexs(body)) if st == 'ok' else 'err'
        nobj = len(desc[3])
        nset = sum(1 for o in desc[3] for a in o[3] if a is not None)
        mults = sorted({len(a[3]) for o in desc[3] for a in o[3] if a is not None})
        chk.case('sets', nontrivial_key=req if nset else None,
                 sample={'set_type': sty, 'objects': nobj, 'assigned_attributes': nset, 'multiplicities': mults,
                         'impl': irep[:60]})
        chk.count(f'set:{sty}:{"ok" if st == "ok" else "err"}')
        for m in mults:
            chk.count(f'mult:{m if m < 4 else ">=4" if m < 127 else m}')
        case = {'set_type': sty, 'set_name': desc[1], 'objects': [[o, c, n, spec_i] for (o, c, n, _), spec_i in
                                                               zip(desc[3], [s[1] for s in spec] + [None] * 9)],
                'description': req[:1500]}
        if mrep is not None:
            mnorm = mrep if mrep.startswith('ok') else ('skip' if mrep == 'err unmodelled' else 'err')
            if mnorm == 'skip':
                chk.count('model:unmodelled-value')
            elif mnorm != irep:
                chk.disagree('sets', case, irep, mrep)
        if st == 'ok' and len(body):
            preqs.append(f'peflr {hexs(body)}')
            pcases.append((case, desc))
    if bres.ok:
        for (case, desc), rep in zip(pcases, model.ask(preqs)):
            check_parse(chk, rep, desc, case, 'set')
    # FILE-HEADER
    fh_reqs, fh_cases = [], []
    for i in range(60 if tier == 'quick' else 600):
        hid = R.choice(['FILE-HEADER', '', 'A' * 65, 'B' * 66, 'some id', ' led by a blank', '   ', 'ends in blanks  ',
                        ' ' + eflr.rstr(R, R.randrange(0, 64)), eflr.rstr(R, R.randrange(0, 66))])
        seqno = R.choice([1, 2, 9999999999, 10**10, 0, R.randrange(1, 10**10)])
        ident = R.choice(['0', 'X', '9'])

        def mk():
            fs = eflr_types.FileHeaderSet()
            it = eflr_types.FileHeaderItem(hid, parent=fs, sequence_number=seqno, identifier=ident)
            it.origin_reference = R.choice([1, 2, 128])
            return fs, it
        st, res = call(mk)
        if st != 'ok':
            chk.case('file-header', nontrivial_key=None)
            chk.count('fh:rejected')
            continue
        fs, it = res
        st, body = call(fs._make_body_bytes)
        fh_reqs.append(f'fh {it.origin_reference} {it.copy_number} {cps(it.name)} {seqno} {cps(hid)}')
        fh_cases.append((hid, seqno, ident, st, body))
    replies = model.ask(fh_reqs) if bres.ok else [None] * len(fh_reqs)
    preqs, pcases = [], []
    for (hid, seqno, ident, st, body), req, mrep in zip(fh_cases, fh_reqs, replies):
        irep = ('ok ' + hexs(body)) if st == 'ok' else 'err'
        chk.case('file-header', nontrivial_key=req, sample={'header_id': hid, 'sequence_number': seqno})
        chk.count(f'fh:{"ok" if st == "ok" else "err"}')
        case = {'header_id': hid, 'sequence_number': seqno, 'identifier': ident}
        if mrep is not None and (mrep if mrep.startswith('ok') else 'err') != irep:
            chk.disagree('file-header', case, irep, mrep)
        if st == 'ok':
            preqs.append(f'peflr {hexs(body)}')
            pcases.append(case)
    if bres.ok:
        for case, rep in zip(pcases, model.ask(preqs)):
            if not rep.startswith('ok '):
                chk.fail('file-header:undecodable', case, 'strict EFLR parser rejects the FILE-HEADER body')
            else:
                want_seq = hexs(str(case['sequence_number']).rjust(10).encode())
                want_id = hexs(case['header_id'].ljust(65).encode())
                if f'1:20:-:0a{want_seq}' not in rep or f'1:20:-:41{want_id}' not in rep:
                    chk.fail('file-header:content', case, f'decoded header {rep[:200]}')
    eflr.late_header_stream(chk, model, bres, rng('C04', 'file-header-late'), 60 if tier == 'quick' else 600)
    # a write refused in the middle of a set, the object corrected, the same DLISFile written again
    from harness import wholefile as wf
    from harness import filegen
    wf.refused_then_corrected('C04', tier, model, bres, chk, 30, 300)
    # whole files: every set record of a written file follows the grammar, template and objects agreeing - in
    # particular sets whose objects differ in what the write derives for them (frames with and without an index in one
    # FRAME set, in either order)
    Rw = rng('C04', 'whole-file-sets')
    specs = []
    for i in range(50 if tier == 'quick' else 500):
        plan = None
        if i % 2 == 0:
            plan = [Rw.choice([None, 'uniform']) for _ in range(Rw.choice([2, 2, 3]))]
            if i % 4 == 0:
                plan[0], plan[-1] = None, 'uniform'
        specs.append((i, filegen.gen_spec(Rw, n_lf=Rw.choice([1, 1, 2]), frames_plan=plan, small=False, rows=Rw.choice([2, 3, 5]))))
    for r in wf.execute(specs, model, bres, chk, stream='whole-file-sets'):
        chk.case('whole-file-sets', nontrivial_key=('wfs', r.index) if r.res['status'] == 'ok' else None, sample=wf.sample_of(r))
        if r.res['status'] == 'ok' and bres.ok:
            wf.oracle_readable(r, chk, 'whole-file-sets')
    return finish(chk, bres, THEOREMS,
                  partial_note='The description given to the model is read from the live objects after the write-time '
                               'defaults ran; how user input becomes that state is C05.')
