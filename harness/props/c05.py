"""C03 / C05 / C08 / C16 — content properties decided on whole files (one runner, parameterised)."""
from harness.common import Check, Model, build, finish
from harness import wholefile as wf

CFG = {
    'C05': dict(
        theorems=['Dlis.C05.decode_attr_fidelity', 'Dlis.C05.decodeVal_encVal', 'Dlis.C05.values_fidelity',
                  'Dlis.C05.assigned_held_exactly', 'Dlis.C05.assigned_held_leafwise', 'Dlis.C05.numeric_value_kept',
                  'Dlis.C05.int_as_double_exact', 'Dlis.C05.status_value_kept', 'Dlis.C05.dtime_value_kept',
                  'Dlis.C05.writer_gets_held_values', 'Dlis.C05.unassigned_is_absent', 'Dlis.C05.assigned_dimension_kept',
                  'Dlis.C05.derived_dimension_is_shape', 'Dlis.C05.parameter_dimension_kept', 'Dlis.C05.channel_from_data',
                  'Dlis.C05.channel_defaults_keep', 'Dlis.C05.field_name_default',
                  'Dlis.C04.parseEflr_setBody', 'Dlis.Obligations.attrs_eq', 'Dlis.Obligations.enums_eq',
                  'Dlis.Obligations.convs_eq', 'Dlis.Obligations.codeClasses_eq', 'Dlis.Obligations.dtimeFormats_eq',
                  'Dlis.Obligations.sets_eq', 'Dlis.Obligations.genericTypes_eq'],
        rule='random valid specifications (1..3 logical files, all 21 object types, attribute subsets none/30%/60%/all, '
             'value domains per attribute kind incl. non-finite floats, signed zero, long text, aware/naive/string '
             'date-times, enum members and values, references, multiplicities 0..200, nested lists, units; routes '
             'keyword / dict / AttrSetup) written by the real package; oracle = Lean reader dump vs expectation from '
             'the specification. Distinct by generated index. Stream `convert`: for every attribute of every object type '
             '(pinned schema), 1..3 set_attributes calls (plain / dict in both key orders / AttrSetup / units only / '
             'bad key) with values of every Python kind (bool, ints to 2**1100, floats incl. NaN/inf/-0.0/subnormal, '
             'numeric / date / enum / non-ASCII / long strings, datetimes naive and aware, items of the right and of '
             'other types, enum members, None, object(), lists/tuples nested to depth 3), in and outside '
             'high-compatibility mode: outcome of each call, held value, units, representation code, count and the '
             'attribute component bytes are compared with the Lean converter model. Stream `defaults`: parameters, computations, '
             'calibration measurements / coefficients and channels with consistent and inconsistent values / zones / '
             'dimension / axis / element limit combinations: outcome and result of _run_checks_and_set_defaults and '
             '_set_dimension_from_data vs Model/Defaults.lean, oracle: nothing assigned is replaced.',
        note='state->file is proved (decode_attr_fidelity); user input->state is the converter model '
             '(assigned_held_exactly / assigned_held_leafwise / numeric_value_kept / ...), instantiated from the pinned '
             'table Standard.convs (Obligations.convs_eq) and compared with the real setters by the convert stream; '
             'int(str), float(str) and strptime are parameters of the model (trusted: the Python builtins); three '
             'single-class converters (REPRESENTATION-CODE no_set, ENCRYPTED, FILE-SET-NUMBER) and numpy scalars as '
             'attribute values are outside the converter model; write-time defaults are tied by the whole-file oracle.'),
    'C03': dict(
        theorems=['Dlis.C03.frame_data_roundtrip', 'Dlis.C03.window_rows', 'Dlis.C03.element_bits',
                  'Dlis.C03.cast_element_roundtrip', 'Dlis.C03.cast_exact_when_held', 'Dlis.C03.cast_wraps',
                  'Dlis.C03.cast_int_to_double_exact',
                  'Dlis.Obligations.dtypeCodes_eq', 'Dlis.Obligations.iflrTypes_eq'],
        rule='frames with 1..5 channels, 8 dtypes, scalar or width 1..5, rows 1..17, arbitrary bit patterns (extremes, '
             'NaN payloads, signed zero), byte order / F-order / strided / read-only / view layouts, input chunk sizes '
             '1,2,3,1000,None, record lengths 20..16384, inline and dict sources; oracle decodes every frame-data '
             'record with the layout declared by the decoded CHANNEL objects.',
        note='numpy element access for any byte order/stride/layout and the cast are outside the model (partial); the '
             'harness extracts the expected bit patterns independently (contiguous native copy viewed as uintN).'),
    'C08': dict(
        theorems=['Dlis.C08.descriptor_layout', 'Dlis.C08.record_length', 'Dlis.C08.dtype_table',
                  'Dlis.C03.frame_data_roundtrip', 'Dlis.Obligations.dtypeCodes_eq'],
        rule='as C03, oracle compares decoded REPRESENTATION-CODE / DIMENSION / ELEMENT-LIMIT of every listed channel '
             'with the dtype and per-row shape of the data given, and decodes every record under that layout (length).',
        note='user-specified inconsistent dimension/element-limit (rejection branch) is exercised by the C12 stream.'),
    'C16': dict(
        theorems=['Dlis.C16.noformat_roundtrip', 'Dlis.C16.noformat_length', 'Dlis.C16.noformat_order_preserved'],
        rule='0..3 payloads (bytes or str; length 0,1,2,5,11,12,13,100, 3 capacities+1; arbitrary byte values) over the '
             'NO-FORMAT objects of each logical file, record lengths 20..16384.',
        note=''),
}


INT_TYPES = {'int8': (1, 1), 'int16': (2, 1), 'int32': (4, 1), 'uint8': (1, 0), 'uint16': (2, 0), 'uint32': (4, 0)}


def integer_cast_stream(chk, model, bres, tier, prop):
    """a declared cast between integer types, values over the whole range of the source type (edges of both types
    included): (a) numpy's own conversion vs `castInt` / `encInt` of Model/Cast.lean; (b) through the library: the file
    written from the source values with `cast_dtype` is, byte for byte, the file written without a cast from the values
    the MODEL computes, held in an array of the target type"""
    import shutil
    import tempfile
    import numpy as np
    from harness.common import rng, hexs
    from harness.impl import call
    from dliswriter import DLISFile
    if not bres.ok:
        return
    R = rng(prop, 'integer-casts')
    tmp = tempfile.mkdtemp(prefix='verif_cast_')
    try:
        pairs = [(a, b) for a in INT_TYPES for b in INT_TYPES if a != b] + [(a, b) for a in INT_TYPES for b in ('float32', 'float64')]
        for i, (src, dst) in enumerate(pairs * (1 if tier == 'quick' else 6)):
            lo, hi = np.iinfo(src).min, np.iinfo(src).max
            if dst.startswith('float'):
                # integer data declared as float32 / float64: castIntToF32 / castIntToF64 (bit patterns)
                rows = R.choice([4, 6, 9])
                cand = [lo, hi, lo + 1, hi - 1, 0, 1, -1, 2**24, 2**24 + 1, 2**24 + 2, 2**24 + 3, -2**24 - 1, 2**31 - 65, 2**25 + 2, 2**25 + 6]
                vals = [int(v) for v in cand if lo <= v <= hi]
                R.shuffle(vals)
                vals = (vals + [R.randint(lo, hi) for _ in range(rows)])[:rows]
                w = 4 if dst == 'float32' else 8
                rep = model.ask([f"castf {w} {','.join(str(v) for v in vals)}"])[0]
                x = np.array(vals, dtype=src)
                want = [int(b) for b in x.astype(dst).view(f'uint{8 * w}').tolist()]
                case = {'from': src, 'to': dst, 'values': vals}
                chk.case('integer-casts', nontrivial_key=('ic', i), sample={'from': src, 'to': dst, 'first_values': vals[:6]})
                if not rep.startswith('ok ') or rep.split(' ')[1].split(',') != [str(b) for b in want]:
                    chk.disagree('integer-casts:numpy', case, str(want), rep)
                    continue
                fl = np.array(want, dtype=f'uint{8 * w}').view(dst)

                def buildf(cast):
                    df = DLISFile(set_identifier='CAST')
                    lf = df.add_logical_file(fh_id='H')
                    lf.add_origin('O', file_set_number=1, creation_time='2020/01/01 00:00:00')
                    kw = {'cast_dtype': np.dtype(dst)} if cast else {}
                    chans = [lf.add_channel('DEPTH', data=np.arange(rows, dtype=np.float64)),
                             lf.add_channel('V', data=(x if cast else fl), **kw)]
                    lf.add_frame('F', channels=chans)
                    path = f'{tmp}/f{int(cast)}.dlis'
                    df.write(path, output_chunk_size=2**20)
                    return open(path, 'rb').read()
                (s0, b0), (s1, b1) = call(buildf, False), call(buildf, True)
                chk.count(f'integer-casts:float:{s0}:{s1}')
                if s0 == 'ok' and s1 != 'ok':
                    chk.fail('integer-casts:refused', case, f'write with cast_dtype={dst} raises {b1}')
                elif s0 == 'ok' and b0 != b1:
                    chk.fail('integer-casts:file-differs', case, f'the file written with cast_dtype={dst} differs from the one written '
                                                                 f'from the nearest {dst} values')
                continue
            dlo, dhi = np.iinfo(dst).min, np.iinfo(dst).max
            rows = R.choice([4, 6, 9])
            width = R.choice([None, None, 3])
            n = rows * (width or 1)
            cand = [lo, hi, lo + 1, hi - 1, 0, 1, -1, dlo, dhi, dlo - 1, dhi + 1, 127, 128, 255, 256, 32767, 32768, 65535, 65536]
            vals = [int(v) for v in cand if lo <= v <= hi]
            R.shuffle(vals)
            vals = (vals + [R.randint(lo, hi) for _ in range(n)])[:n]
            nb, sg = INT_TYPES[dst]
            rep = model.ask([f"cast {nb} {sg} {','.join(str(v) for v in vals)}"])[0]
            x = np.array(vals, dtype=src)
            want = x.astype(dst)
            case = {'from': src, 'to': dst, 'values': vals, 'width': width}
            chk.case('integer-casts', nontrivial_key=('ic', i), sample={'from': src, 'to': dst, 'first_values': vals[:6]})
            if not rep.startswith('ok '):
                chk.disagree('integer-casts:numpy', case, str(want.tolist()), rep)
                continue
            mvals = [int(t) for t in rep.split(' ')[1].split(',')]
            mhex = rep.split(' ')[2]
            if mvals != [int(t) for t in want.tolist()] or mhex != hexs(want.astype(np.dtype(dst).newbyteorder('>')).tobytes()):
                chk.disagree('integer-casts:numpy', case, f'{want.tolist()} {hexs(want.astype(np.dtype(dst).newbyteorder(">")).tobytes())}', rep)
                continue
            shape = (rows,) if width is None else (rows, width)
            how = ['inline', 'dict', 'hdf5', 'struct'][i % 4]

            def build(cast):
                df = DLISFile(set_identifier='CAST')
                lf = df.add_logical_file(fh_id='H')
                lf.add_origin('O', file_set_number=1, creation_time='2020/01/01 00:00:00')
                d = np.arange(rows, dtype=np.float64)
                arr = x.reshape(shape) if cast else np.array(mvals, dtype=dst).reshape(shape)
                kw = {'cast_dtype': np.dtype(dst)} if cast else {}
                if how == 'inline':
                    chans = [lf.add_channel('DEPTH', data=d), lf.add_channel('V', data=arr, **kw)]
                    data = None
                else:
                    chans = [lf.add_channel('DEPTH'), lf.add_channel('V', **kw)]
                    data = {'DEPTH': d, 'V': arr}
                    if how in ('hdf5', 'struct'):
                        # the same data sets as an HDF5 file / a structured array: whatever holds the numbers, a declared
                        # cast is the conversion numpy makes
                        from harness import filegen
                        data = filegen.make_source(how, data, {'tmpdir': tmp, 'h5name': f'src{int(cast)}.h5', 'exact': True})
                lf.add_frame('F', channels=chans)
                path = f'{tmp}/{int(cast)}.dlis'
                df.write(path, output_chunk_size=2**20, **({'data': data} if data is not None else {}))
                return open(path, 'rb').read()
            (s0, b0), (s1, b1) = call(build, False), call(build, True)
            chk.count(f'integer-casts:{s0}:{s1}')
            if s0 != 'ok':
                continue
            if s1 != 'ok':
                chk.fail('integer-casts:refused', dict(case, route=how), f'write with cast_dtype={dst} raises {b1}')
            elif b0 != b1:
                chk.fail('integer-casts:file-differs', dict(case, route=how),
                         f'the file written with cast_dtype={dst} differs from the one written from the values reduced modulo '
                         f'2^{8 * nb} held as {dst}')
    finally:
        shutil.rmtree(tmp, ignore_errors=True)


def shared_dataset_stream(chk, tier, prop):
    """two or three channels of one frame fed from ONE data set (the `dataset_name` setter), each with its own cast dtype
    or none, scalar or 2-D: the file must be, byte for byte, the one written when every channel has a copy of the data
    under a data set name of its own (every channel is described and written under its own type)"""
    import shutil
    import tempfile
    import numpy as np
    from harness.common import rng
    from harness.impl import call
    from dliswriter import DLISFile
    R = rng(prop, 'shared-data-set')
    tmp = tempfile.mkdtemp(prefix='verif_shds_')
    dts = ['uint8', 'uint16', 'uint32', 'int16', 'int32', 'float32', 'float64']
    try:
        for i in range(40 if tier == 'quick' else 400):
            rows = R.choice([2, 3, 5])
            width = R.choice([None, None, 3, 5])
            src_dt = R.choice(dts)
            shape = (rows,) if width is None else (rows, width)
            x = np.array([R.randrange(0, 100) for _ in range(int(np.prod(shape)))]).reshape(shape).astype(src_dt)
            casts = [R.choice([None, None] + [d for d in dts if d != src_dt]) for _ in range(R.choice([2, 2, 3]))]
            how = R.choice(['setter', 'setter', 'write-dict'])

            def build(shared):
                df = DLISFile(set_identifier='SHDS')
                lf = df.add_logical_file(fh_id='H')
                lf.add_origin('O', file_set_number=1, creation_time='2020/01/01 00:00:00')
                chans = [lf.add_channel('DEPTH', data=np.arange(rows, dtype=np.float64))]
                data = {}
                for k, c in enumerate(casts):
                    kw = {} if c is None else {'cast_dtype': np.dtype(c)}
                    if not shared:
                        chans.append(lf.add_channel(f'C{k}', data=x.copy(), **kw))
                    elif how == 'setter':
                        if k == 0:
                            chans.append(lf.add_channel(f'C{k}', data=x, dataset_name='x', **kw))
                        else:
                            ch = lf.add_channel(f'C{k}', **kw)
                            ch.dataset_name = 'x'
                            chans.append(ch)
                    else:
                        ch = lf.add_channel(f'C{k}', **kw)
                        ch.dataset_name = 'x'
                        chans.append(ch)
                        data = {'x': x}
                lf.add_frame('F', channels=chans)
                return df, data
            case = {'rows': rows, 'width': width, 'data_dtype': src_dt, 'cast_dtypes': casts, 'shared_through': how}
            out = []
            for shared in (False, True):
                def go():
                    df, data = build(shared)
                    path = f'{tmp}/{int(shared)}.dlis'
                    df.write(path, output_chunk_size=2**20, **({'data': data} if data else {}))
                    return open(path, 'rb').read()
                out.append(call(go))
            (s0, b0), (s1, b1) = out
            chk.case('shared-data-set', nontrivial_key=('shds', i), sample=dict(case, own_copies=s0, shared=s1))
            chk.count(f'shared-data-set:{s0}:{s1}')
            if s0 != 'ok':
                continue
            if s1 != 'ok':
                chk.fail('shared-data-set:refused', case, f'channels sharing a data set: write raises {b1}; with copies of the data it succeeds')
            elif b0 != b1:
                chk.fail('shared-data-set:file-differs', case, 'the file written from one shared data set differs from the one '
                         'written from a copy of the data per channel (a channel written under another channel\'s type)')
    finally:
        shutil.rmtree(tmp, ignore_errors=True)


def run_prop(prop, tier):
    cfg = CFG[prop]
    chk = Check(prop, tier)
    chk.rule = cfg['rule']
    bres = build(cfg['theorems'])
    model = Model()
    kinds = None
    if prop == 'C16':
        kinds = {'no_format', 'zone', 'axis'}
    n_q, n_t = (400, 3000) if prop in ('C05',) else (300, 2500)
    specs = list(wf.generate(prop, tier, n_q, n_t, kinds=kinds))
    if prop in ('C03', 'C08'):
        # structured array that is exactly the frame (no-copy path), with and without casts
        specs += [(10000 + i, s) for i, s in wf.generate(prop, tier, 150, 1200, stream='fastpath', kinds=set(), fastpath=True)]
    runs = wf.execute(specs, model, bres, chk, want_live_desc=(prop == 'C05'))
    for r in runs:
        chk.case('whole-file', nontrivial_key=r.index if r.res['status'] == 'ok' else None, sample=wf.sample_of(r))
    if prop == 'C05':
        wf.eflr_correspondence(runs, model, bres, chk)
        from harness import convert
        from harness.common import rng
        from harness.filegen import ATTRS
        convert.run_stream(chk, model, bres, rng('C05', 'convert'), 12 if tier == 'quick' else 80, ATTRS)
        from harness import defaults
        defaults.run_stream(chk, model, bres, rng('C05', 'defaults'), 600 if tier == 'quick' else 6000)
        defaults.sequence_stream(chk, model, bres, rng('C05', 'dimension-sequences'), 150 if tier == 'quick' else 1500)
        convert.run_numberlike(chk, model, bres, rng('C05', 'number-like'), 600 if tier == 'quick' else 6000, ATTRS)
    else:
        wf.iflr_correspondence(runs, model, bres, chk)
    for r in runs:
        if r.res['status'] != 'ok':
            continue
        if not bres.ok:
            continue
        if not wf.oracle_readable(r, chk, prop.lower()):
            continue
        if prop == 'C05':
            wf.oracle_fidelity(r, chk)
        if prop == 'C08':
            wf.oracle_channel_descriptors(r, chk)
    if prop in ('C03', 'C08'):
        wf.run_frames_oracle(runs, model, bres, chk)
    if prop == 'C16':
        wf.run_noformat_oracle(runs, model, bres, chk)
    if prop == 'C08':
        rewrite_stream(chk, model, bres, tier)
    if prop in ('C08', 'C03'):
        shared_dataset_stream(chk, tier, prop)
        integer_cast_stream(chk, model, bres, tier, prop)
    if prop in ('C08', 'C03'):
        # a frame that lists two channels of one name (they differ in copy number only): refused, or written so that the
        # descriptors of BOTH channels describe the slots of every row
        from harness.common import rng
        from harness import filegen
        Rs = rng(prop, 'same-named')
        specs2 = []
        for i in range(40 if tier == 'quick' else 300):
            sp = filegen.gen_spec(Rs, n_lf=1, small=True)
            sp['write'].update({'data_kind': Rs.choice(['inline', 'dict']), 'from_idx': 0, 'to_idx': None})
            fr = next((o for o in sp['lfs'][0]['objects'] if o['kind'] == 'frame'), None)
            chans = [sp['lfs'][0]['objects'][r_.idx] for r_ in fr['channels']] if fr else []
            if len(chans) < 2:
                continue
            a_, b_ = chans[-1], chans[-2 if len(chans) > 2 else 0]
            if a_.get('index_like') or b_.get('index_like'):
                continue
            a_['name'] = b_['name']
            a_['dataset_name'] = None
            b_['dataset_name'] = None
            specs2.append((50000 + i, sp))
        runs2 = wf.execute(specs2, model, bres, chk, stream='same-named-channels')
        good2 = []
        for r in runs2:
            chk.case('same-named-channels', nontrivial_key=('snc', r.index), sample=wf.sample_of(r))
            if r.res['status'] == 'ok' and bres.ok and wf.oracle_readable(r, chk, prop.lower() + '-same-named'):
                if prop == 'C08':
                    wf.oracle_channel_descriptors(r, chk)
                good2.append(r)
        before = len(chk.failures)
        wf.run_frames_oracle(good2, model, bres, chk)
        for f in chk.failures[before:]:
            f['key'] = 'same-named:' + f['key']
    if prop in ('C03', 'C05', 'C16'):
        # objects renamed / given another origin after a first write, then the same DLISFile written again: the second
        # file is held against the changed specification by the same oracles
        rk = {'no_format', 'zone', 'axis'} if prop == 'C16' else None
        rr = [r for r in wf.rewrite_runs(prop, tier, model, bres, chk, 40, 400, kinds=rk)
              if bres.ok and wf.oracle_readable(r, chk, prop.lower() + '-rewrite')]
        before = len(chk.failures)
        if prop == 'C05':
            for r in rr:
                wf.oracle_fidelity(r, chk)
        elif prop == 'C03':
            wf.run_frames_oracle(rr, model, bres, chk)
        else:
            wf.run_noformat_oracle(rr, model, bres, chk)
        for f in chk.failures[before:]:
            f['key'] = 'rewrite:' + f['key']
    return finish(chk, bres, cfg['theorems'], partial_note=cfg['note'])


def rewrite_stream(chk, model, bres, tier):
    """write, then change a channel's cast dtype (public setter) or hand in data of another dtype, write again: the
    second file's descriptors must still describe the layout of its own records"""
    import copy
    import shutil
    import tempfile
    import numpy as np
    from harness.common import rng
    from harness import filegen, content
    from harness.filegen import DT_RC
    from harness.impl import call
    if not bres.ok:
        return
    RC_DT = {v: k for k, v in DT_RC.items()}
    R = rng('C08', 'rewrite')
    tmp = tempfile.mkdtemp(prefix='verif_c08_')
    try:
        runs = []
        for i in range(100 if tier == 'quick' else 800):
            spec = filegen.gen_spec(R, n_lf=1, small=True, vrl=R.choice([8192, 128]), with_index=False)
            spec['write'].update({'data_kind': 'dict', 'input_chunk_size': None, 'output_chunk_size': 2**20,
                                  'from_idx': 0, 'to_idx': None})
            r1 = filegen.write(spec, tmp, fname='r1.dlis')
            if r1['status'] != 'ok':
                continue
            b = r1['built'] if r1.get('built') is not None else None
            if b is None:
                b = filegen.build(spec)
                call(b.df.write, f'{tmp}/r1.dlis', data=b.data, output_chunk_size=2**20)
            lf = spec['lfs'][0]
            chans = [(oi, o) for oi, o in enumerate(lf['objects']) if o['kind'] == 'channel']
            oi, o = R.choice(chans)
            s2 = copy.copy(spec)
            s2['lfs'] = [dict(lf, objects=[dict(x) for x in lf['objects']])]
            o2 = s2['lfs'][0]['objects'][oi]
            mode = R.choice(['cast', 'data'])
            new_dt = R.choice([d for d in filegen.DTYPES if d != o['dtype']])
            if mode == 'cast':
                b.handles[0][oi].cast_dtype = getattr(np, new_dt)
                o2['cast_dtype'] = new_dt
            else:
                key = b.handles[0][oi].dataset_name      # (explicit, or the name the library handed out)
                vals = np.arange(o['data'].size).reshape(o['data'].shape) % 100
                b.data[key] = vals.astype(new_dt)
                o2['data'] = b.data[key]
                o2['dtype'] = new_dt
            st, err = call(b.df.write, f'{tmp}/r2.dlis', data=b.data, output_chunk_size=2**20)
            case = {'index': i, 'spec': filegen.describe(spec), 'after_first_write': f'channel #{oi}: {mode} -> {new_dt}'}
            chk.case('rewrite', nontrivial_key=('rw', i), sample={'index': i, 'change': f'{mode}->{new_dt}', 'second_write': st})
            if st != 'ok':
                chk.count(f'rewrite:second-write-{err}')
                continue
            data2 = open(f'{tmp}/r2.dlis', 'rb').read()
            rep = model.ask([filegen.dump_req(spec, data2)])[0]
            if not rep.startswith('ok'):
                chk.fail('rewrite:unreadable', case, 'strict reader rejects the second file')
                continue
            r = wf.Run()
            r.index, r.case, r.res = i, case, {'status': 'ok', 'data': data2}
            r.recs = filegen.parse_dump(rep)
            # the dtype each channel is DECLARED with in the second file decides how a reader slices; expectation:
            # the current data cast to that dtype
            declared = {}
            for rec in r.recs:
                if rec['eflr'] and rec.get('set_type') == 'CHANNEL':
                    labs = [t['label'] for t in rec['template']]
                    for ob in rec['objects']:
                        a = dict(zip(labs, ob['attrs']))
                        if a.get('REPRESENTATION-CODE'):
                            declared[ob['name']] = RC_DT.get(int(a['REPRESENTATION-CODE']['vals'][0][1:]))
            s3 = copy.copy(s2)
            s3['lfs'] = [dict(s2['lfs'][0], objects=[dict(x) for x in s2['lfs'][0]['objects']])]
            for x in s3['lfs'][0]['objects']:
                if x['kind'] == 'channel' and declared.get(x['name']) and declared[x['name']] != x['dtype']:
                    x['cast_dtype'] = declared[x['name']]
            r.spec = s3
            r.sim, r.exp = content.expected(s3)
            if wf.oracle_readable(r, chk, 'c08-rewrite'):
                runs.append(r)
        before = len(chk.failures)
        wf.run_frames_oracle(runs, model, bres, chk)
        for f in chk.failures[before:]:
            f['key'] = 'rewrite:' + f['key']
    finally:
        shutil.rmtree(tmp, ignore_errors=True)


def run(tier):
    return run_prop('C05', tier)
