"""C03 / C05 / C08 / C16 — content properties decided on whole files (one runner, parameterised)."""
from harness.common import Check, Model, build, finish
from harness import wholefile as wf

CFG = {
    'C05': dict(
        theorems=['Dlis.C05.decode_attr_fidelity', 'Dlis.C05.decodeVal_encVal', 'Dlis.C05.values_fidelity',
                  'Dlis.C04.parseEflr_setBody', 'Dlis.Obligations.attrs_eq', 'Dlis.Obligations.enums_eq',
                  'Dlis.Obligations.sets_eq', 'Dlis.Obligations.genericTypes_eq'],
        rule='random valid specifications (1..3 logical files, all 21 object types, attribute subsets none/30%/60%/all, '
             'value domains per attribute kind incl. non-finite floats, signed zero, long text, aware/naive/string '
             'date-times, enum members and values, references, multiplicities 0..200, nested lists, units; routes '
             'keyword / dict / AttrSetup) written by the real package; oracle = Lean reader dump vs expectation from '
             'the specification. Distinct by generated index.',
        note='state->file is proved (decode_attr_fidelity); user input->state (converters, write-time defaults) is tied '
             'by the whole-file oracle against an expectation computed from the API arguments and the pinned schema.'),
    'C03': dict(
        theorems=['Dlis.C03.frame_data_roundtrip', 'Dlis.C03.window_rows', 'Dlis.C03.element_bits',
                  'Dlis.Obligations.dtypeCodes_eq', 'Dlis.Obligations.iflrTypes_eq'],
        rule='frames with 1..5 channels, 8 dtypes, scalar or width 1..5, rows 1..17, arbitrary bit patterns (extremes, '
             'NaN payloads, signed zero), byte order / F-order / strided / read-only / view layouts, input chunk sizes '
             '1,2,3,1000,None, record lengths 20..16384, inline and dict sources; oracle decodes every frame-data '
             'record with the layout declared by the decoded CHANNEL objects.',
        note='numpy element access for any byte order/stride/layout and the cast are outside the model (partial); the '
             'harness extracts the expected bit patterns independently (contiguous native copy viewed as uintN).'),
    'C08': dict(
        theorems=['Dlis.C08.descriptor_layout', 'Dlis.C08.record_length', 'Dlis.C08.dtype_table',
                  'Dlis.C03.frame_data_roundtrip', 'Dlis.Obligations.dtypeCodes_eq'],
        rule='as C03, oracle compares decoded REPRESENTATION-CODE / DIMENSION / ELEMENT-LIMIT of every listed channel '
             'with the dtype and per-row shape of the data given, and decodes every record under that layout (length).',
        note='user-specified inconsistent dimension/element-limit (rejection branch) is exercised by the C12 stream.'),
    'C16': dict(
        theorems=['Dlis.C16.noformat_roundtrip', 'Dlis.C16.noformat_length', 'Dlis.C16.noformat_order_preserved'],
        rule='0..3 payloads (bytes or str; length 0,1,2,5,11,12,13,100, 3 capacities+1; arbitrary byte values) over the '
             'NO-FORMAT objects of each logical file, record lengths 20..16384.',
        note=''),
}


def run_prop(prop, tier):
    cfg = CFG[prop]
    chk = Check(prop, tier)
    chk.rule = cfg['rule']
    bres = build(cfg['theorems'])
    model = Model()
    kinds = None
    if prop == 'C16':
        kinds = {'no_format', 'zone', 'axis'}
    n_q, n_t = (150, 1500) if prop in ('C05',) else (120, 1200)
    specs = list(wf.generate(prop, tier, n_q, n_t, kinds=kinds))
    runs = wf.execute(specs, model, bres, chk, want_live_desc=(prop == 'C05'))
    for r in runs:
        chk.case('whole-file', nontrivial_key=r.index if r.res['status'] == 'ok' else None, sample=wf.sample_of(r))
    if prop == 'C05':
        wf.eflr_correspondence(runs, model, bres, chk)
    else:
        wf.iflr_correspondence(runs, model, bres, chk)
    for r in runs:
        if r.res['status'] != 'ok':
            continue
        if not bres.ok:
            continue
        if not wf.oracle_readable(r, chk, prop.lower()):
            continue
        if prop == 'C05':
            wf.oracle_fidelity(r, chk)
        if prop == 'C08':
            wf.oracle_channel_descriptors(r, chk)
    if prop in ('C03', 'C08'):
        wf.run_frames_oracle(runs, model, bres, chk)
    if prop == 'C16':
        wf.run_noformat_oracle(runs, model, bres, chk)
    return finish(chk, bres, cfg['theorems'], partial_note=cfg['note'])


def run(tier):
    return run_prop('C05', tier)
