from harness.props.c07 import run_prop


def run(tier):
    return run_prop('C18', tier)
