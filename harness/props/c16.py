from harness.props.c05 import run_prop


def run(tier):
    return run_prop('C16', tier)
