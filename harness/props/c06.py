"""C06 — primitive encodings.  Correspondence: real write_struct* vs the Lean encoders; oracle: the Lean strict
decoders applied to the implementation's bytes + the standard's value domain."""
import datetime as dtm
import struct

import numpy as np

from harness.common import Check, Model, build, finish, rng, hexs, cps
from harness import impl
from harness.impl import sw, RC, call

THEOREMS = [
    'Dlis.C06.unsigned_roundtrip', 'Dlis.C06.unsigned_domain', 'Dlis.C06.signed_roundtrip',
    'Dlis.C06.signed_domain', 'Dlis.C06.uvari_roundtrip', 'Dlis.C06.uvari_domain', 'Dlis.C06.ascii_roundtrip',
    'Dlis.C06.ascii_domain', 'Dlis.C06.ident_roundtrip', 'Dlis.C06.ident_domain', 'Dlis.C06.dtime_roundtrip',
    'Dlis.C06.dtime_millisecond', 'Dlis.C06.obname_roundtrip', 'Dlis.C06.obname_domain',
    'Dlis.C06.objref_roundtrip', 'Dlis.C06.status_roundtrip', 'Dlis.C06.status_domain',
    'Dlis.C06.bits_roundtrip', 'Dlis.C06.fsingl_exact_when_representable', 'Dlis.C06.fsingl_rounds_to_nearest',
    'Dlis.C06.fsingl_refuses_out_of_range', 'Dlis.C06.fsingl_special',
    'Dlis.Obligations.uvari_offsets', 'Dlis.Obligations.repcodes_eq', 'Dlis.Obligations.structDict_eq',
]


class FakeSet:
    def __init__(self, set_type):
        self.set_type = set_type


class FakeItem:
    """What write_struct_obname/objref read from an item: origin_reference, copy_number, name, parent, obname."""

    def __init__(self, origin, copy, name, set_type='CHANNEL'):
        self.origin_reference = origin
        self.copy_number = copy
        self.name = name
        self.parent = FakeSet(set_type)

    @property
    def obname(self):
        return sw.write_struct_obname(self)

    def __hash__(self):
        return id(self)


def ident_func():
    """IDENT as the implementation writes it wherever the standard prescribes IDENT (through write_struct)."""
    return lambda s: sw.write_struct(RC.IDENT, s)


INT_CODES = {'U1': (RC.USHORT, 0, 255), 'U2': (RC.UNORM, 0, 65535), 'U4': (RC.ULONG, 0, 2**32 - 1),
             'S1': (RC.SSHORT, -128, 127), 'S2': (RC.SNORM, -32768, 32767), 'S4': (RC.SLONG, -2**31, 2**31 - 1)}


def gen_cases(tier, R):
    """yield (kind, request line for the model, thunk calling the implementation, expectation)
    expectation: ('valid', decoder kind, canonical decoded value) | ('invalid',)"""
    thorough = tier == 'thorough'
    # --- UVARI
    vals = list(range(0, 70001 if thorough else 17000)) + [2**30 - 3 + i for i in range(6)] + \
        [-1, -2, -128, 2**32 - 1, 2**32, 2**31, 16383, 16384, 16385, 127, 128] + \
        [R.randrange(0, 2**30) for _ in range(3000 if thorough else 500)]
    for v in vals:
        exp = ('valid', 'uvari', str(v)) if 0 <= v < 2**30 else ('invalid',)
        yield ('uvari', f'uvari {v}', (lambda v=v: sw.write_struct(RC.UVARI, v)), exp, v)
    # --- fixed-width integers
    for kind, (rc, lo, hi) in INT_CODES.items():
        k = int(kind[1])
        vs = set()
        for edge in (lo, hi, 0, -1, 1, lo // 2, hi // 2, 2**(8 * k), -2**(8 * k)):
            for d in range(-3, 4):
                vs.add(edge + d)
        for _ in range(400 if thorough else 60):
            vs.add(R.randrange(lo - 10, hi + 10))
        for v in sorted(vs):
            exp = ('valid', kind, str(v)) if lo <= v <= hi else ('invalid',)
            yield (kind, f'{kind[0]} {k} {v}', (lambda v=v, rc=rc: sw.write_struct(rc, v)), exp, v)
    # --- STATUS
    for v in (-1, 0, 1, 2, 255, 256):
        exp = ('valid', 'status', str(v)) if v in (0, 1) else ('invalid',)
        yield ('status', f'status {v}', (lambda v=v: sw.write_struct(RC.STATUS, v)), exp, v)
    # --- IDENT / ASCII text
    alphabet = 'ABCXYZ-_09 azé\x7f\x80Ā'
    def mk(n, ascii_only):
        a = alphabet[:12] if ascii_only else alphabet
        return ''.join(R.choice(a) for _ in range(n))
    lens = list(range(0, 301)) + [126, 127, 128, 129, 254, 255, 256, 257, 400]
    for n in lens:
        for ascii_only in ((True,) if n % 7 else (True, False)):
            s = mk(n, ascii_only)
            ok = s.isascii() and n <= 255
            exp = ('valid', 'ident', hexs(s.encode('ascii'))) if ok else ('invalid',)
            yield ('ident', f'ident {cps(s)}', (lambda s=s: sw.write_struct(RC.IDENT, s)), exp, s)
    alens = list(range(0, 200, 9)) + [127, 128, 129, 16383, 16384, 16385, 20000] + \
        ([30000, 70000] if thorough else [])
    for n in alens:
        for ascii_only in (True, False):
            s = mk(n, ascii_only)
            ok = s.isascii()
            exp = ('valid', 'ascii', hexs(s.encode('ascii'))) if ok else ('invalid',)
            yield ('ascii', f'ascii {cps(s)}', (lambda s=s: sw.write_struct(RC.ASCII, s)), exp, s)
    # --- DTIME (UTC-aware datetimes; the instant is computed independently from the timestamp)
    utc = dtm.timezone.utc
    dts = []
    for _ in range(5000 if thorough else 800):
        y = R.choice([1900, 1901, 1999, 2000, 2024, 2154, 2155, R.randrange(1900, 2156), R.randrange(1, 9999)])
        mo = R.randrange(1, 13)
        d = R.randrange(1, 29)
        us = R.choice([0, 499, 500, 501, 1500, 2500, 999499, 999500, 999999, R.randrange(0, 10**6)])
        tz = R.choice([utc, utc, dtm.timezone(dtm.timedelta(minutes=R.randrange(-14 * 60, 14 * 60 + 1)))])
        try:
            t = dtm.datetime(y, mo, d, R.randrange(24), R.randrange(60), R.randrange(60), us, tzinfo=tz)
            u = t.astimezone(utc)
        except (OverflowError, ValueError):
            continue
        dts.append((t, u))
    for t, u in dts:
        # independent expectation of the UTC fields: integer arithmetic on the aware datetime
        off = t.utcoffset()
        naive = t.replace(tzinfo=None) - off
        assert (naive.year, naive.month, naive.day, naive.hour, naive.minute, naive.second) == \
            (u.year, u.month, u.day, u.hour, u.minute, u.second)
        us = naive.microsecond
        q, r = divmod(us, 1000)
        ms = q if r < 500 else q + 1 if r > 500 else (q if q % 2 == 0 else q + 1)
        ms = min(ms, 999)
        ok = 1900 <= naive.year <= 2155
        exp = ('valid', 'dtime', f'{naive.year - 1900},2,{naive.month},{naive.day},{naive.hour},{naive.minute},'
                                 f'{naive.second},{ms}') if ok else ('invalid',)
        yield ('dtime', f'dtime {naive.year} {naive.month} {naive.day} {naive.hour} {naive.minute} {naive.second} {us}',
               (lambda t=t: sw.write_struct(RC.DTIME, t)), exp, t.isoformat())
    # --- OBNAME / OBJREF
    for _ in range(3000 if thorough else 500):
        o = R.choice([0, 1, 127, 128, 16383, 16384, 2**30 - 1, 2**30, -1, R.randrange(0, 2**30)])
        c = R.choice([0, 1, 255, 256, -1, R.randrange(0, 256)])
        n = mk(R.choice([0, 1, 5, 127, 128, 255, 256]), R.random() < 0.9)
        st = mk(R.choice([1, 7, 128, 255, 256]), R.random() < 0.95)
        ok = 0 <= o < 2**30 and 0 <= c <= 255 and n.isascii() and len(n) <= 255
        exp = ('valid', 'obname', f'{o},{c},{hexs(n.encode("ascii", "replace"))}') if ok else ('invalid',)
        yield ('obname', f'obname {o} {c} {cps(n)}',
               (lambda o=o, c=c, n=n: sw.write_struct(RC.OBNAME, FakeItem(o, c, n))), exp, [o, c, n])
        ok2 = ok and st.isascii() and len(st) <= 255
        exp2 = ('valid', 'objref', f'{hexs(st.encode("ascii", "replace"))},{o},{c},{hexs(n.encode("ascii", "replace"))}') \
            if ok2 else ('invalid',)
        yield ('objref', f'objref {cps(st)} {o} {c} {cps(n)}',
               (lambda o=o, c=c, n=n, st=st: sw.write_struct(RC.OBJREF, FakeItem(o, c, n, st))), exp2,
               [st, o, c, n])
    # --- floats: big-endian image of the IEEE bit pattern
    specials64 = [0x0, 0x8000000000000000, 0x7ff0000000000000, 0xfff0000000000000, 0x7ff8000000000001,
                  0x7ff4000000000000, 0x1, 0x000fffffffffffff, 0x7fefffffffffffff]
    for b in specials64 + [R.getrandbits(64) for _ in range(1500 if thorough else 300)]:
        x = np.array([b], dtype=np.uint64).view(np.float64)[0]
        yield ('f64', f'bits 8 {b}', (lambda x=x: sw.write_struct(RC.FDOUBL, float(x))),
               ('valid', 'bits8', str(float_bits64(float(x)))), hex(b))
    for b in [0, 0x80000000, 0x7f800000, 0xff800000, 0x7fc00001, 1, 0x7f7fffff] + \
            [R.getrandbits(32) for _ in range(1500 if thorough else 300)]:
        x = np.array([b], dtype=np.uint32).view(np.float32)[0]
        if np.isnan(x):
            continue   # struct.pack('>f', nan) does not promise payload preservation for a Python float
        yield ('f32', f'bits 4 {b}', (lambda x=x: sw.write_struct(RC.FSINGL, float(x))),
               ('valid', 'bits4', str(b)), hex(b))


def float_bits64(x):
    return int(np.array([x], dtype=np.float64).view(np.uint64)[0])


def run(tier):
    chk = Check('C06', tier)
    chk.rule = ('exhaustive UVARI window 0..N plus edges; every integer within +-3 of each range edge of the six '
                'fixed-width codes; IDENT lengths 0..300 and ASCII lengths up to 20000 (ASCII and non-ASCII text); '
                'random aware datetimes 1900..2155 incl. out-of-range years and all rounding edges; OBNAME/OBJREF '
                'field edges; float bit patterns. A case is non-trivial/distinct by (kind, value).')
    bres = build(THEOREMS)
    model = Model()
    R = rng('C06', 'main')
    cases = list(gen_cases(tier, R))
    if bres.ok:
        replies = model.ask([c[1] for c in cases])
    else:
        replies = [None] * len(cases)
    dec_reqs = []
    pend = []
    for (kind, req, thunk, exp, val), mrep in zip(cases, replies):
        st, out = call(thunk)
        irep = ('ok ' + hexs(out)) if st == 'ok' else 'err'
        mnorm = None if mrep is None else (mrep if mrep.startswith('ok') else 'err')
        chk.case(kind, nontrivial_key=req, sample={'request': req[:120], 'impl': irep[:80]})
        chk.count(f'{kind}:{"ok" if st == "ok" else "err"}')
        if mnorm is not None and mnorm != irep:
            chk.disagree(kind, {'request': req[:400], 'value': repr(val)[:200]}, irep, mrep)
        # oracle on the implementation's own output
        if exp[0] == 'invalid':
            if st == 'ok':
                chk.fail(f'{kind}:accepts-unrepresentable', {'kind': kind, 'value': repr(val)[:300],
                                                             'request': req[:300]},
                         f'implementation returned {hexs(out)[:80]} for a value outside the code\'s domain')
        else:
            if st != 'ok':
                chk.fail(f'{kind}:rejects-valid', {'kind': kind, 'value': repr(val)[:300], 'request': req[:300]},
                         f'implementation raised {out} for a representable value')
            else:
                dk = exp[1]
                if dk.startswith('bits'):
                    k = int(dk[4:])
                    if int.from_bytes(out, 'big') != int(exp[2]) or len(out) != k:
                        chk.fail(f'{kind}:roundtrip', {'kind': kind, 'value': repr(val)},
                                 f'bytes {out.hex()} are not the big-endian bit pattern')
                else:
                    dec_reqs.append(f'dec {dk} {hexs(out)}')
                    pend.append((kind, req, val, exp, out))
    if bres.ok:
        for (kind, req, val, exp, out), rep in zip(pend, model.ask(dec_reqs)):
            want = f'ok {exp[2]} -'
            if rep != want:
                chk.fail(f'{kind}:roundtrip', {'kind': kind, 'value': repr(val)[:300], 'request': req[:300]},
                         f'strict decoder on implementation bytes {out.hex()[:80]} gives {rep[:120]!r}, expected {want[:120]!r}')
    # every microsecond value against the model's rounding (thorough: all 10^6; quick: 1 in 37 + edges)
    step = 1 if tier == 'thorough' else 37
    uss = sorted(set(range(0, 10**6, step)) | {499, 500, 501, 1500, 2500, 999499, 999500, 999999})
    if bres.ok:
        reps = model.ask([f'ms {u}' for u in uss])
        base = dtm.datetime(2000, 1, 1, tzinfo=dtm.timezone.utc)
        for u, rep in zip(uss, reps):
            out = sw.write_struct_dtime(base.replace(microsecond=u))
            ms = int.from_bytes(out[6:8], 'big')
            chk.evaluations += 1
            if str(ms) != rep:
                chk.disagree('dtime-ms', {'microsecond': u}, str(ms), rep)
            if ms > 999 or abs(ms * 1000 - u) > 500 and not (ms == 999 and u >= 999500):
                chk.fail('dtime:millisecond', {'microsecond': u}, f'written millisecond {ms}')
        chk.streams['dtime-ms'] = len(uss)
        chk.nontrivial.add(('dtime-ms', 'sweep'))
    # the codes in their structural positions inside an attribute component: the count (UVARI), the units (IDENT), the
    # length prefix of ASCII values, the origin and copy number inside OBNAME values; read back by the strict reader
    if bres.ok:
        from harness import convert
        from dliswriter.logical_record import eflr_types as T
        counts = sorted(set(list(range(0, 300)) + [16382, 16383, 16384, 16385] + ([] if tier == 'quick' else list(range(300, 1200, 7)))))
        creqs, cmeta = [], []
        for n in counts:
            for which in ('coordinates', 'text'):
                if which == 'text' and n > 400:
                    continue
                if which == 'coordinates':
                    item = T.AxisItem('A', parent=T.AxisSet(), origin_reference=1)
                    vals = [float(k % 7) for k in range(n)]
                    st, err = convert.call(item.set_attributes, coordinates=vals)
                    attr, label = item.coordinates, 'COORDINATES'
                else:
                    item = T.CommentItem('C', parent=T.CommentSet(), origin_reference=1)
                    vals = ['L%d' % k for k in range(n)]
                    st, err = convert.call(item.set_attributes, text=vals)
                    attr, label = item.text, 'TEXT'
                if st != 'ok':
                    continue
                sb, b = convert.call(attr.get_as_bytes)
                if sb != 'ok':
                    chk.fail('count:raises', {'attribute': label, 'values': n}, f'get_as_bytes raised {b}')
                    continue
                creqs.append(f"peflrv {convert.synthetic_set(b, label).hex()}")
                cmeta.append((label, n, vals, b))
        for (label, n, vals, b), rep in zip(cmeta, model.ask(creqs)):
            chk.case('structural-positions', nontrivial_key=('count', label, n))
            case = {'attribute': label, 'number_of_values': n}
            if not rep.startswith('ok'):
                chk.fail('count:undecodable', case, f'an attribute with {n} values does not decode under the component grammar '
                                                    f'(component starts {b[:12].hex()})')
                continue
            comp = rep.split('] ', 1)[1].split('|', 1)[1]
            cnt, rc, units, vtxt = comp.split(':', 3)
            toks = [] if vtxt == '-' else vtxt.split(',')
            if int(cnt) != n or len(toks) != n:
                chk.fail('count:wrong', case, f'{n} values written, the component announces {cnt} and carries {len(toks)}')
            elif any(not convert.token_matches(v, t) for v, t in zip(vals, toks)):
                chk.fail('count:values', case, 'values differ after reading back')
    # OBNAME / OBJREF of an object whose name, origin reference or copy number changes between two encodings: what is
    # encoded is always the object's current identity
    if bres.ok:
        from dliswriter.logical_record import eflr_types as T2
        rreqs, rmeta = [], []
        for k in range(60 if tier == 'quick' else 600):
            zs = T2.ZoneSet()
            it = T2.ZoneItem(R.choice(['Z', 'ZONE-A', 'A' * 40]), parent=zs, origin_reference=R.choice([1, 5, 127, 128, 300]))
            steps = []
            for _ in range(R.choice([1, 2, 3])):
                how = R.choice(['obname-attr', 'write_struct-obname', 'write_struct-objref'])
                # encode once (fills whatever caches there are) ...
                first = it.obname if how == 'obname-attr' else sw.write_struct(RC.OBNAME if 'obname' in how else RC.OBJREF, it)
                # ... then change the identity through the public attributes
                what = R.choice(['name', 'origin', 'both'])
                if what in ('name', 'both'):
                    it.name = R.choice(['RENAMED', 'Z2', 'B' * 100, it.name + 'X'])
                if what in ('origin', 'both'):
                    it.origin_reference = R.choice([2, 9, 127, 128, 16384])
                steps.append(f'{how}; then {what} changed')
                for enc in ('obname-attr', 'write_struct-obname', 'write_struct-objref'):
                    out = it.obname if enc == 'obname-attr' else sw.write_struct(RC.OBNAME if 'obname' in enc else RC.OBJREF, it)
                    rreqs.append(f"dec {'objref' if 'objref' in enc else 'obname'} {hexs(out)}")
                    rmeta.append((list(steps), enc, it.origin_reference, it.copy_number, it.name, out))
        for (steps, enc, o, c, n, out), rep in zip(rmeta, model.ask(rreqs)):
            chk.case('identity-after-change', nontrivial_key=('idc', tuple(steps), enc))
            want_tail = f'{o},{c},{hexs(n.encode())} -'
            if not rep.startswith('ok') or not rep.endswith(want_tail):
                chk.fail('obname:stale-after-change', {'steps': steps, 'encoder': enc, 'current_identity': [o, c, n]},
                         f'encoded {out.hex()[:80]} decodes as {rep[:120]!r}; the object is now ({o}, {c}, {n!r})')
    # FSINGL of a Python float (a double): round to nearest, ties to even; beyond the range OverflowError.  The model
    # is f64ToF32 (theorems fsingl_*); the oracle is numpy's own double -> single conversion and the exact threshold
    import struct as _struct
    thorough = tier == 'thorough'

    def dbl(bits):
        return _struct.unpack('>d', _struct.pack('>Q', bits))[0]

    def sgl(bits):
        return float(np.array([bits], dtype=np.uint32).view(np.float32)[0])

    pats = [0, 1 << 63, 1, 0x000fffffffffffff, 0x0010000000000000, 0x3690000000000000, 0x3690000000000001, 0x368fffffffffffff,
            0x36a0000000000000, 0x380fffffffffffff, 0x3810000000000000, 0x380fffffe0000000, 0x380ffffff0000000,
            0x47efffffe0000000, 0x47efffffefffffff, 0x47effffff0000000, 0x47effffff0000001, 0x47f0000000000000,
            0x7fefffffffffffff, 0x7ff0000000000000, 0xfff0000000000000, 0x7ff8000000000000, 0xfff8000000000001,
            0x7ff4000000000001, 0x7ff0000020000000, 0x7ff0000000000001, 0x3fb999999999999a]
    for _ in range(4000 if thorough else 600):
        k = R.random()
        if k < 0.25:
            pats.append(R.getrandbits(64))
        elif k < 0.5:        # inside the range of normal singles
            pats.append((R.getrandbits(1) << 63) | (R.randrange(897, 1151) << 52) | R.getrandbits(52))
        elif k < 0.65:       # where singles are subnormal or vanish
            pats.append((R.getrandbits(1) << 63) | (R.randrange(860, 900) << 52) | R.getrandbits(52))
        else:                # at and next to the middle between two neighbouring singles (ties), and at singles
            sb = R.choice([R.getrandbits(31), R.randrange(0, 0x01000000), R.randrange(0x7f000000, 0x7f7fffff)])
            if sb >= 0x7f7fffff:
                sb = 0x7f7ffffe
            lo_, hi_ = sgl(sb), sgl(sb + 1)
            mid = (lo_ + hi_) / 2          # exact in double precision
            mb = _struct.unpack('>Q', _struct.pack('>d', mid))[0]
            pats.append((mb + R.choice([0, 0, 1, -1, 2])) | (R.getrandbits(1) << 63))
            if R.random() < 0.3:
                pats.append(_struct.unpack('>Q', _struct.pack('>d', lo_))[0])
    fs_reqs, fs_meta = [], []
    THR = (2 ** 25 - 1) * 2 ** 103
    for bts in pats:
        bts &= (1 << 64) - 1
        x = dbl(bts)
        st, out = call(sw.write_struct, RC.FSINGL, x)
        case = {'code': 'FSINGL', 'value': repr(x), 'double_bits': hex(bts)}
        chk.case('fsingl-of-double', nontrivial_key=('fsd', bts), sample={'bits': hex(bts), 'impl': out.hex() if st == 'ok' else out})
        chk.count(f'fsingl-of-double:{st if st == "ok" else out}')
        fs_reqs.append(f'val 2 d:{bts}')
        fs_meta.append((case, st, out))
        finite = x == x and abs(x) != float('inf')
        if finite and abs(x) >= THR:
            if st == 'ok':
                chk.fail('fsingl:accepts-out-of-range', case, f'{x!r} is beyond the single range; written as {out.hex()}')
        elif st != 'ok':
            chk.fail('fsingl:rejects-valid', case, f'raises {out}')
        elif x == x:
            want = int(np.array([x], dtype=np.float64).astype(np.float32).view(np.uint32)[0])
            if int.from_bytes(out, 'big') != want or len(out) != 4:
                chk.fail('fsingl:not-nearest', case, f'written {out.hex()}, the nearest single is {want:08x}')
        elif len(out) != 4 or (int.from_bytes(out, 'big') >> 23) & 0xff != 0xff or int.from_bytes(out, 'big') & 0x7fffff == 0:
            chk.fail('fsingl:nan-lost', case, f'a NaN is written as {out.hex()}')
    if bres.ok:
        for (case, st, out), rep in zip(fs_meta, model.ask(fs_reqs)):
            irep = ('ok ' + hexs(out)) if st == 'ok' else f'err {out}'
            if rep != irep:
                chk.disagree('fsingl-of-double', case, irep, rep)
    # the two fixed-width ASCII fields of the FILE-HEADER, with values assigned after construction
    from harness import eflr as _eflr
    _eflr.late_header_stream(chk, model, bres, rng('C06', 'file-header-late'), 80 if tier == 'quick' else 800)
    from harness.filegen import ATTRS
    # text and numerals given to the attributes that take either (PARAMETER.VALUES, AXIS.COORDINATES): what is written
    # under a text code is the text, what is written under a number code is the numeral's value - 'INF', 'nan', '1E2' are text
    convert.run_stream(chk, model, bres, rng('C06', 'maybe-numeric'), 60 if tier == 'quick' else 500, ATTRS, stream='maybe-numeric',
                       hc_share=0.0, only=lambda st_, row_, conv_: conv_.startswith('maybeNumeric'))
    # numbers of other types than int / float (numpy scalars, Fraction, Decimal) given to the numeric attributes: never
    # cut to fit an integer code; what is accepted decodes to the same number
    convert.run_numberlike(chk, model, bres, rng('C06', 'number-like'), 800 if tier == 'quick' else 8000, ATTRS)
    # the fixed-width codes as they are written for channel samples: whole files (all dtypes, scalar / one-column /
    # wider 2-D channels, native / big-endian / strided / Fortran-ordered sources), every slot of every frame data record
    # decoded by the strict reader under the code its channel declares
    from harness import wholefile as wf
    runs = wf.execute(list(wf.generate('C06', tier, 60, 500, stream='frame-values')), model, bres, chk, stream='frame-values')
    good = []
    for r in runs:
        chk.case('frame-values', nontrivial_key=('fv', r.index) if r.res['status'] == 'ok' else None, sample=wf.sample_of(r))
        if r.res['status'] == 'ok' and bres.ok and wf.oracle_readable(r, chk, 'frame-values'):
            good.append(r)
    wf.run_frames_oracle(good, model, bres, chk)
    chk.exhaustive = False
    return finish(chk, bres, THEOREMS,
                  partial_note='str() of non-str values given to IDENT/ASCII is CPython behaviour outside the model (the '
                               'correspondence feeds str values only); the double -> single rounding of FSINGL is '
                               'modelled on bit patterns (f64ToF32) with the NaN payload rule of the x86-64 / AArch64 '
                               'conversion instructions taken as given.')
