"""C12 — fail-closed: a write either raises or yields a faithful, well-formed file.  The malformed stream: a valid
specification with ONE injected defect (or degenerate value); outcome must be an exception, or a file the strict
reader decodes to the expectation."""
import copy
import shutil
import tempfile
import datetime as dtm

import numpy as np

from harness.common import Check, Model, build, finish, rng
from harness import filegen, content, wholefile as wf
from harness.filegen import Ref
from harness.impl import call

THEOREMS = ['Dlis.C12.write_sound', 'Dlis.C12.set_record_decodes', 'Dlis.C12.noformat_record_decodes', 'Dlis.C12.rejects_long_ident', 'Dlis.C12.rejects_non_ascii',
            'Dlis.C12.rejects_out_of_range', 'Dlis.C12.rejects_missing_dataset', 'Dlis.C12.rejects_unequal_rows',
            'Dlis.C12.empty_list_faithful', 'Dlis.C02.segmentation_lossless', 'Dlis.C04.parseEflr_setBody',
            'Dlis.C03.frame_data_roundtrip', 'Dlis.C16.noformat_roundtrip', 'Dlis.C12.text_rejects_non_str',
            'Dlis.C12.numeric_rejects_non_number', 'Dlis.C12.numeric_int_rejects_fraction',
            'Dlis.C12.status_rejects_other_numbers', 'Dlis.C12.reference_rejects_other_type',
            'Dlis.C12.rejected_assignment_keeps_state', 'Dlis.Obligations.convs_eq',
            'Dlis.C12.rejects_incomplete_logical_file', 'Dlis.C12.rejects_shared_set', 'Dlis.C12.rejects_foreign_reference']


def first(spec, kind):
    for li, lf in enumerate(spec['lfs']):
        for oi, o in enumerate(lf['objects']):
            if o['kind'] == kind:
                return li, oi, o
    return None


def channels_of_first_frame(spec):
    li, oi, fr = first(spec, 'frame')
    return [spec['lfs'][li]['objects'][r.idx] for r in fr['channels']]


# each defect: (name, must_raise, mutate(spec, R) -> bool applied)
def defects():
    D = []

    def d(name, must_raise):
        def reg(f):
            D.append((name, must_raise, f))
            return f
        return reg

    @d('unequal-row-counts', True)
    def _(spec, R):
        ch = channels_of_first_frame(spec)
        if len(ch) < 2 or ch[0]['data'].shape[0] < 2:
            return False
        ch[-1]['data'] = ch[-1]['data'][:-1].copy()
        return True

    @d('length-1-dataset-among-longer', True)
    def _(spec, R):
        ch = channels_of_first_frame(spec)
        if len(ch) < 2 or ch[0]['data'].shape[0] < 2:
            return False
        ch[-1]['data'] = ch[-1]['data'][:1].copy()
        return True

    @d('first-dataset-shorter', True)
    def _(spec, R):
        ch = channels_of_first_frame(spec)
        if len(ch) < 2 or ch[0]['data'].shape[0] < 2:
            return False
        ch[0]['data'] = ch[0]['data'][:1].copy()
        ch[0]['index_like'] = None
        return True

    for dt in ('int64', 'uint64', 'float16', 'complex64', 'bool', 'U3', 'object'):
        @d(f'unsupported-dtype:{dt}', True)
        def _(spec, R, dt=dt):
            ch = channels_of_first_frame(spec)[-1]
            n = ch['data'].shape[0]
            ch['data'] = (np.arange(n).astype(dt) if dt not in ('U3', 'object') else np.array(['ab'] * n, dtype=dt))
            ch['width'] = None
            ch['dtype'] = 'float64'
            ch['layout'] = 'plain'
            ch['cast_dtype'] = None      # with a declared cast the data would be converted, which is representable
            return True

    @d('three-dimensional-data', True)
    def _(spec, R):
        ch = channels_of_first_frame(spec)[-1]
        n = ch['data'].shape[0]
        ch['data'] = np.zeros((n, 2, 2), dtype=np.float32)
        ch['layout'] = 'plain'
        ch['cast_dtype'] = None
        return True

    @d('missing-dataset', True)
    def _(spec, R):
        spec['write']['data_kind'] = 'dict'
        spec['_drop_dataset'] = True
        return True

    @d('object-name-too-long', True)
    def _(spec, R):
        li, oi, o = first(spec, 'channel')
        o['name'] = 'N' * R.choice([256, 300])
        o['dataset_name'] = 'dsx'
        return True

    @d('object-name-255-ok', False)
    def _(spec, R):
        li, oi, o = first(spec, 'channel')
        o['name'] = 'N' * R.choice([128, 255])
        o['dataset_name'] = 'dsx'
        return True

    @d('set-name-too-long', True)
    def _(spec, R):
        li, oi, o = first(spec, 'channel')
        for o2 in spec['lfs'][li]['objects']:
            if o2['kind'] == 'channel':
                o2['set_name'] = 'S' * 256
        return True

    @d('units-too-long', True)
    def _(spec, R):
        li, oi, o = first(spec, 'channel')
        o['attrs']['minimum_value'] = {'v': [1.0], 'units': 'u' * 256, 'route': 'dict'}
        return True

    @d('non-ascii-name', True)
    def _(spec, R):
        li, oi, o = first(spec, 'channel')
        o['name'] = 'CHÄNNEL'
        o['dataset_name'] = 'dsx'
        return True

    @d('non-ascii-text', True)
    def _(spec, R):
        li, oi, o = first(spec, 'origin')
        o['attrs']['company'] = {'v': 'Société', 'units': None, 'route': 'plain'}
        return True

    @d('non-ascii-units', True)
    def _(spec, R):
        li, oi, o = first(spec, 'channel')
        o['attrs']['minimum_value'] = {'v': [1.0], 'units': 'µm', 'route': 'dict'}
        return True

    @d('unorm-out-of-range', True)
    def _(spec, R):
        li, oi, o = first(spec, 'origin')
        o['attrs']['descent_number'] = {'v': R.choice([65536, -1, 70000]), 'units': None, 'route': 'plain'}
        return True

    @d('uvari-out-of-range', True)
    def _(spec, R):
        li, oi, o = first(spec, 'origin')
        o['attrs']['file_number'] = {'v': R.choice([2**30, -1]), 'units': None, 'route': 'plain'}
        return True

    @d('origin-reference-out-of-range', True)
    def _(spec, R):
        li, oi, o = first(spec, 'channel')
        o['origin_reference'] = R.choice([2**30, -3])
        return True

    @d('datetime-year-out-of-range', True)
    def _(spec, R):
        li, oi, o = first(spec, 'origin')
        o['attrs']['creation_time'] = {'v': dtm.datetime(R.choice([1899, 2156, 3000]), 1, 1), 'units': None, 'route': 'plain'}
        return True

    @d('no-origin', True)
    def _(spec, R):
        for lf in spec['lfs'][:1]:
            idx = [i for i, o in enumerate(lf['objects']) if o['kind'] == 'origin']
            if any(isinstance(v, Ref) for o in lf['objects'] for a in o['attrs'].values()
                   for v in (content.flat(a['v']) if isinstance(a['v'], (list, tuple)) else [a['v']])):
                return False
            lf['objects'] = [o for o in lf['objects'] if o['kind'] != 'origin']
        return True

    @d('empty-list-value', False)
    def _(spec, R):
        li, oi, o = first(spec, 'origin')
        o['attrs']['programs'] = {'v': [], 'units': None, 'route': 'plain'}
        return True

    @d('list-for-single-valued-attribute', False)
    def _(spec, R):
        li, oi, o = first(spec, 'origin')
        v = R.choice([['A', 'B'], ('A', 'B'), ('A', 'B', 'C'), (), ['A'], ('A',)])
        which = R.choice(['file_type', 'file_set_name', 'name_space_name'])
        o['attrs'][which] = {'v': v, 'units': None, 'route': R.choice(['plain', 'dict', 'later']), '_expect_list': True}
        return True

    @d('sequence-for-frame-direction', False)
    def _(spec, R):
        li, oi, o = first(spec, 'frame')
        o['attrs']['direction'] = {'v': R.choice([('INCREASING', 'DECREASING'), ['INCREASING', 'DECREASING'], (), ('INCREASING',)]),
                                   'units': None, 'route': 'plain', '_expect_list': True}
        return True

    @d('same-named-channels-in-one-frame', True)
    def _(spec, R):
        # two channels that differ only in their copy number cannot both be looked up by name in the data
        ch = channels_of_first_frame(spec)
        if len(ch) < 2:
            return False
        ch[-1]['name'] = ch[-2 if len(ch) > 2 else 0]['name'] if len(ch) > 2 else ch[0]['name']
        ch[-1]['dataset_name'] = None
        (ch[-2] if len(ch) > 2 else ch[0])['dataset_name'] = None
        return True

    @d('dimension-inconsistent-with-data', True)
    def _(spec, R):
        ch = channels_of_first_frame(spec)[-1]
        ch['attrs']['dimension'] = {'v': [7], 'units': None, 'route': 'plain'}
        return True

    @d('element-limit-too-small', True)
    def _(spec, R):
        ch = channels_of_first_frame(spec)[-1]
        if not ch['width'] or ch['width'] < 2:
            return False
        ch['attrs']['element_limit'] = {'v': [1], 'units': None, 'route': 'plain'}
        return True

    @d('header-id-too-long-assigned-late', True)
    def _(spec, R):
        lf = spec['lfs'][0]
        lf['fh_route'] = 'late'
        lf['fh_id'] = R.choice(['H' * 66, 'I' * 67, 'J' * 130, 'K' * 300])
        spec['object_routes'] = False
        return True

    @d('sequence-number-too-long-assigned-late', True)
    def _(spec, R):
        lf = spec['lfs'][0]
        lf['fh_route'] = 'late'
        lf['fh_sequence_number'] = R.choice([10**10, 10**10 + 7, 10**11, 10**15])
        spec['object_routes'] = False
        return True

    @d('header-values-at-their-limits-assigned-late', False)
    def _(spec, R):
        lf = spec['lfs'][0]
        lf['fh_route'] = 'late'
        lf['fh_id'] = R.choice(['H' * 65, 'I' * 64])
        lf['fh_sequence_number'] = R.choice([10**10 - 1, 999999999])
        spec['object_routes'] = False
        return True

    @d('row-window-beyond-the-data', True)
    def _(spec, R):
        # rows that do not exist cannot be written: a window reaching past the last row, or starting before the first
        ch = channels_of_first_frame(spec)
        n_ = ch[0]['data'].shape[0]
        if any(c['data'].shape[0] != n_ for c in ch):
            return False
        how = R.choice(['one-real-row', 'past-the-end', 'negative-start'])
        if how == 'one-real-row':
            spec['write'].update({'from_idx': n_ - 1, 'to_idx': n_ + R.choice([1, 3])})
        elif how == 'past-the-end':
            spec['write'].update({'from_idx': 0, 'to_idx': n_ + R.choice([1, 2])})
        else:
            spec['write'].update({'from_idx': -1, 'to_idx': None})
        spec['write']['data_kind'] = R.choice(['inline', 'dict'])
        for lf in spec['lfs']:
            for o in lf['objects']:
                if o['kind'] == 'frame':
                    o['attrs'].pop('index_type', None)
        return True

    @d('noformat-payload-neither-text-nor-bytes', True)
    def _(spec, R):
        # a packet is text or bytes; a number, a bool or a list of numbers has no packet that stands for it
        lf = spec['lfs'][0]
        nfs = [i for i, o in enumerate(lf['objects']) if o['kind'] == 'no_format']
        if not nfs:
            lf['objects'].append({'kind': 'no_format', 'name': 'NF-X', 'attrs': {}, 'set_name': lf.get('set_tag'), 'origin_reference': None})
            nfs = [len(lf['objects']) - 1]
        lf['noformat'].append((nfs[0], R.choice([7, True, [72, 105], (1, 2, 3), 300, 0])))
        return True

    @d('copy-number-overflow', True)
    def _(spec, R):
        lf = spec['lfs'][0]
        for k in range(257):
            lf['objects'].append({'kind': 'zone', 'name': 'SAME', 'attrs': {}, 'set_name': lf.get('set_tag'), 'origin_reference': None})
        return True

    return D


def shared_set_stream(chk, tier, tmp):
    """a set (type, name) used with objects by two of 2..4 logical files - adjacent or not, the others using names of
    their own: one set object would be written into both, holding the objects of both, so the specification cannot be
    represented and `write` must raise"""
    import numpy as np
    from dliswriter import DLISFile
    R = rng('C12', 'shared-sets')
    kinds = [('add_zone', {}), ('add_axis', {}), ('add_parameter', {}), ('add_equipment', {}), ('add_comment', {}),
             ('add_long_name', {})]
    for i in range(40 if tier == 'quick' else 400):
        n_lf = R.choice([2, 3, 3, 4, 4])
        a = R.randrange(n_lf - 1)
        b = R.randrange(a + 1, n_lf)
        meth, kw = R.choice(kinds)
        shared_name = R.choice([None, 'SHARED'])
        control = (i % 5 == 4)            # the same layout with a name of its own in every logical file: must be written

        def go():
            df = DLISFile(set_identifier='SHS')
            for k in range(n_lf):
                lf = df.add_logical_file(fh_id=f'LF{k}', fh_sequence_number=k + 1)
                lf.add_origin(f'O{k}', set_name=f'S{k}', file_set_number=1, creation_time='2020/01/01 00:00:00')
                ch = lf.add_channel('DEPTH', set_name=f'S{k}', data=np.arange(3, dtype=np.float64) + k)
                lf.add_frame('MAIN', set_name=f'S{k}', channels=[ch])
                sn = shared_name if (k in (a, b) and not control) else f'OWN{k}'
                getattr(lf, meth)(f'X{k}', **({} if sn is None else {'set_name': sn}), **kw)
            df.write(f'{tmp}/shs.dlis', output_chunk_size=2**20)
        st, err = call(go)
        case = {'logical_files': n_lf, 'sharing': None if control else [a, b], 'object': meth, 'set_name': shared_name}
        chk.case('shared-sets', nontrivial_key=('shs', i), sample=dict(case, write=st))
        chk.count(f'shared-sets:{"control" if control else "shared"}:{st}')
        if control and st != 'ok':
            chk.fail('valid-spec-not-writable:own-set-names', case, f'write raises {err}')
        if not control and st == 'ok':
            chk.fail('accepts-unrepresentable:shared-set', case,
                     f'logical files {a} and {b} use one set with objects of both and the file is written')


def run(tier):
    chk = Check('C12', tier)
    chk.rule = ('valid specifications with one injected defect from a catalogue of ~30 (row-count mismatches incl. length-1 '
                'datasets, 7 unsupported dtypes, 3-D data, missing dataset, over-long / non-ASCII names, set names, units, '
                'text, integers outside UNORM/UVARI, origin/copy-number overflow, date-time years outside 1900..2155, no '
                'origin, inconsistent dimension / element limit) or a degenerate but representable value (empty list, list '
                'for a single-valued attribute, 255-character name); outcome: exception, or a file the strict reader decodes '
                'to the expectation.')
    bres = build(THEOREMS)
    model = Model()
    R = rng('C12', 'malformed')
    tmp = tempfile.mkdtemp(prefix='verif_c12_')
    reps = 8 if tier == 'quick' else 150
    try:
        runs = []
        for name, must_raise, mut in defects():
            done = 0
            tries = 0
            while done < reps and tries < reps * 6:
                tries += 1
                spec = filegen.gen_spec(R, n_lf=1, small=True, vrl=R.choice([8192, 128]))
                spec['write'].update({'data_kind': 'inline', 'from_idx': 0, 'to_idx': None})
                if not mut(spec, R):
                    continue
                done += 1
                runs.append((name, must_raise, spec))
        results = []
        for name, must_raise, spec in runs:
            if spec.get('_drop_dataset'):
                def go(spec=spec):
                    b = filegen.build(spec)
                    k = sorted(b.data)[-1]
                    del b.data[k]
                    return filegen.write(spec, tmp, built=b)
                st, res = call(go)
                res = res if st == 'ok' else {'status': 'err', 'error': res, 'stage': 'build', 'data': None}
            else:
                res = filegen.write(spec, tmp)
            case = {'defect': name, 'spec': filegen.describe(spec)}
            chk.case('malformed', nontrivial_key=(name, len(results)), sample={'defect': name, 'status': res['status'],
                                                                             'error': res.get('error')})
            chk.count(f'{name}:{res["status"]}')
            results.append((name, must_raise, spec, res, case))
        ok_runs = [(n, m, s, r, c) for (n, m, s, r, c) in results if r['status'] == 'ok']
        dumps = model.ask([filegen.dump_req(s, r['data']) for (_, _, s, r, _) in ok_runs]) if bres.ok else []
        for (name, must_raise, spec, res, case), rep in zip(ok_runs, dumps):
            if must_raise:
                chk.fail(f'accepts-unrepresentable:{name}', case, 'the write returned normally for an input that cannot be represented')
                continue
            if not rep.startswith('ok') or 'UNDECODABLE' in rep:
                chk.fail(f'unfaithful:{name}', case, 'the written file is rejected by the strict reader')
                continue
            r = wf.Run()
            r.index, r.spec, r.res, r.case = 0, spec, res, case
            r.dump, r.recs = rep, filegen.parse_dump(rep)
            try:
                r.sim, r.exp = content.expected(spec)
            except Exception as exc:      # the expectation generator does not cover this degenerate value
                chk.count(f'expectation-not-available:{name}')
                continue
            if wf.oracle_readable(r, chk, 'c12'):
                before = len(chk.failures)
                wf.oracle_fidelity(r, chk)
                for f in chk.failures[before:]:
                    f['key'] = f'unfaithful:{name}'
        wf.run_frames_oracle([x for x in (None,) if x], model, bres, chk)
        # the capstone model as a whole: file bytes vs modelWrite
        wf.modelwrite_stream('C12', tier, model, bres, chk, 80, 800)
        # fail-closed at the setters: every attribute of every object type given values of every Python kind (most of
        # them unacceptable for the attribute); what is accepted must come out of the strict reader as assigned
        from harness import convert
        from harness.filegen import ATTRS
        convert.run_stream(chk, model, bres, rng('C12', 'setters'), 8 if tier == 'quick' else 60, ATTRS, stream='setters')
        convert.run_numberlike(chk, model, bres, rng('C12', 'number-like'), 400 if tier == 'quick' else 4000, ATTRS)
        # a reference to an object of another logical file cannot be represented (a reader resolves references within
        # the logical file): refused, for every attribute that can hold an object
        if bres.ok:
            from harness.props import c07
            c07.cross_reference_stream(chk, model, tier, prop='C12')
        shared_set_stream(chk, tier, tmp)
        # what `write` answers (written, or which of its checks refuses) vs `acceptWrite` of Model/Checks.lean
        from harness.props import c07 as _c07
        _c07.reference_histories(chk, model, bres, tier, 'C12')
    finally:
        shutil.rmtree(tmp, ignore_errors=True)
    return finish(chk, bres, THEOREMS,
                  partial_note='The capstone theorem composes the layer theorems for the model; which Python inputs are '
                               'rejected before the model applies is tied by this malformed stream.')
