from harness.props.c02 import run_prop


def run(tier):
    return run_prop('C15', tier)
