"""C19 — writing never alters the caller's data: checksums of every caller-owned buffer before and after real writes."""
import hashlib
import os
import shutil
import tempfile

import numpy as np

from harness.common import Check, Model, build, finish, rng
from harness import filegen
from harness.impl import call

THEOREMS = ['Dlis.C19.caller_data_unaltered', 'Dlis.C19.pipeline_never_writes_caller',
            'Dlis.C19.no_caller_write_preserves', 'Dlis.C19.exec_preserves_caller']


def base_of(a):
    """the outermost buffer an array is a view of (its surroundings count as caller data too)"""
    b = a
    while isinstance(b.base, np.ndarray):
        b = b.base
    return b


def digest_array(a):
    b = base_of(a)
    return (str(b.dtype), b.shape, b.strides, hashlib.sha256(np.ascontiguousarray(b).view(np.uint8).tobytes()).hexdigest(),
            str(a.dtype), a.shape, a.strides, bool(a.flags.writeable))


def run(tier):
    chk = Check('C19', tier)
    chk.rule = ('specifications with all source kinds (inline, dict, structured incl. the no-copy path, HDF5), 8 dtypes, both '
                'byte orders, strided / Fortran / read-only / view-into-larger-buffer arrays, casts, chunk sizes 1,2,3,None, '
                'windows; successful and failing writes (injected: unequal rows, missing dataset, bad record length); '
                'before/after: sha256 of every caller array\'s base buffer + dtype/shape/strides/flags, dict keys and value '
                'identities, HDF5 file bytes.')
    bres = build(THEOREMS)
    R = rng('C19', 'alias')
    tmp = tempfile.mkdtemp(prefix='verif_c19_')
    n = 250 if tier == 'quick' else 2000
    try:
        for i in range(n):
            mode = R.choice(['plain', 'plain', 'fastpath', 'hdf5', 'fail-rows', 'fail-missing', 'window'])
            spec = filegen.gen_spec(R, n_lf=1, small=True, fastpath=(mode == 'fastpath'),
                                    rows=R.choice([2, 3, 5]), vrl=R.choice([8192, 64]))
            if mode == 'hdf5':
                spec['write']['data_kind'] = 'hdf5'
                for lf in spec['lfs']:
                    for o in lf['objects']:
                        if o['kind'] == 'channel' and o.get('dataset_name') and o['dataset_name'].startswith('/'):
                            o['dataset_name'] = o['dataset_name'].strip('/').replace('/', '_')
            spec['write'].setdefault('source_opts', {})['tmpdir'] = tmp
            spec['write']['source_opts']['h5name'] = 'src19.h5'
            if mode == 'window':
                spec['write']['from_idx'] = 1
            st, b = call(filegen.build, spec)
            if st != 'ok':
                chk.count(f'build-failed:{b}')
                continue
            if mode == 'fail-rows' and isinstance(b.data, dict) and len(b.data) >= 2:
                k = sorted(b.data)[-1]
                b.data[k] = b.data[k][:-1]
            if mode == 'fail-missing' and isinstance(b.data, dict) and b.data:
                del b.data[sorted(b.data)[-1]]
            # everything the caller owns
            arrays = [a for (_, _, a) in b.arrays]
            if isinstance(b.data, dict):
                arrays += [v for v in b.data.values() if not any(v is a for a in arrays)]
            elif isinstance(b.data, np.ndarray):
                arrays.append(b.data)
            before = [digest_array(a) for a in arrays]
            dict_before = None
            if isinstance(b.data, dict):
                dict_before = [(k, id(v)) for k, v in b.data.items()]
            h5_before = None
            if isinstance(b.data, str):
                h5_before = hashlib.sha256(open(b.data, 'rb').read()).hexdigest()
            res = filegen.write(spec, tmp, built=b)
            after = [digest_array(a) for a in arrays]
            case = {'index': i, 'mode': mode, 'spec': filegen.describe(spec), 'write_status': res['status'],
                    'error': res['error']}
            kinds = spec['write']['data_kind']
            chk.case('alias', nontrivial_key=(i, mode), sample={'mode': mode, 'source': kinds, 'arrays': len(arrays),
                                                               'status': res['status']})
            chk.count(f'{kinds}:{mode}:{res["status"]}')
            for k, (x, y) in enumerate(zip(before, after)):
                if x != y:
                    what = 'contents' if x[3] != y[3] else 'dtype/shape/strides/flags'
                    chk.fail('caller-array-altered', case, f'array #{k} ({x[4]}, shape {x[5]}): {what} changed by the write')
            if dict_before is not None and dict_before != [(k, id(v)) for k, v in b.data.items()]:
                chk.fail('caller-dict-altered', case, 'the dict passed as data has different keys or values after the write')
            if h5_before is not None and h5_before != hashlib.sha256(open(b.data, 'rb').read()).hexdigest():
                chk.fail('caller-hdf5-altered', case, 'the HDF5 source file changed on disk')
    finally:
        shutil.rmtree(tmp, ignore_errors=True)
    return finish(chk, bres, THEOREMS,
                  partial_note='the effects numpy/h5py operations have on buffers are runtime behaviour: the theorem is about '
                               'the effect model, the checksums tie it to the code.')
