"""C19 — writing never alters the caller's data: checksums of every caller-owned buffer before and after real writes."""
import hashlib
import os
import shutil
import tempfile

import numpy as np

from harness.common import Check, Model, build, finish, rng
from harness import filegen
from harness.impl import call

THEOREMS = ['Dlis.C19.caller_data_unaltered', 'Dlis.C19.pipeline_never_writes_caller',
            'Dlis.C19.no_caller_write_preserves', 'Dlis.C19.exec_preserves_caller']


def base_of(a):
    """the outermost buffer an array is a view of (its surroundings count as caller data too)"""
    b = a
    while isinstance(b.base, np.ndarray):
        b = b.base
    return b


def digest_array(a):
    b = base_of(a)
    return (str(b.dtype), b.shape, b.strides, hashlib.sha256(np.ascontiguousarray(b).view(np.uint8).tobytes()).hexdigest(),
            str(a.dtype), a.shape, a.strides, bool(a.flags.writeable))


def sequence_stream(chk, R, tmp, n):
    """one DLISFile used repeatedly: writes with different data dicts / structured arrays, add_channel(data=...) calls
    in between, a failing write now and then; after every step EVERY container and array handed to the library so
    far (also those of earlier writes) must be as the caller left it"""
    from dliswriter import DLISFile
    for i in range(n):
        nrows = R.choice([3, 4])
        df = DLISFile(set_identifier='SEQ', max_record_length=8192)
        lf = df.add_logical_file(fh_id='H')
        lf.add_origin('O', file_set_number=1, creation_time='2020/01/01 00:00:00')
        inline_first = R.random() < 0.3
        names = ['DEPTH', 'RPM']
        owned_arrays, owned_dicts, steps = [], [], []

        def arr(fill):
            a = np.full(nrows, float(fill))
            owned_arrays.append((a, digest_array(a)))
            return a
        chans = [lf.add_channel(nm, **({'data': arr(k)} if inline_first else {})) for k, nm in enumerate(names)]
        lf.add_frame('FR', channels=chans)
        problems = []

        def check(step):
            for k, (a, dg) in enumerate(owned_arrays):
                if digest_array(a) != dg:
                    problems.append(f'after {step}: array #{k} handed over earlier was altered')
            for k, (d, snap) in enumerate(owned_dicts):
                if [(key, id(v)) for key, v in d.items()] != snap:
                    problems.append(f'after {step}: dict #{k} passed to an earlier write has keys '
                                    f'{list(d)} (was {[key for key, _ in snap]}) or other values')
        for sidx in range(R.choice([2, 3, 4])):
            kind = R.choice(['write-dict', 'write-dict', 'write-dict-extra', 'add-channel', 'write-none', 'write-missing'])
            if kind == 'add-channel':
                nm = f'X{sidx}'
                call(lf.add_channel, nm, data=arr(50 + sidx))
                steps.append(f'add_channel({nm!r}, data=<array>) [not in a frame]')
                check(steps[-1])
                continue
            if kind == 'write-none':
                st, err = call(df.write, f'{tmp}/seq.dlis', output_chunk_size=2**20)
                steps.append(f'write() -> {st}')
            else:
                d = {nm: arr(100 * (sidx + 1) + k) for k, nm in enumerate(names)}
                if kind == 'write-dict-extra':
                    d[f'EXTRA{sidx}'] = arr(7)
                if kind == 'write-missing':
                    del d['RPM']
                owned_dicts.append((d, [(key, id(v)) for key, v in d.items()]))
                st, err = call(df.write, f'{tmp}/seq.dlis', data=d, output_chunk_size=2**20)
                steps.append(f'write(data=dict#{len(owned_dicts) - 1} with keys {list(d)}) -> {st}')
            check(steps[-1])
        case = {'index': i, 'channels_created_with_data': inline_first, 'steps': steps}
        chk.case('sequence', nontrivial_key=('seq', i), sample={'steps': steps[:4]})
        if problems:
            chk.fail('caller-data-altered-by-later-call', case, '; '.join(problems[:3]))


def run(tier):
    chk = Check('C19', tier)
    chk.rule = ('specifications with all source kinds (inline, dict, structured incl. the no-copy path, HDF5), 8 dtypes, both '
                'byte orders, strided / Fortran / read-only / view-into-larger-buffer arrays, casts, chunk sizes 1,2,3,None, '
                'windows; successful and failing writes (injected: unequal rows, missing dataset, bad record length); '
                'before/after: sha256 of every caller array\'s base buffer + dtype/shape/strides/flags, dict keys and value '
                'identities, HDF5 file bytes.')
    bres = build(THEOREMS)
    R = rng('C19', 'alias')
    tmp = tempfile.mkdtemp(prefix='verif_c19_')
    n = 250 if tier == 'quick' else 2000
    try:
        for i in range(n):
            mode = R.choice(['plain', 'plain', 'fastpath', 'fastpath', 'hdf5', 'fail-rows', 'fail-missing', 'window', 'nonfinite-cast', 'nonfinite-cast'])
            spec = filegen.gen_spec(R, n_lf=1, small=True, fastpath=(mode == 'fastpath'),
                                    rows=R.choice([2, 3, 5]), vrl=R.choice([8192, 64]))
            if mode == 'hdf5':
                spec['write']['data_kind'] = 'hdf5'
                for lf in spec['lfs']:
                    for o in lf['objects']:
                        if o['kind'] == 'channel' and o.get('dataset_name') and o['dataset_name'].startswith('/'):
                            o['dataset_name'] = o['dataset_name'].strip('/').replace('/', '_')
            spec['write'].setdefault('source_opts', {})['tmpdir'] = tmp
            spec['write']['source_opts']['h5name'] = 'src19.h5'
            if spec['write']['data_kind'] == 'struct':
                # the structured array as an owning array, or as a view of something larger that the caller owns too
                spec['write']['source_opts']['struct_view'] = [None, 'slice', 'slice-of-slice', 'bytes'][i % 4]
            if mode == 'window':
                spec['write']['from_idx'] = 1
            if mode == 'nonfinite-cast':
                # float channels holding NaN / infinities / huge values, declared with an integer cast: the cast must
                # work on a copy whatever it makes of such values
                spec['write']['data_kind'] = R.choice(['inline', 'dict', 'struct'])
                first = True
                for lf in spec['lfs']:
                    for o in lf['objects']:
                        if o['kind'] == 'channel' and not o.get('index_like'):
                            if first:
                                first = False
                                continue
                            fdt = R.choice(['float32', 'float64'])
                            shape = o['data'].shape
                            vals = np.array([R.choice([float('nan'), float('inf'), float('-inf'), 1e30, -1e30, 3.5, 0.0, 7.0])
                                             for _ in range(int(np.prod(shape)))], dtype=fdt).reshape(shape)
                            o['dtype'], o['data'] = fdt, vals
                            o['cast_dtype'] = R.choice(['int32', 'uint8', 'int16', 'uint32'])
                            o['layout'] = R.choice(['plain', 'view', 'strided'])
            st, b = call(filegen.build, spec)
            if st != 'ok':
                chk.count(f'build-failed:{b}')
                continue
            if mode == 'fail-rows' and isinstance(b.data, dict) and len(b.data) >= 2:
                k = sorted(b.data)[-1]
                b.data[k] = b.data[k][:-1]
            if mode == 'fail-missing' and isinstance(b.data, dict) and b.data:
                del b.data[sorted(b.data)[-1]]
            # everything the caller owns
            arrays = [a for (_, _, a) in b.arrays]
            if isinstance(b.data, dict):
                arrays += [v for v in b.data.values() if not any(v is a for a in arrays)]
            elif isinstance(b.data, np.ndarray):
                arrays.append(b.data)
            before = [digest_array(a) for a in arrays]
            dict_before = None
            if isinstance(b.data, dict):
                dict_before = [(k, id(v)) for k, v in b.data.items()]
            h5_before = None
            if isinstance(b.data, str):
                h5_before = hashlib.sha256(open(b.data, 'rb').read()).hexdigest()
            res = filegen.write(spec, tmp, built=b)
            after = [digest_array(a) for a in arrays]
            case = {'index': i, 'mode': mode, 'spec': filegen.describe(spec), 'write_status': res['status'],
                    'error': res['error']}
            kinds = spec['write']['data_kind']
            chk.case('alias', nontrivial_key=(i, mode), sample={'mode': mode, 'source': kinds, 'arrays': len(arrays),
                                                               'status': res['status']})
            chk.count(f'{kinds}:{mode}:{res["status"]}')
            for k, (x, y) in enumerate(zip(before, after)):
                if x != y:
                    what = 'contents' if x[3] != y[3] else 'dtype/shape/strides/flags'
                    chk.fail('caller-array-altered', case, f'array #{k} ({x[4]}, shape {x[5]}): {what} changed by the write')
            if dict_before is not None and dict_before != [(k, id(v)) for k, v in b.data.items()]:
                chk.fail('caller-dict-altered', case, 'the dict passed as data has different keys or values after the write')
            if h5_before is not None and h5_before != hashlib.sha256(open(b.data, 'rb').read()).hexdigest():
                chk.fail('caller-hdf5-altered', case, 'the HDF5 source file changed on disk')
        sequence_stream(chk, R, tmp, 60 if tier == 'quick' else 600)
    finally:
        shutil.rmtree(tmp, ignore_errors=True)
    return finish(chk, bres, THEOREMS,
                  partial_note='the effects numpy/h5py operations have on buffers are runtime behaviour: the theorem is about '
                               'the effect model, the checksums tie it to the code.')
