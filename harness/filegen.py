"""Whole-file layer: random valid specifications built through the public API (DLISFile / LogicalFile.add_*),
written by the real package with taps on; the Lean strict reader's dump of the file; and an independent expectation
of what a reader is entitled to see, derived from the specification and the pinned schema (schema_std.json), never
from dliswriter objects."""
import datetime as dtm
import json
import os
import shutil
import struct
import tempfile

import numpy as np

from harness.common import VERIF, hexs, cps, unhex
from harness import impl, eflr
from harness.impl import call, Taps

from dliswriter import DLISFile, AttrSetup, enums, high_compatibility_mode
from dliswriter.logical_record import eflr_types

UTC = dtm.timezone.utc
SCHEMA = json.load(open(os.path.join(VERIF, 'harness', 'schema_std.json')))
ATTRS = {st: rows for st, rows in SCHEMA['attrs']}          # set type -> [(label, pyname, cls, rc, mv, md, units, detail)]
ENUMS = {n: vs for n, vs in SCHEMA['enums']}

# kind -> (add method, set type, {api keyword: python attribute name} overrides)
KINDS = {
    'axis': ('add_axis', 'AXIS', {}),
    'calibration': ('add_calibration', 'CALIBRATION', {}),
    'calibration_coefficient': ('add_calibration_coefficient', 'CALIBRATION-COEFFICIENT', {}),
    'calibration_measurement': ('add_calibration_measurement', 'CALIBRATION-MEASUREMENT', {'measurement_type': 'type'}),
    'channel': ('add_channel', 'CHANNEL', {}),
    'comment': ('add_comment', 'COMMENT', {}),
    'computation': ('add_computation', 'COMPUTATION', {}),
    'equipment': ('add_equipment', 'EQUIPMENT', {'eq_type': '_type'}),
    'frame': ('add_frame', 'FRAME', {}),
    'group': ('add_group', 'GROUP', {}),
    'long_name': ('add_long_name', 'LONG-NAME', {}),
    'message': ('add_message', 'MESSAGE', {'message_type': '_type'}),
    'no_format': ('add_no_format', 'NO-FORMAT', {}),
    'origin': ('add_origin', 'ORIGIN', {}),
    'parameter': ('add_parameter', 'PARAMETER', {}),
    'path': ('add_path', 'PATH', {}),
    'process': ('add_process', 'PROCESS', {}),
    'splice': ('add_splice', 'SPLICE', {}),
    'tool': ('add_tool', 'TOOL', {}),
    'well_reference_point': ('add_well_reference_point', 'WELL-REFERENCE', {}),
    'zone': ('add_zone', 'ZONE', {}),
}
SETTYPE_KIND = {v[1]: k for k, v in KINDS.items()}
DTYPES = ['int8', 'int16', 'int32', 'uint8', 'uint16', 'uint32', 'float32', 'float64']
DT_RC = {'int8': 12, 'int16': 13, 'int32': 14, 'uint8': 15, 'uint16': 16, 'uint32': 17, 'float32': 2, 'float64': 7}
DT_SIZE = {'int8': 1, 'int16': 2, 'int32': 4, 'uint8': 1, 'uint16': 2, 'uint32': 4, 'float32': 4, 'float64': 8}


import inspect
from dliswriter.file.file import LogicalFile
API_PARAMS = {k: set(inspect.signature(getattr(LogicalFile, v[0])).parameters) for k, v in KINDS.items()}


def api_keyword(kind, pyname):
    for k, v in KINDS[kind][2].items():
        if v == pyname:
            return k
    return pyname


class Ref:
    """reference to the i-th object of a logical file's object list"""

    def __init__(self, lf, idx):
        self.lf, self.idx = lf, idx

    def __repr__(self):
        return f'Ref({self.lf},{self.idx})'


# ------------------------------------------------------------------------------------------------------------
# generation

def gen_attr_value(R, row, objs_so_far, lfi, hc=False):
    """a valid value for the attribute described by schema row; references point to earlier objects"""
    label, pyname, cls, rc, mv, md, us, detail = row
    det = dict(x.split('=') if '=' in x else (x, True) for x in detail.split(';') if x)

    def refs(settype):
        return [Ref(lfi, i) for i, o in enumerate(objs_so_far)
                if settype == '*' or KINDS[o['kind']][1] == settype]

    def scalar():
        if cls in ('EFLRAttribute', 'EFLROrTextAttribute'):
            cands = refs(det.get('ref', '*'))
            if cls == 'EFLROrTextAttribute' and (not cands or R.random() < 0.5):
                return eflr.rstr(R, hc=False)
            if not cands:
                return None
            return R.choice(cands)
        if cls == 'StatusAttribute':
            return R.choice([0, 1, True, False])
        if cls == 'DTimeAttribute':
            k = R.random()
            if 'allow_float' in det and k < 0.3:
                return R.choice([0.0, 1.5, -2.25, 1e10, float(R.randrange(0, 10**6)) / 8])
            t = dtm.datetime(R.choice([1900, 1987, 2000, 2024, 2155, R.randrange(1900, 2156)]), R.randrange(1, 13),
                             R.randrange(1, 29), R.randrange(24), R.randrange(60), R.randrange(60),
                             R.choice([0, 0, 500, 1500, 999500, R.randrange(10**6)]))
            if k < 0.5:
                return t.replace(microsecond=0).strftime(R.choice(["%Y/%m/%d %H:%M:%S", "%Y.%m.%d %H:%M:%S"]))
            if k < 0.75:
                if 1901 <= t.year <= 2154:
                    return t.replace(tzinfo=dtm.timezone(dtm.timedelta(minutes=R.choice([0, 60, -330, 345]))))
            return t
        if cls == 'DimensionAttribute':
            return R.choice([1, 2, 3, 5, 10, 127, 128, 300])
        if cls == 'NumericAttribute':
            if 'int_only' in det or rc in (12, 13, 14, 15, 16, 17, 18):
                lo, hi = {12: (-128, 127), 13: (-32768, 32767), 14: (-2**31, 2**31 - 1), 15: (0, 255), 16: (0, 65535),
                          17: (0, 2**32 - 1), 18: (0, 2**30 - 1), 0: (-2**31, 2**31 - 1)}[rc]
                v = R.choice([lo, hi, 0, 1, R.randrange(lo, hi + 1), R.randrange(max(lo, -200), min(hi, 200) + 1)])
                if abs(v) < 2**31 and R.random() < 0.1:
                    return R.choice([np.int64, np.int32 if -2**31 <= v < 2**31 else np.int64, np.float64])(v)   # numpy scalars are numbers too
                return R.choice([v, v, float(v)]) if abs(v) < 2**50 else v
            if R.random() < 0.1:
                return R.choice([np.float64(2.5), np.float32(-3.75), np.float64(-0.0), np.int32(7), np.uint8(200), np.float32(0.0)])
            return R.choice([0.0, -0.0, 1.0, 2.5, -3.75, 1e300, float('inf'), 7, -12, 2**40, R.random() * 1000,
                             float(R.randrange(-10**6, 10**6)) / 64])
        if cls == 'TextAttribute':
            return eflr.rstr(R, R.choice([0, 1, 3, 10, 40, 130, 300]), hc=False)
        if cls in ('IdentAttribute', 'PropertiesAttribute'):
            if 'enum' in det:
                v = R.choice(ENUMS[det['enum']])
                if R.random() < 0.5:
                    return getattr(enums, det['enum'])(v)
                return v
            return eflr.rstr(R, R.choice([1, 3, 8, 20, 127, 128, 255]))
        if cls == 'ReprCodeAttribute':
            return None
        if cls == 'Attribute':
            if label == 'SOURCE':
                cands = refs('*')
                return R.choice(cands) if cands else None
            return None   # handled in the list branch (one kind per list)
        return None

    if cls == 'ReprCodeAttribute':
        return None
    if not mv:
        return scalar()
    mult = R.choice([0, 1, 1, 2, 2, 3, 5, 127, 128, 200]) if R.random() < 0.25 else R.choice([1, 2, 3])
    if cls == 'TextAttribute' and mult > 20:
        mult = 5
    if cls == 'Attribute':
        kind = R.choice(['int', 'float', 'str', 'mixed'])

        def one():
            if kind == 'int':
                return R.randrange(-1000, 1000)
            if kind == 'float':
                return float(R.randrange(-1000, 1000)) / 8
            if kind == 'str':
                return eflr.rstr(R) + 'x'
            return R.choice([R.randrange(-1000, 1000), float(R.randrange(-1000, 1000)) / 8])
        vals = [one() for _ in range(mult)]
    else:
        vals = [scalar() for _ in range(mult)]
        if any(v is None for v in vals):
            return None
    if md and R.random() < 0.5:
        src = (lambda: scalar()) if cls != 'Attribute' else one
        nested = eflr.nest(R, src)
        if any(x is None for x in eflr.flatten(nested)):
            return vals
        return nested
    if R.random() < 0.15:
        return tuple(vals)         # a tuple is as good as a list
    return vals


def gen_data(R, dtype, width, n, index_like=None):
    """rows as bit patterns; index_like: None | 'uniform' | 'increasing' | 'decreasing' | 'random'"""
    size = DT_SIZE[dtype]
    per_row = width or 1
    if index_like in ('uniform', 'increasing', 'decreasing'):
        if dtype.startswith('float'):
            start = float(R.randrange(-1000, 1000))
            step = R.choice([0.5, 1.0, 0.25, 2.0, 0.125])
            if index_like == 'decreasing':
                step = -step
            vals = [start + i * step for i in range(n)]
            if index_like != 'uniform' and n > 2:
                vals = [start + step * (i * i + i) for i in range(n)]
            arr = np.array(vals, dtype=dtype)
        else:
            info = np.iinfo(dtype)
            step = R.choice([1, 2, 3])
            if (n + 6) * step > int(info.max) - int(info.min):
                step = 1                       # the whole ramp must fit the dtype, or it would not be uniform
            start = int(info.min) + R.randrange(0, 5) if index_like != 'decreasing' else min(int(info.max), int(info.min) + 6 + 3 * n)
            if index_like == 'decreasing':
                step = -step
            vals = [start + i * step for i in range(n)]
            vals = [min(max(v, int(info.min)), int(info.max)) for v in vals]
            arr = np.array(vals, dtype=dtype)
        return arr
    # IEEE specials matter only to the float dtypes (signalling / quiet NaNs with payloads, infinities, subnormals);
    # for the integer dtypes they are just further patterns
    special = {4: [0x7fa00000, 0xffa12345, 0x7f800001, 0xffbfffff, 0x7fc00001, 0x7f800000, 0xff800000, 0x00000001, 0x807fffff],
               8: [0x7ff4000000000000, 0xfff0000000000001, 0x7ff7ffffffffffff, 0x7ff8000000000001, 0x7ff0000000000000,
                   0xfff0000000000000, 0x0000000000000001, 0x800fffffffffffff]}.get(size, [])
    base = [0, 1, 2**(8 * size) - 1, 2**(8 * size - 1), 2**(8 * size - 1) - 1]
    bits = [[R.choice(base + [R.getrandbits(8 * size)] + ([R.choice(special)] * 2 if special else []))
             for _ in range(per_row)] for _ in range(n)]
    u = np.array(bits, dtype=f'uint{8 * size}')
    arr = u.view(dtype)
    if width is None:
        arr = arr.reshape(n)
    return arr.copy()


def layout_variant(R, arr, variant=None):
    """same logical values, different byte order / memory layout / flags"""
    variant = variant or R.choice(['plain', 'plain', 'bigendian', 'fortran', 'strided', 'readonly', 'view'])
    if variant == 'bigendian':
        return arr.astype(arr.dtype.newbyteorder('>'))
    if variant == 'fortran' and arr.ndim == 2:
        return np.asfortranarray(arr)
    if variant == 'strided':
        big = np.zeros((arr.shape[0] * 2,) + arr.shape[1:], dtype=arr.dtype)
        big[::2] = arr
        return big[::2]
    if variant == 'readonly':
        a = arr.copy()
        a.flags.writeable = False
        return a
    if variant == 'view':
        big = np.zeros((arr.shape[0] + 4,) + arr.shape[1:], dtype=arr.dtype)
        big[2:-2] = arr
        return big[2:-2]
    return arr


def gen_spec(R, *, n_lf=None, hc=False, small=False, kinds=None, vrl=None, rows=None, with_index=None, fastpath=False,
             frames_plan=None):
    # frames_plan: per frame of every logical file whether its first channel is an index (None / 'uniform' / ...)
    spec = {'sul': {'set_identifier': R.choice(['MAIN-STORAGE-UNIT', 'A', 'X' * 60, 'SET-1']) if hc else
                    R.choice(['MAIN-STORAGE-UNIT', 'A', 'X' * 60, 'some set id', '', ' led by a blank', 'ends in blanks  ']),
                    'sul_sequence_number': R.choice([1, 1, 2, 9999, 0, R.randrange(1, 9999)]),
                    'max_record_length': vrl or R.choice([8192, 8192, 16384, 20, 22, 32, 64, 100, 256, 1024,
                                                         R.randrange(20, 600, 2)])},
            'hc': hc, 'lfs': []}
    n_lf = n_lf or (1 if fastpath else R.choice([1, 1, 1, 2, 3]))
    for li in range(n_lf):
        tag = f'LF{li}' if n_lf > 1 else None
        lf = {'fh_id': R.choice(['FILE-HEADER', 'HDR', 'H' * 65, eflr.rstr(R, R.randrange(1, 66))]
                               + (['', ' LEADING BLANK', '  X ', 'TRAILING  '] if not hc else [])),
              'fh_sequence_number': R.choice([1, 2, 9999999999, R.randrange(1, 10**10)]),
              'fh_identifier': R.choice(['0', 'X', '9']), 'objects': [], 'noformat': [], 'set_tag': tag}
        if not hc and R.random() < 0.12:
            lf['fh_route'] = 'late'
        objs = lf['objects']
        nframes = (R.choice([1, 1, 2]) if not small else 1) if not fastpath else 1
        if frames_plan:
            nframes = len(frames_plan)
        nrows = rows or R.choice([1, 2, 3, 5, 17, 17, 130] if not small else [1, 2, 3])      # 130: frame numbers beyond one UVARI byte
        plan = []
        n_origin = R.choice([1, 1, 2])
        for k in range(n_origin):
            plan.append(('origin', None))
        frames = []
        for f in range(nframes):
            nch = R.choice([1, 1, 2, 3, 5])
            frames.append(nch)
        others = []
        pool = [k for k in KINDS if k not in ('origin', 'channel', 'frame')]
        if kinds is not None:
            pool = [k for k in pool if k in kinds]
        for _ in range(0 if small and R.random() < 0.5 else R.choice([0, 2, 4, 8])):
            if pool:
                others.append(R.choice(pool))
        # order: origin first (70 %) or somewhere later; prerequisites before users is guaranteed by references
        # only pointing backwards
        seq = []
        for k in others[:len(others) // 2]:
            seq.append(('other', k))
        for f, nch in enumerate(frames):
            for c in range(nch):
                seq.append(('channel', (f, c)))
            seq.append(('frame', f))
        for k in others[len(others) // 2:]:
            seq.append(('other', k))
        origin_pos = 0 if R.random() < 0.7 else R.randrange(0, len(seq) + 1)
        seq[origin_pos:origin_pos] = [('origin', i) for i in range(n_origin)]
        frame_channels = {}
        used_names = {}
        ds_names = {}
        for what, arg in seq:
            kind = what if what != 'other' else arg
            o = {'kind': kind, 'attrs': {}, 'set_name': tag, 'origin_reference': None}
            if kind != 'origin' and R.random() < 0.1:
                o['set_name'] = (tag or 'S') + '-2'      # a second set of the type in the logical file
            elif tag is None and R.random() < 0.12:
                o['set_name_arg'] = ''          # set_name='' is passed to the call: an empty name is no name (the unnamed set)
            base = {'origin': 'ORG', 'channel': 'CH', 'frame': 'FR'}.get(kind, kind[:3].upper())
            if kind == 'channel' and arg[1] == 0 and arg[0] > 0 and R.random() < 0.4:
                # a channel of a later frame may reuse the name of a channel of an earlier frame (copy number 1,
                # automatic dataset name NAME__1): names only have to be unique within a frame
                prev = [x['name'] for x in objs if x['kind'] == 'channel']
                o['name'] = R.choice(prev)
                used_names.setdefault(kind, []).append(o['name'])
                o['_reused'] = True
            elif R.random() < 0.25 and used_names.get(kind) and kind != 'channel':
                o['name'] = R.choice(used_names[kind])          # repeated name -> copy number
            else:
                o['name'] = f'{base}{li if n_lf > 1 else ""}{"-" if n_lf > 1 else ""}{len(objs)}' if (R.random() < 0.8 or kind == 'channel') else eflr.rstr(R, R.choice([1, 7, 30]))
                used_names.setdefault(kind, []).append(o['name'])
            rows_schema = ATTRS[KINDS[kind][1]]
            p_assign = R.choice([0.0, 0.3, 0.6, 1.0]) if not small else R.choice([0.0, 0.3])
            skip = set()
            if kind == 'channel':
                f, c = arg
                dtype = R.choice(DTYPES if not hc else ['uint8', 'uint16', 'uint32', 'float32', 'float64'])
                width = R.choice([None, None, 1, 2, 5]) if c > 0 else None
                o['dtype'], o['width'] = dtype, width
                idx_like = None
                if c == 0:
                    idx_like = with_index if with_index is not None else R.choice([None, None, 'uniform'])
                    if frames_plan:
                        idx_like = frames_plan[f]
                    if hc and idx_like not in (None, 'uniform'):
                        idx_like = 'uniform'
                    if hc and (nrows if not isinstance(nrows, dict) else nrows[f]) < 2:
                        idx_like = None       # a single row has no spacing: an indexed frame is refused in the mode
                    if idx_like and not dtype.startswith('float') and R.random() < 0.5:
                        dtype = o['dtype'] = R.choice(['float64', 'float32'])
                o['index_like'] = idx_like
                o['data'] = gen_data(R, dtype, width, nrows if not isinstance(nrows, dict) else nrows[f], idx_like)
                o['layout'] = R.choice(['plain', 'plain', 'bigendian', 'fortran', 'strided', 'readonly', 'view'])
                o['cast_dtype'] = None
                if not hc and not idx_like and R.random() < 0.25:
                    # a declared cast: values are small non-negative integers, exact in every supported dtype
                    o['cast_dtype'] = R.choice([d for d in DTYPES if d != dtype])
                    shape = o['data'].shape
                    o['data'] = (np.array([R.randrange(0, 100) for _ in range(int(np.prod(shape)))]).reshape(shape)).astype(dtype)
                o['dataset_name'] = R.choice([None, None, f'ds_{li}_{len(objs)}', f'/grp/ds{li}_{len(objs)}'])
                if R.random() < 0.2:
                    # a data set name that the library would hand out by itself: the name of the object added next (often
                    # a channel, which must then get another data set name), or the first alternative name of this channel
                    nxt = f'{base}{li if n_lf > 1 else ""}{"-" if n_lf > 1 else ""}{len(objs) + 1}'
                    o['dataset_name'] = R.choice([nxt, nxt, o['name'] + '__1'])
                # (a data set name that is already in use is refused by the library: keep the specification valid)
                taken = ds_names.setdefault(li, [])
                if o['dataset_name'] is not None and o['dataset_name'] in taken:
                    o['dataset_name'] = f'ds_{li}_{len(objs)}'
                if o['dataset_name'] is not None:
                    taken.append(o['dataset_name'])
                else:
                    auto, k_ = o['name'], 0
                    while auto in taken:
                        k_ += 1
                        auto = f"{o['name']}__{k_}"
                    taken.append(auto)
                frame_channels.setdefault(f, []).append(len(objs))
                skip = {'dimension', 'element_limit', 'axis', 'representation_code'}
                if not hc and R.random() < 0.3:
                    # a dimension equal to the data's, and / or an element limit at or above it: both valid, both kept
                    w = width or 1
                    if R.random() < 0.6:
                        o['attrs']['element_limit'] = {'v': [w + R.choice([0, 0, 3, 120])], 'units': None,
                                                       'route': R.choice(['plain', 'dict', 'later'])}
                    if R.random() < 0.5:
                        o['attrs']['dimension'] = {'v': [w], 'units': None, 'route': R.choice(['plain', 'dict', 'later'])}
            if kind == 'frame':
                o['channels'] = [Ref(li, i) for i in frame_channels[arg]]
                first = objs[frame_channels[arg][0]]
                if first['index_like']:
                    o['attrs']['index_type'] = {'v': R.choice(ENUMS['FrameIndexType']), 'units': None, 'route': 'plain'}
                skip = {'channels', 'index_type', 'spacing', 'direction', 'index_min', 'index_max', 'encrypted'}
                if R.random() < 0.4:
                    # index characteristics supplied by the user (zero included: it is a value, not "unset") are
                    # written as given; only the ones left out are derived from the data
                    for pyname in ('spacing', 'index_min', 'index_max'):
                        if R.random() < 0.6:
                            v = R.choice([0, 0.0, 0, -0.0, 1, 2.5, -3.75, 100, float(R.randrange(-1000, 1000)) / 4])
                            o['attrs'][pyname] = {'v': v, 'units': R.choice([None, None, 'm', 's']) ,
                                                  'route': R.choice(['plain', 'dict', 'setup', 'later'])}
            if kind == 'origin':
                o['attrs']['file_set_number'] = {'v': R.choice([R.randrange(1, 2**30), R.randrange(1, 2**30), 0, 127, 128, 16383, 16384]) if not hc else None, 'units': None,
                                                 'route': 'plain'}
                if hc:
                    del o['attrs']['file_set_number']
                o['attrs']['creation_time'] = {'v': dtm.datetime(2020, 5, 17, 12, 30, 45, 250000), 'units': None,
                                               'route': 'plain'}
                if arg and R.random() < 0.5:
                    o['origin_reference'] = R.choice([5, 127, 128, 16384, 70000])
                skip = {'file_set_number', 'creation_time', 'file_id'}
            if kind in ('parameter', 'computation', 'calibration_measurement', 'calibration_coefficient'):
                # keep the cross-attribute consistency rules out of the valid stream: no dimension/axis/zones together
                skip = {'dimension', 'axis', 'zones', 'maximum_deviation', 'standard_deviation', 'standard',
                        'plus_tolerance', 'minus_tolerance', 'references', 'plus_tolerances', 'minus_tolerances'}
                zones_avail = [Ref(li, i) for i, x in enumerate(objs) if x['kind'] == 'zone']
                axes_avail = [(Ref(li, i), x) for i, x in enumerate(objs) if x['kind'] == 'axis']
                if kind in ('parameter', 'computation') and zones_avail and R.random() < 0.45:
                    # a consistent combination: one value (scalar or of shape [d]) per zone, the dimension left to be
                    # derived or stated, an axis whose coordinates (if it has any) number d
                    nz = R.choice([1, 1, 2, 3])
                    zs = [R.choice(zones_avail) for _ in range(nz)]
                    d = R.choice([None, None, 2, 3])
                    one = (lambda: R.choice([1.5, -2.0, 7.25, 0.0])) if R.random() < 0.7 else (lambda: R.randrange(-50, 50))
                    vals = [one() if d is None else [one() for _ in range(d)] for _ in range(nz)]
                    o['attrs']['values'] = {'v': vals, 'units': R.choice([None, 'm']), 'route': R.choice(['plain', 'dict', 'later'])}
                    o['attrs']['zones'] = {'v': zs, 'units': None, 'route': 'plain'}
                    if R.random() < 0.4:
                        o['attrs']['dimension'] = {'v': [d or 1], 'units': None, 'route': R.choice(['plain', 'later'])}
                    fits = [r for r, x in axes_avail if 'coordinates' not in x['attrs']
                            or len(eflr.flatten(x['attrs']['coordinates']['v'] if isinstance(x['attrs']['coordinates']['v'], (list, tuple))
                                                else [x['attrs']['coordinates']['v']])) == (d or 1)]
                    if fits and R.random() < 0.5:
                        o['attrs']['axis'] = {'v': [R.choice(fits)], 'units': None, 'route': 'plain'}
                    skip = skip | {'values'}
            if kind == 'splice':
                skip = {'zones'}
            if kind == 'zone':
                skip = {'domain'} if R.random() < 0.7 else {'maximum', 'minimum'}
            for row in rows_schema:
                label, pyname, cls, rc, mv, md, us, detail = row
                if pyname in skip or pyname in o['attrs'] or R.random() >= p_assign:
                    continue
                if api_keyword(kind, pyname) not in API_PARAMS[kind]:
                    continue
                if us and kind != 'frame' and R.random() < 0.04:
                    # units given for an attribute that never gets a value: the attribute stays absent
                    o['attrs'][pyname] = {'v': None, 'units': R.choice(['m', 's', 'ft']),
                                          'route': R.choice(['units-dict', 'units-setup', 'units-later'])}
                    continue
                v = gen_attr_value(R, row, objs, li, hc=hc)
                if v is None:
                    continue
                if kind == 'parameter' and pyname == 'values' and isinstance(v, (list, tuple)):
                    fl = eflr.flatten(v)
                    v = fl[:1] if fl else [1.5]       # without zones a parameter takes a single value
                u = None
                if us and R.random() < 0.3:
                    u = R.choice(ENUMS['Unit'][:40]) if hc or R.random() < 0.7 else R.choice(['unknown-unit', 'u' * 130])
                o['attrs'][pyname] = {'v': v, 'units': u, 'route': R.choice(['plain', 'dict', 'setup', 'later'])}
            if kind != 'origin' and R.random() < 0.1:
                o['origin_reference'] = R.choice([3, 128, 16384])
            objs.append(o)
        nfs = [i for i, o in enumerate(objs) if o['kind'] == 'no_format']
        for _ in range(R.choice([0, 1, 3]) if nfs else 0):
            n = R.choice([0, 1, 2, 5, 11, 12, 13, 100, 3 * (spec['sul']['max_record_length'] - 8) + 1])
            payload = bytes(R.randrange(256) for _ in range(min(n, 5000)))
            if R.random() < 0.3:
                payload = ''.join(chr(R.randrange(32, 127)) for _ in range(min(n, 300)))
            elif R.random() < 0.3:
                payload = bytearray(payload)        # the third accepted payload type
            lf['noformat'].append((R.choice(nfs), payload))
        spec['lfs'].append(lf)
    spec['object_routes'] = R.random() < 0.25
    spec['edit_passed_lists'] = R.random() < 0.3
    # one structured array / HDF5 file may serve all frames of all logical files (each takes its own fields)
    data_kinds = ['inline', 'inline', 'dict', 'struct', 'struct', 'hdf5']
    if fastpath:
        # the structured array IS the frame: same field names, same order, nothing else -> no-copy path of
        # NumpyDataWrapper; same-size casts on 2-D channels, scalar casts, or none
        SAME = {'int32': ['uint32', 'float32'], 'uint32': ['int32', 'float32'], 'float32': ['int32', 'uint32'],
                'int16': ['uint16'], 'uint16': ['int16'], 'int8': ['uint8'], 'uint8': ['int8']}
        chans = [o for o in spec['lfs'][0]['objects'] if o['kind'] == 'channel']
        mode = R.choice(['none', 'same-size-2d', 'same-size-2d', 'any'])
        for k, o in enumerate(chans):
            o['dataset_name'] = None
            o['layout'] = R.choice(['plain', 'bigendian'])
            o['cast_dtype'] = None
            if k > 0 and mode == 'same-size-2d' and o['dtype'] in SAME:
                o['width'] = o['width'] or R.choice([2, 4])
            shape = (o['data'].shape[0],) + ((o['width'],) if o['width'] else ())
            o['data'] = np.array([R.randrange(0, 100) for _ in range(int(np.prod(shape)))]).reshape(shape).astype(o['dtype'])
            if k > 0 and mode == 'same-size-2d' and o['dtype'] in SAME and o['width']:
                o['cast_dtype'] = R.choice(SAME[o['dtype']])
            elif k > 0 and mode == 'any' and R.random() < 0.5:
                o['cast_dtype'] = R.choice([d for d in DTYPES if d != o['dtype']])
        data_kinds = ['struct']
    spec['write'] = {'input_chunk_size': R.choice([None, None, 1, 2, 3, 1000]),
                     'output_chunk_size': R.choice([2**20, spec['sul']['max_record_length'],
                                                    spec['sul']['max_record_length'] + 10, 2**16]),
                     'from_idx': 0, 'to_idx': None, 'data_kind': R.choice(data_kinds),
                     'source_opts': {'perm_seed': R.randrange(1000), 'extra': R.choice([0, 0, 2]), 'exact': fastpath}}
    if spec['write']['data_kind'] == 'struct' and len({o['data'].shape[0] for lf in spec['lfs'] for o in lf['objects']
                                                         if o['kind'] == 'channel'}) > 1:
        spec['write']['data_kind'] = 'dict'      # one structured array has one row count
    # a row window (applies to every frame of every logical file): only when no frame has an index type, whose
    # derived attributes are the business of C13
    min_rows = min(o['data'].shape[0] for lf in spec['lfs'] for o in lf['objects'] if o['kind'] == 'channel')
    indexed = any('index_type' in o['attrs'] for lf in spec['lfs'] for o in lf['objects'] if o['kind'] == 'frame')
    if not indexed and not fastpath and min_rows >= 2 and R.random() < 0.3:
        lo = R.randrange(0, min_rows - 1)
        spec['write']['from_idx'] = lo
        if R.random() < 0.6:
            spec['write']['to_idx'] = R.randrange(lo + 1, min_rows + 1)
    return spec


# ------------------------------------------------------------------------------------------------------------
# building through the public API and writing

class Built:
    pass


def _resolve(v, handles):
    if isinstance(v, Ref):
        return handles[v.lf][v.idx]
    if isinstance(v, tuple):
        return tuple(_resolve(x, handles) for x in v)       # a tuple reaches the API as a tuple
    if isinstance(v, list):
        return [_resolve(x, handles) for x in v]
    return v


class DatasetNameCollision(Exception):
    pass


def _note_lists(v, acc):
    if isinstance(v, list):
        acc.append(v)
        for x in v:
            _note_lists(x, acc)
    elif isinstance(v, tuple):
        for x in v:
            _note_lists(x, acc)


def build(spec):
    """-> Built (df, handles per logical file, data dict per logical file); exceptions propagate"""
    b = Built()
    s = spec['sul']
    if spec.get('object_routes'):
        # the label and the file headers handed in as ready-made objects instead of keyword values
        from dliswriter.logical_record.misc.storage_unit_label import StorageUnitLabel
        b.df = DLISFile(storage_unit_label=StorageUnitLabel(s['set_identifier'], sequence_number=s['sul_sequence_number'],
                                                            max_record_length=s['max_record_length']))
    else:
        b.df = DLISFile(set_identifier=s['set_identifier'], sul_sequence_number=s['sul_sequence_number'],
                        max_record_length=s['max_record_length'])
    b.handles = []
    passed_lists = []      # every list object handed to the library as (part of) the value of a multi-valued attribute
    multivalued_of = {k: {row[1] for row in ATTRS[KINDS[k][1]] if row[4]} for k in KINDS}
    dsn_seen = {}
    b.data = {}
    b.arrays = []      # (lf index, object index, array as handed to the package)
    for li, lf in enumerate(spec['lfs']):
        if spec.get('object_routes'):
            fh = eflr_types.FileHeaderItem(lf['fh_id'], parent=eflr_types.FileHeaderSet(),
                                           sequence_number=lf['fh_sequence_number'], identifier=lf['fh_identifier'])
            L = b.df.add_logical_file(file_header=fh)
        else:
            if lf.get('fh_route') == 'late':
                # header values assigned to the header object after it was made (before any object is added)
                L = b.df.add_logical_file(fh_id='PLACEHOLDER', fh_sequence_number=1, fh_identifier=lf['fh_identifier'])
                L.file_header.header_id = lf['fh_id']
                L.file_header.sequence_number = lf['fh_sequence_number']
            else:
                L = b.df.add_logical_file(fh_id=lf['fh_id'], fh_sequence_number=lf['fh_sequence_number'],
                                          fh_identifier=lf['fh_identifier'])
        hs = []
        b.handles.append(hs)
        for oi, o in enumerate(lf['objects']):
            method = getattr(L, KINDS[o['kind']][0])
            kw = {}
            later = []
            for pyname, a in o['attrs'].items():
                if a['route'] in ('units-dict', 'units-setup', 'units-later'):
                    if a['route'] == 'units-later':
                        later.append((pyname, None, a['units']))
                    else:
                        kw[api_keyword(o['kind'], pyname)] = ({'units': a['units']} if a['route'] == 'units-dict'
                                                               else AttrSetup(units=a['units']))
                    continue
                v = _resolve(a['v'], b.handles)
                if pyname in multivalued_of.get(o['kind'], ()):
                    _note_lists(v, passed_lists)      # (a list given to a single-valued attribute is kept as it is: not noted)
                if a['route'] == 'later' and o['kind'] not in ('origin',) and pyname not in ('index_type',):
                    later.append((pyname, v, a['units']))       # assigned after creation through .value / .units
                    continue
                if a['route'] == 'dict' or (a['units'] is not None and a['route'] in ('plain', 'later')):
                    v = {'value': v, 'units': a['units']} if a['units'] is not None else {'value': v}
                elif a['route'] == 'setup':
                    v = AttrSetup(value=v, units=a['units'])
                kw[api_keyword(o['kind'], pyname)] = v
            if o.get('set_name') is not None:
                kw['set_name'] = o['set_name']
            elif 'set_name_arg' in o:
                kw['set_name'] = o['set_name_arg']
            if o.get('origin_reference') is not None:
                kw['origin_reference'] = o['origin_reference']
            if o['kind'] == 'channel':
                arr = layout_variant(None, o['data'], o['layout'])
                b.arrays.append((li, oi, arr))
                if o.get('cast_dtype'):
                    kw['cast_dtype'] = getattr(np, o['cast_dtype'])
                if o.get('dataset_name') is not None:
                    kw['dataset_name'] = o['dataset_name']
                if spec['write']['data_kind'] == 'inline':
                    kw['data'] = arr
            if o['kind'] == 'frame':
                kw['channels'] = [b.handles[r.lf][r.idx] for r in o['channels']]
            item = method(o['name'], **kw)
            if o['kind'] == 'channel':
                # data set names are the keys under which the data of the channels are looked up: the library must never
                # hand out one name twice within a logical file (the second array would replace the first)
                if item.dataset_name in dsn_seen.setdefault(li, set()):
                    raise DatasetNameCollision(f'channel {o["name"]!r} was given the data set name {item.dataset_name!r}, '
                                               f'which another channel of the logical file already has')
                dsn_seen[li].add(item.dataset_name)
            if o['kind'] == 'channel' and spec['write']['data_kind'] != 'inline':
                # the data set is supplied under the name the channel expects (explicit, or the automatic
                # NAME / NAME__1 ... for a repeated channel name)
                b.data[item.dataset_name] = b.arrays[-1][2]
            for pyname, v, u in later:
                attr = getattr(item, pyname)
                if v is not None or u is None:
                    attr.value = v
                if u is not None:
                    attr.units = u
            hs.append(item)
        for (nfi, payload) in lf['noformat']:
            L.add_no_format_frame_data(hs[nfi], payload)
    kind = spec['write']['data_kind']
    if kind in ('struct', 'hdf5'):
        if kind == 'struct' and len({a.shape[0] for a in b.data.values()}) > 1:
            raise ValueError('generator: structured source needs one row count')
        b.data = make_source(kind, b.data, spec['write'].get('source_opts', {}))
    if spec.get('edit_passed_lists'):
        # the caller goes on using the lists it passed (cumulative selections, scratch lists): what the objects hold is
        # what was passed at the time of the call
        for lst in passed_lists:
            first = lst[0] if lst else None
            lst.clear()
            if first is not None:
                lst.extend([first, first, first])
    return b


def make_source(kind, datasets, opts):
    """the same datasets as a structured array or an HDF5 file; opts: order (permutation seed), extra (unused
    datasets), tmpdir"""
    import random
    names = list(datasets)
    R = random.Random(opts.get('perm_seed', 0))
    extra = opts.get('extra', 0)
    if opts.get('exact'):
        extra = 0          # fields exactly as handed in (channel order of the single frame)
    else:
        R.shuffle(names)
    n = next(iter(datasets.values())).shape[0] if datasets else 0
    if kind == 'struct':
        fields = []
        for nm in names:
            a = datasets[nm]
            fields.append((nm, a.dtype) if a.ndim == 1 else (nm, a.dtype, a.shape[1:]))
        for k in range(extra):
            fields.insert(R.randrange(len(fields) + 1), (f'unused_{k}', np.float32))
        how = opts.get('struct_view')
        if how == 'slice':
            big = np.zeros(n + 7, dtype=fields)
            arr = big[3:3 + n]                       # a view into a larger array the caller owns
        elif how == 'slice-of-slice':
            big = np.zeros(n + 9, dtype=fields)
            arr = big[2:][1:][1:1 + n]
        elif how == 'bytes':
            dt = np.dtype(fields)
            raw = np.zeros((n + 4) * dt.itemsize, dtype=np.uint8)
            arr = raw.view(dt)[2:2 + n]              # a reinterpreted byte buffer
        else:
            arr = np.zeros(n, dtype=fields)
        for nm in names:
            arr[nm] = datasets[nm]
        return arr
    import h5py
    path = os.path.join(opts['tmpdir'], opts.get('h5name', 'src.h5'))
    if os.path.exists(path):
        os.unlink(path)
    with h5py.File(path, 'w') as f:
        for nm in names:
            f.create_dataset(nm if nm.startswith('/') else '/' + nm, data=np.ascontiguousarray(datasets[nm]))
        for k in range(extra):
            f.create_dataset(f'/unused/{k}', data=np.arange(n + 3, dtype=np.float32))
    return path


def write(spec, tmpdir, built=None, fname='out.dlis', prior=None, read_disk=False, keep_existing=False):
    """-> dict(status, error, data, records, flushes, built)"""
    out = {'status': 'err', 'error': None, 'data': None, 'records': [], 'flushes': [], 'built': None, 'stage': 'build'}
    path = os.path.join(tmpdir, fname)
    if prior is not None:
        with open(path, 'wb') as f:
            f.write(prior)
    elif os.path.exists(path) and not keep_existing:
        os.unlink(path)

    spec['write'].setdefault('source_opts', {}).setdefault('tmpdir', tmpdir)

    def go():
        b = built or build(spec)
        out['built'] = b
        out['stage'] = 'write'
        w = spec['write']
        kwargs = dict(input_chunk_size=w['input_chunk_size'], output_chunk_size=w['output_chunk_size'])
        if w['from_idx']:
            kwargs['from_idx'] = w['from_idx']
        if w['to_idx'] is not None:
            kwargs['to_idx'] = w['to_idx']
        if w['data_kind'] != 'inline':
            kwargs['data'] = b.data
        with Taps(read_disk=read_disk) as t:
            try:
                b.df.write(path, **kwargs)
            finally:
                out['records'] = t.records
                out['flushes'] = t.flushes
    if spec.get('hc'):
        def run():
            with high_compatibility_mode():
                go()
        st, res = call(run)
    else:
        st, res = call(go)
    out['status'] = st
    if st != 'ok':
        out['error'] = res
        return out
    with open(path, 'rb') as f:
        out['data'] = f.read()
    return out


def describe(spec):
    """JSON-able, human-readable rendering of a specification (for replays and samples)"""
    def dv(v):
        if isinstance(v, Ref):
            return f'<object #{v.idx} of logical file {v.lf}>'
        if isinstance(v, (list, tuple)):
            return [dv(x) for x in v]
        if isinstance(v, float):
            return f'{v!r} (0x{eflr.f64bits(v):016x})'
        if isinstance(v, (dtm.datetime, enums.ValidatorEnum if hasattr(enums, "ValidatorEnum") else ())):
            return repr(v)
        if isinstance(v, bytes):
            return 'bytes:' + v[:64].hex() + ('...' if len(v) > 64 else '')
        if isinstance(v, np.ndarray):
            return {'dtype': str(v.dtype), 'shape': list(v.shape), 'head': v.reshape(-1)[:8].tolist()}
        if isinstance(v, (int, str, bool)) or v is None:
            return v
        return repr(v)
    d = {'sul': spec['sul'], 'hc': spec.get('hc', False), 'write': spec['write'], 'logical_files': [],
         'lists_passed_as_values_edited_by_the_caller_before_the_write': bool(spec.get('edit_passed_lists'))}
    for lf in spec['lfs']:
        objs = []
        for o in lf['objects']:
            e = {k: dv(v) for k, v in o.items() if k not in ('attrs', 'data')}
            e['attrs'] = {k: {'v': dv(a['v']), 'units': a['units'], 'route': a['route']} for k, a in o['attrs'].items()}
            if 'data' in o:
                e['data'] = dv(o['data'])
            objs.append(e)
        d['logical_files'].append({'fh_id': lf['fh_id'], 'fh_sequence_number': lf['fh_sequence_number'],
                                   'header_values_assigned_after_construction': lf.get('fh_route') == 'late',
                                   'fh_identifier': lf['fh_identifier'], 'objects': objs,
                                   'noformat': [[i, dv(p) if not isinstance(p, bytearray) else 'bytearray:' + bytes(p)[:64].hex()] for i, p in lf['noformat']]})
    return d


# ------------------------------------------------------------------------------------------------------------
# the reader's dump

def parse_dump(rep):
    """'ok E0 type=.. name=.. T[..] O..|..;.. | I0 <hex> | ...' -> list of records"""
    assert rep.startswith('ok ')
    recs = []
    body = rep[3:]
    if not body:
        return recs
    for part in body.split(' | '):
        tag, _, rest = part.partition(' ')
        if tag[0] == 'I':
            recs.append({'eflr': False, 'type': int(tag[1:]), 'body': unhex(rest)})
            continue
        r = {'eflr': True, 'type': int(tag[1:])}
        if rest.startswith('UNDECODABLE'):
            r['undecodable'] = True
            recs.append(r)
            continue
        head, _, tail = rest.partition(' T[')
        tmpl, _, objtxt = tail.partition('] ')
        if not _:
            tmpl = tail[:-1] if tail.endswith(']') else tail
            objtxt = ''
        f = dict(x.split('=') for x in head.split(' '))
        r['set_type'] = unhex(f['type']).decode('ascii')
        r['set_name'] = None if f['name'] == '~' else unhex(f['name']).decode('ascii')
        r['template'] = []
        for t in (tmpl.split(' ') if tmpl else []):
            l, c, rc, u = t.split(':')
            r['template'].append({'label': unhex(l).decode('ascii'), 'count': int(c), 'rc': int(rc), 'units': unhex(u)})
        r['objects'] = []
        for g in (objtxt.split(' ') if objtxt else []):
            ident, _, attrs = g.partition('|')
            o, c, n = ident[1:].split(',')
            ob = {'origin': int(o), 'copy': int(c), 'name': unhex(n).decode('ascii'), 'attrs': []}
            for a in (attrs.split(';') if attrs else []):
                if a == '~':
                    ob['attrs'].append(None)
                else:
                    cnt, rc, units, vals = a.split(':')
                    ob['attrs'].append({'count': int(cnt), 'rc': int(rc), 'units': unhex(units).decode('ascii'),
                                        'vals': [] if vals == '-' else vals.split(',')})
            while len(ob['attrs']) < len(r['template']):
                ob['attrs'].append(None)
            r['objects'].append(ob)
        recs.append(r)
    return recs


def dump_req(spec, data):
    s = spec['sul']
    return f"dump {s['max_record_length']} {cps(str(s['sul_sequence_number']))} {cps(s['set_identifier'])} {hexs(data)}"


def tapped_file_req(spec, records):
    s = spec['sul']
    toks = [f"file {s['max_record_length']} {cps(str(s['sul_sequence_number']))} {cps(s['set_identifier'])}"]
    for (e, ts, b, cap) in records:
        toks.append(f"{1 if e else 0} {ts[0] if ts else 0} {hexs(b)}")
    return ' '.join(toks)


# ------------------------------------------------------------------------------------------------------------
# framing stream used by C01 / C02 / C15: whole writes, file bytes vs frameFile(tapped records)

def run_framing_stream(prop, tier, chk, model, bres):
    from harness.common import rng
    R = rng(prop, 'whole-file')
    n = 200 if tier == 'quick' else 1500
    tmp = tempfile.mkdtemp(prefix='verif_ff_')
    try:
        reqs, cases = [], []
        for i in range(n):
            spec = gen_spec(R, small=(i % 3 != 0))
            res = write(spec, tmp)
            chk.case('whole-file', nontrivial_key=i, sample={'describe': 'spec #%d' % i,
                                                              'vrl': spec['sul']['max_record_length'],
                                                              'status': res['status'], 'error': res['error']})
            chk.count(f'whole-file:{res["status"]}' + (f':{res["stage"]}:{res["error"]}' if res['status'] != 'ok' else ''))
            if res['status'] != 'ok':
                if prop == 'C15' and res['stage'] == 'write':
                    chk.fail('whole-file:valid-spec-not-writable', {'spec': describe(spec), 'index': i},
                             f"write raised {res['error']} for a valid specification")
                continue
            reqs.append(tapped_file_req(spec, res['records']))
            cases.append((i, spec, res))
            if i % 3 == 0 and res.get('built') is not None:
                # the same DLISFile written a second time: the framing of the second file is held to the same standard
                res2 = write(spec, tmp, built=res['built'], fname='again.dlis')
                chk.case('whole-file-second-write', nontrivial_key=('again', i))
                chk.count(f'whole-file-second-write:{res2["status"]}')
                if res2['status'] == 'ok':
                    reqs.append(tapped_file_req(spec, res2['records']))
                    cases.append((f'{i} (second write of the same DLISFile)', spec, res2))
                elif prop == 'C15':
                    chk.fail('whole-file:second-write-raises', {'spec': describe(spec), 'index': i},
                             f"the second write of the same DLISFile raised {res2['error']}")
            res['built'] = None
        if bres.ok:
            reps = model.ask(reqs)
            rd = []
            for (i, spec, res), rep in zip(cases, reps):
                irep = 'ok ' + hexs(res['data'])
                if rep != irep:
                    chk.disagree('whole-file', {'index': i, 'spec': describe(spec)}, irep, rep)
                s = spec['sul']
                kind = 'readsegs' if prop == 'C01' else 'read'
                rd.append(f"{kind} {s['max_record_length']} {cps(str(s['sul_sequence_number']))} "
                          f"{cps(s['set_identifier'])} {hexs(res['data'])}")
            for (i, spec, res), rep in zip(cases, model.ask(rd)):
                if prop == 'C01':
                    if not rep.startswith('ok'):
                        chk.fail('whole-file:malformed-layout', {'index': i, 'spec': describe(spec)},
                                 'strict physical reader rejects the written file')
                else:
                    want = 'ok ' + (';'.join(f'{1 if e else 0}:{ts[0]}:{hexs(b)}' for (e, ts, b, cap) in res['records']
                                             if len(b)) or '-')
                    if rep != want:
                        chk.fail('whole-file:records-differ', {'index': i, 'spec': describe(spec)},
                                 'reassembled records differ from the records the writer was given (lr-tap)')
                    elif rep.startswith('ok'):
                        # ... and the writer was given every record the specification calls for (counted from the
                        # specification, not from the tap): one per frame row written, one per no-format packet, one per
                        # logical file header and per non-empty set
                        from harness import content as _content
                        _sim, _exp = _content.expected(spec)
                        want_i = sum(len(E['noformat']) + sum(len(fr['rows']) for fr in E['frames']) for E in _exp)
                        want_e = sum(1 + len({(k[0], k[1]) for k in E['objects']}) for E in _exp)
                        recs_ = [x for x in rep[3:].split(';') if x and x != '-']
                        got_i = sum(1 for x in recs_ if x.startswith('0:'))
                        got_e = sum(1 for x in recs_ if x.startswith('1:'))
                        if (got_i, got_e) != (want_i, want_e):
                            chk.fail('whole-file:record-count', {'index': i, 'spec': describe(spec)},
                                     f'the file holds {got_e} explicitly and {got_i} indirectly formatted records; the specification '
                                     f'calls for {want_e} and {want_i}')
    finally:
        shutil.rmtree(tmp, ignore_errors=True)
