"""L1 correspondence (segmentation, visible records, SUL, buffered output) shared by C01, C02, C15, C10."""
import os
import tempfile

from harness.common import hexs, cps, unhex
from harness import impl
from harness.impl import call, lrb, wr

from dliswriter.logical_record.misc.storage_unit_label import StorageUnitLabel


class FakeLR:
    def __init__(self, is_eflr, ty, body):
        self.is_eflr, self.ty, self.body = is_eflr, ty, body

    def represent_as_bytes(self):
        return lrb.LogicalRecordBytes(self.body, lr_type_struct=bytes([self.ty]), is_eflr=self.is_eflr)


def impl_segments(cap, is_eflr, ty, body):
    def f():
        return [bytes(s) for s, _ in lrb.LogicalRecordBytes(body, bytes([ty]), is_eflr).make_segments(cap)]
    return call(f)


def impl_file(tmpdir, vrl, seq, setid, recs, out_chunk=None, prior=None):
    """Drive the real StorageUnitLabel + DLISWriter with synthetic logical records. -> (status, bytes|kind, total)"""
    fn = os.path.join(tmpdir, 'f.dlis')
    if prior is not None:
        with open(fn, 'wb') as f:
            f.write(prior)
    elif os.path.exists(fn):
        os.unlink(fn)

    def f():
        sul = StorageUnitLabel(setid, seq, vrl)
        w = wr.DLISWriter(fn, visible_record_length=vrl)
        w.write_storage_unit_label(sul)
        lrs = [FakeLR(e, t, b) for e, t, b in recs]
        # NB the default output_chunk_size (2**32) makes BufferedOutput allocate and zero a 4 GiB bytearray per
        # write (~20 s); the harness always passes an explicit valid chunk size (C10 shows it does not matter)
        w.write_logical_records(lrs, output_chunk_size=out_chunk if out_chunk is not None else max(vrl, 1 << 20))
        return w._byte_writer.total_size
    st, res = call(f)
    if st != 'ok':
        return st, res, None
    with open(fn, 'rb') as fh:
        data = fh.read()
    return 'ok', data, res


def recs_token(recs):
    return ' '.join(f'{1 if e else 0} {t} {hexs(b)}' for e, t, b in recs)


def file_req(vrl, seq, setid, recs):
    r = recs_token(recs)
    return f'file {vrl} {cps(str(seq))} {cps(setid)}' + (' ' + r if r else '')


def read_req(kind, vrl, seq, setid, data):
    return f'{kind} {vrl} {cps(str(seq))} {cps(setid)} {hexs(data)}'


def show_recs(recs):
    rs = [r for r in recs if len(r[2])]
    return 'ok ' + (';'.join(f'{1 if e else 0}:{t}:{hexs(b)}' for e, t, b in rs) if rs else '-')


def body_of(R, n):
    return bytes(R.randrange(256) for _ in range(n))


def seg_window(tier):
    """(cap, L) pairs: exhaustive for small capacities, windows around multiples for large ones."""
    caps = list(range(12, 41 if tier == 'quick' else 65)) + ([8184] if tier == 'quick' else [8184, 16376, 1016])
    for cap in caps:
        if cap <= 64:
            Ls = list(range(0, 4 * cap + 41))
        else:
            Ls = sorted({k * cap + d for k in range(0, 4) for d in range(-14, 15) if k * cap + d >= 0} | set(range(0, 30)))
        for L in Ls:
            yield cap, L
    # capacities the writer must refuse
    for cap in (0, 1, 11, -4):
        yield cap, 30
