"""In-process access to the real dliswriter (working tree of /repo), with hooks on and noise silenced."""
import os
import sys

os.environ['WELL_ID_DLISWRITER_VERIF'] = '1'
from harness.common import REPO

_src = os.path.join(REPO, 'src')
if _src not in sys.path:
    sys.path.insert(0, _src)

# progressbar and logging write to fd 2; silence at process level but keep our own channel
_saved_err = os.dup(2)
_devnull = os.open(os.devnull, os.O_WRONLY)
os.dup2(_devnull, 2)
sys.stderr = open(os.devnull, 'w')
_log = os.fdopen(_saved_err, 'w', buffering=1)


def log(msg):
    _log.write(str(msg) + '\n')

import logging
logging.disable(logging.CRITICAL)
import warnings
warnings.filterwarnings('ignore')

import dliswriter  # noqa: E402
assert os.path.realpath(dliswriter.__file__).startswith(os.path.realpath(_src)), dliswriter.__file__

from dliswriter.utils.internal import struct_writer as sw  # noqa: E402
from dliswriter.utils.internal.internal_enums import RepresentationCode as RC  # noqa: E402
from dliswriter.logical_record.core.logical_record import logical_record_bytes as lrb  # noqa: E402
from dliswriter.file import writer as wr  # noqa: E402


def err_name(exc):
    import struct
    if isinstance(exc, struct.error):
        return 'struct'
    if isinstance(exc, UnicodeError):
        return 'unicode'
    if isinstance(exc, OverflowError):
        return 'overflow'
    for cls, n in ((AttributeError, 'attr'), (TypeError, 'type'), (ValueError, 'value'), (RuntimeError, 'runtime'),
                   (KeyError, 'key'), (IndexError, 'index')):
        if isinstance(exc, cls):
            return n
    return 'other:' + type(exc).__name__


def call(f, *a, **k):
    """-> ('ok', result) | ('err', kind)"""
    try:
        return 'ok', f(*a, **k)
    except Exception as exc:  # noqa
        return 'err', err_name(exc)


class Taps:
    """Collect lr-tap and flush-tap events for the duration of a with-block."""

    def __init__(self, read_disk=False):
        self.records = []
        self.flushes = []
        self.read_disk = read_disk

    def __enter__(self):
        lrb._verif_lr_sinks.append(self._lr)
        wr._verif_flush_sinks.append(self._fl)
        return self

    def __exit__(self, *a):
        lrb._verif_lr_sinks.remove(self._lr)
        wr._verif_flush_sinks.remove(self._fl)

    def _lr(self, is_eflr, type_struct, bts, cap):
        self.records.append((bool(is_eflr), bytes(type_struct), bytes(bts), cap))

    def _fl(self, filename, mode, n, total):
        try:
            size = os.path.getsize(filename)
        except OSError:
            size = None
        content = None
        if self.read_disk:
            with open(filename, 'rb') as f:
                content = f.read()
        self.flushes.append((mode, n, total, size, content))
