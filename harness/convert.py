"""Converter-layer correspondence (C05 link 2; also used by C12 and C17): sequences of `set_attributes` calls on
one attribute of a fresh item of every object type, on the real package and on the Lean model
(`Model/Convert.lean`, instantiated from the *pinned* tables of `StandardConvs.lean`), compared on: outcome of every
call, held value, units, representation code, count, and the bytes of the attribute component.

Independent oracle (decides whether a disagreement is a violation of the property on the implementation): an
assignment the implementation *accepted* must hold — and hand to the writer — values semantically equal to what
the user passed (numbers equal, text equal, date-times the same instant, items identical), as many as were
passed."""
import datetime as dtm
import math
import struct

from harness.common import cps
from harness import impl
from harness.impl import call, err_name

from dliswriter.logical_record import eflr_types
from dliswriter.logical_record.core.eflr import EFLRItem, AttrSetup
from dliswriter.utils import enums as _enums
from dliswriter.utils.internal.validator_enum import ValidatorEnum
from dliswriter.configuration import global_config

DT_FORMATS = ("%Y/%m/%d %H:%M:%S", "%Y.%m.%d %H:%M:%S")


class Other:
    """stands for `object()`: not a number, str, datetime, item or sequence"""
    def __repr__(self):
        return 'object()'


OTHER = Other()


def f64bits(x):
    return struct.unpack('>Q', struct.pack('>d', x))[0]


def dt_fields(t):
    if t.tzinfo is not None:
        t = t.replace(tzinfo=None) - t.utcoffset()
    return f'{t.year},{t.month},{t.day},{t.hour},{t.minute},{t.second},{t.microsecond}'


def str_parse(s):
    """results of the three Python builtins the converters apply to strings (never dliswriter code)"""
    s = str.__str__(s) if not isinstance(s, ValidatorEnum) else s.value
    try:
        pi = str(int(s))
    except ValueError:
        pi = '~'
    try:
        pf = str(f64bits(float(s)))
    except (ValueError, OverflowError):
        pf = '~'
    pt = '~'
    for fmt in DT_FORMATS:
        try:
            pt = dt_fields(dtm.datetime.strptime(s, fmt))
            break
        except ValueError:
            pass
    return pi, pf, pt


def obj_token(v):
    o = v.origin_reference
    return f'o:{cps(v.parent.set_type)}:{-1 if o is None else o}:{v.copy_number}:{cps(v.name)}'


def req_tokens(v):
    """Python value -> request tokens (strings annotated with the builtins' parse results)"""
    if v is None:
        return ['N']
    if v is OTHER:
        return ['X']
    if type(v) is bool:
        return [f'b:{1 if v else 0}']
    if type(v) is int:
        return [f'i:{v}']
    if type(v) is float:
        return [f'd:{f64bits(v)}']
    if isinstance(v, ValidatorEnum):
        pi, pf, pt = str_parse(v)
        return [f't:{cps(v.value)}:{type(v).__name__}:{pi}:{pf}:{pt}']
    if type(v) is str:
        pi, pf, pt = str_parse(v)
        return [f't:{cps(v)}:~:{pi}:{pf}:{pt}']
    if isinstance(v, dtm.datetime):
        return [f'T:{dt_fields(v)}']
    if isinstance(v, EFLRItem):
        return [obj_token(v)]
    if isinstance(v, (list, tuple)):
        out = ['[']
        for x in v:
            out += req_tokens(x)
        return out + [']']
    raise TypeError(f'value outside the protocol: {type(v)}')


def held_tokens(v):
    """held value -> canonical tokens, as `showPyVal` prints them"""
    if v is None:
        return ['N']
    if v is OTHER:
        return ['X']
    if type(v) is bool:
        return [f'b:{1 if v else 0}']
    if type(v) is int:
        return [f'i:{v}']
    if type(v) is float:
        return [f'd:{f64bits(v)}']
    if isinstance(v, ValidatorEnum):
        return [f't:{cps(v.value)}:{type(v).__name__}']
    if type(v) is str:
        return [f't:{cps(v)}:~']
    if isinstance(v, dtm.datetime):
        return [f'T:{dt_fields(v)}']
    if isinstance(v, EFLRItem):
        return [obj_token(v)]
    if isinstance(v, (list, tuple)):
        out = ['[']
        for x in v:
            out += held_tokens(x)
        return out + [']']
    return [f'?{type(v).__name__}']


def flat(v):
    if isinstance(v, (list, tuple)):
        out = []
        for x in v:
            out += flat(x)
        return out
    return [v]


# ---------------------------------------------------------------------------------------------------------
# generator

SET_CLASSES = [s for s in eflr_types.eflr_sets if s is not eflr_types.FileHeaderSet]


def make_item(set_cls, name='T', parent=None):
    parent = parent or set_cls()
    return set_cls.item_type(name, parent=parent, origin_reference=1)


class Pool:
    """one item of every object type, to be used as reference values"""

    def __init__(self):
        self.items = {}
        for sc in SET_CLASSES:
            self.items[sc.set_type] = make_item(sc, name='R-' + sc.set_type[:6])

    def pick(self, R, prefer=None):
        if prefer and prefer in self.items and R.random() < 0.7:
            return self.items[prefer]
        return self.items[R.choice(sorted(self.items))]


INTS = [0, 1, -1, 2, 5, 127, 128, 255, 256, -129, 32767, 65536, 2**31 - 1, 2**31, -2**31 - 1, 2**32, 2**53, 2**53 + 1,
        2**63, 10**30, -10**30, 2**1024, -(2**1100)]
FLOATS = [0.0, -0.0, 1.0, 2.0, -1.0, 0.5, 2.5, -3.75, 1e-310, 5e-324, 1e300, -1e300, 255.0, 256.0, 4294967296.0,
          float('inf'), float('-inf'), float('nan'), 3.0000000000000004, 9007199254740992.0, 1e22]
STRS = ['', 'A', 'ABC-1_2', 'abc', 'Mixed Case', ' lead', '1', '0', '2', '-7', '+4', ' 3 ', '1_0', '1.5', '.5', '-0.0', '1e3',
        '1.e3', 'nan', 'inf', '1.2.3', '2050/03/02 11:12:13', '2050.03.02 11:12:13', '2050-03-02 11:12:13', '1999/2/3 4:5:6',
        '2021/02/30 00:00:00', '1987/04/19 21:20:15', 'm', 's', 'ft', 'in', 'Tool', 'Well', 'BOREHOLE-DEPTH', 'AFTER', 'ZONED',
        'café', 'ΔT', 'x' * 300]


def members_for(attr):
    """members / values of the enumeration an attribute's converter validates against (read off the pinned schema
    detail through the live class only to find candidates; correctness never depends on it)"""
    out = []
    for name in dir(_enums):
        c = getattr(_enums, name)
        if isinstance(c, type) and issubclass(c, ValidatorEnum) and c is not ValidatorEnum:
            out.append(c)
    return out


ENUM_CLASSES = members_for(None)


def gen_leaf(R, pool, row, conv_hint):
    """a single (non-sequence) value; biased towards what the attribute kind accepts"""
    cls = row[2]
    detail = row[7]
    k = R.random()
    if k < 0.55:
        # in-kind
        if cls in ('EFLRAttribute', 'EFLROrTextAttribute'):
            pref = detail.split('ref=')[1].split(';')[0] if 'ref=' in detail else None
            if cls == 'EFLROrTextAttribute' and R.random() < 0.4:
                return R.choice(STRS)
            return pool.pick(R, pref)
        if cls == 'StatusAttribute':
            return R.choice([0, 1, True, False, 1.0, 0.0, '1', '0', 2, -1, 0.5, 1.5, float('nan'), float('inf'), '2', 'x'])
        if cls == 'DTimeAttribute':
            c = R.random()
            if c < 0.4:
                t = dtm.datetime(R.choice([1900, 1987, 2024, 2155]), R.randrange(1, 13), R.randrange(1, 29), R.randrange(24),
                                 R.randrange(60), R.randrange(60), R.choice([0, 499, 500, 501, 1500, 999499, 999500, 999999]))
                if R.random() < 0.3:
                    t = t.replace(tzinfo=dtm.timezone(dtm.timedelta(minutes=R.choice([-720, -90, 0, 60, 330, 840]))))
                return t
            if c < 0.7:
                return R.choice([s for s in STRS if '/' in s or s.count('.') == 2 or '-' in s])
            return R.choice(INTS[:12] + FLOATS[:10] + ['1.5', '12'])
        if cls in ('NumericAttribute', 'DimensionAttribute'):
            return R.choice(INTS + FLOATS + [True, False])
        if cls in ('TextAttribute',):
            return R.choice(STRS)
        if 'enum=' in detail:
            en = detail.split('enum=')[1].split(';')[0]
            c = getattr(_enums, en)
            ms = list(c)
            r = R.random()
            if r < 0.35:
                return R.choice(ms)
            if r < 0.7:
                return R.choice(ms).value
            if r < 0.85:
                return R.choice(ms).name      # the Python-side member name as a plain string: free text like any other
            return R.choice(STRS)
        return R.choice(STRS + INTS[:10] + FLOATS[:8])
    if k < 0.75:
        return R.choice(STRS)
    if k < 0.85:
        return R.choice(INTS + FLOATS)
    if k < 0.90:
        return R.choice([True, False, None, OTHER])
    if k < 0.95:
        return pool.pick(R)
    c = R.choice(ENUM_CLASSES)
    return R.choice(list(c))


def gen_value(R, pool, row, conv_hint, depth=0):
    mv, md = row[4], row[5]
    r = R.random()
    # single-valued attributes without a type-checking converter keep a sequence as it is: count and values must agree
    want_list = (r < 0.55) if mv else (r < (0.45 if conv_hint in ('ident', 'maybeNumeric') else 0.12))
    if not want_list:
        return gen_leaf(R, pool, row, conv_hint)
    n = R.choice([0, 1, 1, 2, 2, 3, 5])
    nest_p = 0.35 if md else 0.06
    out = []
    for _ in range(n):
        if depth < 2 and R.random() < nest_p:
            out.append(gen_value_list(R, pool, row, conv_hint, depth + 1))
        else:
            out.append(gen_leaf(R, pool, row, conv_hint))
    return tuple(out) if R.random() < 0.4 else out


def gen_value_list(R, pool, row, conv_hint, depth):
    n = R.choice([0, 1, 2, 3])
    out = []
    for _ in range(n):
        if depth < 3 and R.random() < 0.2:
            out.append(gen_value_list(R, pool, row, conv_hint, depth + 1))
        else:
            out.append(gen_leaf(R, pool, row, conv_hint))
    return out


UNITS = [None, 'm', 's', 'ft', 'in', '0.1 in', 'notaunit', '', 'M', 5, 1.5, True, OTHER, 'x' * 300, 'café']


def gen_units(R):
    r = R.random()
    if r < 0.25:
        return R.choice(list(_enums.Unit))
    return R.choice(UNITS)


def gen_call(R, pool, row, conv_hint):
    """-> (python argument for the keyword, parts [(kind, value)]) ; kind in 'V','U','K'"""
    route = R.choice(['plain', 'plain', 'plain', 'dict', 'dict', 'setup', 'setup', 'dict-units', 'badkey'])
    v = gen_value(R, pool, row, conv_hint)
    if route == 'plain':
        if isinstance(v, (dict, AttrSetup)):
            v = None
        return v, [('V', v)]
    if route == 'dict':
        if R.random() < 0.5:
            return {'value': v}, [('V', v)]
        u = gen_units(R)
        if R.random() < 0.5:
            return {'value': v, 'units': u}, [('V', v), ('U', u)]
        return {'units': u, 'value': v}, [('U', u), ('V', v)]
    if route == 'dict-units':
        u = gen_units(R)
        return {'units': u}, [('U', u)]
    if route == 'setup':
        u = gen_units(R) if R.random() < 0.5 else None
        parts = ([('V', v)] if v is not None else []) + ([('U', u)] if u is not None else [])
        return AttrSetup(value=v, units=u), parts
    u = gen_units(R)
    key = R.choice(['valeu', 'unit', 'representation_code', 'Value'])
    if R.random() < 0.5:
        return {'value': v, key: 1}, [('V', v), ('K', None)]
    return {key: 1, 'value': v}, [('K', None), ('V', v)]


# ---------------------------------------------------------------------------------------------------------
# semantic-fidelity oracle (independent of the model)

def _num_equal(a, b):
    if isinstance(a, float) and math.isnan(a):
        return isinstance(b, float) and math.isnan(b)
    if isinstance(b, float) and math.isnan(b):
        return False
    try:
        return a == b
    except Exception:  # noqa
        return False


def sem_equal(given, held, maybe_numeric=False):
    """is the held leaf an acceptable rendering of the given leaf?"""
    if isinstance(given, EFLRItem) or isinstance(held, EFLRItem):
        return given is held
    if isinstance(given, ValidatorEnum):
        given = given.value
    if isinstance(held, ValidatorEnum):
        held = held.value
    if isinstance(given, dtm.datetime):
        return isinstance(held, dtm.datetime) and dt_fields(given) == dt_fields(held)
    if isinstance(given, str):
        if isinstance(held, str):
            return given == held
        if isinstance(held, dtm.datetime):
            _, _, pt = str_parse(given)
            return pt != '~' and pt == dt_fields(held)
        if isinstance(held, (int, float)) and not isinstance(held, bool):
            if not maybe_numeric:
                # a numeric attribute: whatever int() / float() make of the text
                for f in (int, float):
                    try:
                        if _num_equal(f(given), held):
                            return True
                    except (ValueError, OverflowError):
                        pass
                return False
            # an attribute that takes text or numbers (`convert_maybe_numeric`): text is kept as text, except a numeral -
            # integer notation gives that integer, notation with a decimal point that float; words that float() happens
            # to parse ('inf', 'nan', '1e3') are text
            try:
                if type(held) is int and _num_equal(int(given), held):
                    return True
            except (ValueError, OverflowError):
                pass
            try:
                if type(held) is float and '.' in given and _num_equal(float(given), held):
                    return True
            except (ValueError, OverflowError):
                pass
            return False
        return False
    if isinstance(given, (bool, int, float)):
        if isinstance(held, bool) or not isinstance(held, (int, float)):
            return isinstance(held, bool) and given is held
        if isinstance(given, float) and isinstance(held, float):
            return f64bits(given) == f64bits(held) or (math.isnan(given) and math.isnan(held))
        if isinstance(held, float) and isinstance(given, int) and not isinstance(given, bool):
            # an integer stored as a double: the nearest double is the best that code can do
            return held == float(given)
        return _num_equal(given, held)
    if given is None or given is OTHER:
        return given is held
    return False


def fidelity_problem(given, held, multivalued, maybe_numeric=False):
    g = flat(given) if isinstance(given, (list, tuple)) else [given]
    if held is None:
        return None if given is None else f'assigned {given!r}, attribute holds nothing'
    h = flat(held) if isinstance(held, (list, tuple)) else [held]
    if len(g) != len(h):
        return f'assigned {len(g)} value(s) {given!r}, attribute holds {len(h)}: {held!r}'
    for a, b in zip(g, h):
        if not sem_equal(a, b, maybe_numeric):
            return f'assigned {a!r} (in {given!r}), attribute holds {b!r}'
    return None


def ident_bytes(t):
    b = t.encode('ascii')
    return bytes([len(b)]) + b


def synthetic_set(attr_bytes, label):
    """a minimal set record body holding one object with the one attribute component: SET type 'T', template of the
    one label, OBJECT (origin 1, copy 0, name 'X'), then the bytes under test"""
    return b'\xf0' + ident_bytes('T') + b'\x30' + ident_bytes(label) + b'\x70' + b'\x01\x00' + ident_bytes('X') + attr_bytes


def token_matches(given, tok, maybe_numeric=False):
    """does the decoded value token render the given leaf?"""
    try:
        if tok[0] == 'd':
            held = struct.unpack('>d', struct.pack('>Q', int(tok[1:])))[0]
            if isinstance(given, float):
                return f64bits(given) == int(tok[1:]) or (math.isnan(given) and math.isnan(held))
            if maybe_numeric and isinstance(given, str):
                # the numeral's value, written as a double when the values of the attribute share a float code
                try:
                    if float(int(given)) == held:
                        return True
                except (ValueError, OverflowError):
                    pass
                try:
                    return '.' in given and _num_equal(float(given), held)
                except (ValueError, OverflowError):
                    return False
            return sem_equal(given, held, maybe_numeric)
        if tok[0] in 'fs':      # single precision
            held = struct.unpack('>f', struct.pack('>I', int(tok[1:])))[0]
            return isinstance(given, (int, float, bool)) and (held == given or (held != held and given != given)
                                                              or held == struct.unpack('>f', struct.pack('>f', given))[0])
        if tok[0] == 'i':
            return sem_equal(given, int(tok[1:]), maybe_numeric) or (isinstance(given, bool) and int(given) == int(tok[1:]))
        if tok[0] == 't':
            text = bytes.fromhex(tok[1:]).decode('ascii') if tok[1:] != '-' else ''
            if isinstance(given, ValidatorEnum):
                return text == given.value
            if isinstance(given, str):
                return text == given
            return text == str(given)       # numbers / booleans written under a text code
        if tok[0] == 'T':
            y, tz, mo, d, h, mi, sec, ms = (int(x) for x in tok[1:].split('.'))
            g = given
            if isinstance(g, str):
                _, _, pt = str_parse(g)
                if pt == '~':
                    return False
                gy, gmo, gd, gh, gmi, gs, gus = (int(x) for x in pt.split(','))
            elif isinstance(g, dtm.datetime):
                gy, gmo, gd, gh, gmi, gs, gus = (int(x) for x in dt_fields(g).split(','))
            else:
                return False
            q, r = divmod(gus, 1000)
            gms = q if r < 500 else q + 1 if r > 500 else (q if q % 2 == 0 else q + 1)
            return (y + 1900, mo, d, h, mi, sec, ms) == (gy, gmo, gd, gh, gmi, gs, min(gms, 999)) and tz == 2
        if tok[0] in 'or':
            parts = tok[1:].split('.')
            if not isinstance(given, EFLRItem):
                return False
            o, c, n = parts[-3:]
            name = bytes.fromhex(n).decode('ascii') if n != '-' else ''
            ok = (int(o), int(c), name) == (given.origin_reference, given.copy_number, given.name)
            if tok[0] == 'r':
                ok = ok and bytes.fromhex(parts[0]).decode('ascii') == given.parent.set_type
            return ok
    except Exception:  # noqa
        return False
    return False


# ---------------------------------------------------------------------------------------------------------

class HC:
    def __init__(self, on):
        self.on = on

    def __enter__(self):
        self.prev = global_config.high_compat_mode
        global_config.high_compat_mode = self.on

    def __exit__(self, *a):
        global_config.high_compat_mode = self.prev


def describe_arg(a):
    if isinstance(a, AttrSetup):
        return f'AttrSetup(value={a.value!r}, units={a.units!r})'
    return repr(a)


def pinned_convs(model, schema_rows):
    """{(set type, label): pinned converter descriptor} as the Lean tables have it (StandardConvs.lean)"""
    keys = [(st, row[0]) for st in sorted(schema_rows) for row in schema_rows[st]]
    reps = model.ask([f'convof {st} {label}' for st, label in keys])
    return dict(zip(keys, reps))


def hc_oracle(chk, stream, case, conv, given, enums_pinned):
    """high-compatibility mode: what may be accepted by a name-like / enumerated attribute (C17), decided from the
    value alone"""
    leaves = flat(given) if isinstance(given, (list, tuple)) else [given]
    for x in leaves:
        if isinstance(x, ValidatorEnum):
            continue
        if not isinstance(x, str):
            continue
        if conv == 'validateString':
            if not (x and all(('A' <= ch <= 'Z') or ('0' <= ch <= '9') or ch in '_-' for ch in x)):
                chk.fail(f'{stream}:name-accepted-in-mode', case, f'{x!r} accepted in high-compatibility mode; names are '
                                                                  f'restricted to [A-Z0-9_-]+')
        elif conv.startswith('enum:'):
            cls = conv.split(':')[1]
            if x not in enums_pinned.get(cls, []):
                chk.fail(f'{stream}:enum-accepted-in-mode', case, f'{x!r} accepted in high-compatibility mode; it is not one '
                                                                  f'of the {cls} values of the standard')


def run_stream(chk, model, bres, R, n_per_attr, schema_rows, stream='convert', hc_share=0.25, only=None, enums_pinned=None):
    """schema_rows: {set_type: [row...]} (the pinned schema). Returns number of cases."""
    if not bres.ok:
        return 0
    pool = Pool()
    convs = pinned_convs(model, schema_rows)
    by_type = {sc.set_type: sc for sc in SET_CLASSES}
    reqs, cases = [], []
    for st in sorted(schema_rows):
        sc = by_type.get(st)
        if sc is None:
            continue
        for row in schema_rows[st]:
            label, pyname = row[0], row[1]
            if only and not only(st, row, convs.get((st, label), '')):
                continue
            for _ in range(n_per_attr):
                hc = R.random() < hc_share
                ncalls = R.choice([1, 1, 1, 2, 2, 3])
                item = make_item(sc)
                attr = item.attributes[pyname]
                init_v, init_u = attr.value, attr.units
                calls, outs, last_ok_value, descr = [], [], None, []
                with HC(hc):
                    for _c in range(ncalls):
                        arg, parts = gen_call(R, pool, row, convs.get((st, label)))
                        calls.append(parts)
                        descr.append(describe_arg(arg))
                        before = held_tokens(attr.value)
                        vpart = next((v for k, v in parts if k == 'V'), OTHER)
                        try:
                            item.set_attributes(**{pyname: arg})
                            outs.append('ok')
                            if vpart is not OTHER or any(k == 'V' for k, _ in parts):
                                last_ok_value = ('set', vpart)
                                if hc and enums_pinned is not None:
                                    hc_oracle(chk, stream, {'set_type': st, 'attribute': pyname, 'label': label,
                                                            'high_compat': True, 'call': f'item.set_attributes({pyname}={describe_arg(arg)})'},
                                              convs.get((st, label), ''), vpart, enums_pinned)
                            if hc and enums_pinned is not None:
                                for k_, u_ in parts:
                                    if k_ == 'U' and isinstance(u_, str) and not isinstance(u_, ValidatorEnum):
                                        hc_oracle(chk, stream, {'set_type': st, 'attribute': pyname, 'label': label, 'high_compat': True,
                                                                'call': f'item.set_attributes({pyname}={describe_arg(arg)})'},
                                                  'enum:Unit:1:1', u_, enums_pinned)
                        except Exception as exc:  # noqa
                            outs.append(err_name(exc))
                            # the parts before the failing one were applied: the value part was, iff the held value changed
                            if held_tokens(attr.value) != before and any(k == 'V' for k, _ in parts):
                                last_ok_value = ('set', vpart)
                    st_rc, rc = call(lambda: attr.representation_code)
                    rc_s = ('~' if rc is None else str(int(rc.value))) if st_rc == 'ok' else 'err:' + rc
                    cnt = attr.count
                    if attr.value is None:
                        bts = 'absent'
                    else:
                        sb, b = call(attr.get_as_bytes)
                        bts = (b.hex() if b else '-') if sb == 'ok' else 'err:' + b
                u = attr.units
                u_s = '~' if u is None else (cps(u.value if isinstance(u, ValidatorEnum) else u) if isinstance(u, str) else '?' + type(u).__name__)
                impl_line = f"{','.join(outs)} v= {' '.join(held_tokens(attr.value))} u={u_s} rc={rc_s} cnt={'~' if cnt is None else cnt} bytes={bts}"
                toks = req_tokens(init_v) + ['~' if init_u is None else cps(init_u)]
                for ci, parts in enumerate(calls):
                    toks.append('C')
                    for k, v in parts:
                        toks.append(k)
                        if k != 'K':
                            toks += req_tokens(v)
                reqs.append(f"asg {st} {label} {1 if hc else 0} " + ' '.join(toks))
                case = {'set_type': st, 'attribute': pyname, 'label': label, 'high_compat': hc,
                        'calls': [f'item.set_attributes({pyname}={d})' for d in descr]}
                cases.append((case, impl_line, row, last_ok_value, attr, outs, bts))
    replies = model.ask(reqs)
    # reader oracle: the attribute component the implementation produced, inside a minimal set record, read by the
    # strict EFLR reader, against the values the user assigned (no converter model involved)
    rd_idx = [k for k, c in enumerate(cases) if c[6] not in ('absent', '-') and not c[6].startswith('err:')
              and c[3] is not None]
    rd_rep = model.ask([f"peflrv {synthetic_set(bytes.fromhex(cases[k][6]), cases[k][2][0]).hex()}" for k in rd_idx])
    for k, rr in zip(rd_idx, rd_rep):
        case, _, row, last_ok, attr, _, bts = cases[k]
        given = last_ok[1]
        chk.count(f'{stream}:reader-oracle')
        if given is None:
            continue
        if not rr.startswith('ok'):
            chk.fail(f'{stream}:component-undecodable', dict(case, attribute_bytes=bts),
                     f'the attribute component written for {given!r} does not decode under the component grammar')
            continue
        body = rr.split('] ', 1)[1] if '] ' in rr else ''
        comp = body.split('|', 1)[1] if '|' in body else ''
        if comp == '~' or comp.count(':') < 3:
            chk.fail(f'{stream}:component-content', dict(case, attribute_bytes=bts), f'assigned {given!r}, decoded {comp!r}')
            continue
        cnt, rc, units, vals = comp.split(':', 3)
        toks = [] if vals == '-' else vals.split(',')
        g = flat(given) if isinstance(given, (list, tuple)) else [given]
        if any(x is None or x is OTHER for x in g):
            continue
        if int(cnt) != (len(g) if (isinstance(given, (list, tuple)) or row[4]) else 1) or len(toks) != len(g):
            chk.fail(f'{stream}:component-count', dict(case, attribute_bytes=bts),
                     f'assigned {len(g)} value(s) {given!r}; the component announces {cnt} and carries {len(toks)}')
            continue
        mn_ = convs.get((case['set_type'], case['label']), '').startswith('maybeNumeric')
        bad = [(a, t) for a, t in zip(g, toks) if not token_matches(a, t, mn_)]
        if bad:
            chk.fail(f'{stream}:component-value', dict(case, attribute_bytes=bts, representation_code=rc),
                     f'assigned {bad[0][0]!r} (in {given!r}); a reader decodes {bad[0][1]} under code {rc}')
    for (case, impl_line, row, last_ok, attr, outs, _b), req, rep in zip(cases, reqs, replies):
        key = (case['set_type'], case['label'], req)
        chk.case(stream, nontrivial_key=hash(key), sample={'request': req[:300], 'impl': impl_line[:300]})
        chk.count(f"{stream}:{row[2]}:{'/'.join(sorted(set(outs)))}")
        # independent oracle: what an accepted assignment left in the attribute
        if last_ok is not None:
            p = fidelity_problem(last_ok[1], attr.value, row[4], convs.get((case['set_type'], case['label']), '').startswith('maybeNumeric'))
            if p:
                chk.fail(f'{stream}:accepted-value-altered', dict(case, held=repr(attr.value)), p)
        if 'unmodelled' in rep or rep == 'unknown-attribute':
            chk.count(f'{stream}:outside-the-model')
            if rep == 'unknown-attribute':
                chk.disagree(stream, dict(case, request=req), impl_line, rep)
            else:
                # compare what is modelled: everything before bytes= unless the unmodelled part is a call outcome
                a, b = impl_line.split(' bytes=')[0], rep.split(' bytes=')[0]
                if 'unmodelled' not in b and a != b:
                    chk.disagree(stream, dict(case, request=req), impl_line, rep)
            continue
        if impl_line != rep:
            chk.disagree(stream, dict(case, request=req), impl_line, rep)
    return len(reqs)


# ---------------------------------------------------------------------------------------------------------
# numbers that are not builtin int / float (numpy scalars, Fraction, Decimal): outside the converter model (PyVal has
# no such values), so decided by oracles alone

def _numberlike_pool():
    import numpy as np
    from fractions import Fraction
    from decimal import Decimal
    vals = []
    for x in (0.0, 1.0, 2.0, 3.0, 2.5, 0.5, -1.5, 7.25, 100.0, 255.0, 256.0, 0.1, 1e-3, 12345.678, -0.0):
        vals += [np.float32(x), np.float64(x), np.float16(x)]
    for x in (0, 1, 2, 5, 127, 128, 255, 256, 32767, 65535, 65536, -1, -128, -129):
        for t in (np.int8, np.int16, np.int32, np.int64, np.uint8, np.uint16, np.uint32, np.uint64):
            info = np.iinfo(t)
            if info.min <= x <= info.max:
                vals.append(t(x))
    vals += [Fraction(5, 2), Fraction(3, 1), Fraction(7, 4), Fraction(0), Fraction(-9, 2), Fraction(256), Fraction(1, 8),
             Decimal('2.5'), Decimal('3'), Decimal('0'), Decimal('7.25'), Decimal('-4.5'), Decimal('300'), Decimal('0.125')]
    return vals


def _exact(x):
    """the mathematical value of a number-like object (None for NaN / infinities)"""
    from fractions import Fraction
    try:
        if isinstance(x, bool):
            return Fraction(int(x))
        return Fraction(x) if not hasattr(x, 'dtype') else Fraction(x.item())
    except (ValueError, OverflowError, TypeError):
        return None


def numberlike_stream(chk, R, n, schema_rows, stream='number-like'):
    """numpy scalars, Fraction and Decimal values assigned to the numeric attributes of every object type (single values
    and lists, at creation route `set_attributes`): an accepted assignment leaves values that are mathematically equal
    to the given ones (so a fraction is never cut to an integer), and the component written for them decodes to the same
    numbers under its representation code (FSINGL of a value that is not a single is the nearest single)."""
    import numpy as np
    pool = _numberlike_pool()
    by_type = {sc.set_type: sc for sc in SET_CLASSES}
    targets = [(st, row) for st in sorted(schema_rows) for row in schema_rows[st]
               if row[2] in ('NumericAttribute', 'DimensionAttribute', 'StatusAttribute') and st in by_type]
    rd, meta = [], []
    # a user-made attribute without a converter: the representation code is inferred from the values, lists mixing
    # numpy floats of either width with integers that a single cannot hold included
    from dliswriter.logical_record.core.attribute import Attribute as _Attr
    import numpy as np
    big = [16777217, 2147483647, 4294967295, -123456789, 33554433, 5, 0, -1, 255, 65536]
    for i in range(max(n // 6, 20)):
        k = R.choice([2, 3, 4])
        vals = [R.choice([np.float32(0.5), np.float32(3.0), np.float64(2.25), 1.5, R.choice(big), R.choice(big),
                          np.int32(R.choice(big[:2] + big[5:])), np.uint8(7)]) for _ in range(k)]
        a = _Attr('values', multivalued=True)
        s0, e0 = call(setattr, a, 'value', vals)
        case = {'attribute': "Attribute('values', multivalued=True) (no converter)", 'call': f'attr.value = {vals!r}',
                'types': [type(v).__name__ for v in vals]}
        chk.case(stream, nontrivial_key=(stream, 'generic', i), sample={'given': repr(vals)[:80], 'outcome': s0 if s0 == 'ok' else e0})
        chk.count(f'{stream}:generic:{s0 if s0 == "ok" else e0}')
        if s0 != 'ok':
            continue
        sb, b = call(a.get_as_bytes)
        chk.count(f'{stream}:generic-bytes:{sb if sb == "ok" else b}')
        if sb == 'ok' and b:
            rd.append(f"peflrv {synthetic_set(b, 'VALUES').hex()}")
            meta.append((case, vals, b))
    for i in range(n):
        st, row = R.choice(targets)
        pyname, label = row[1], row[0]
        item = make_item(by_type[st])
        attr = item.attributes[pyname]
        k = 1 if not row[4] or R.random() < 0.4 else R.choice([1, 2, 3])
        vals = [R.choice(pool) for _ in range(k)]
        given = vals[0] if (k == 1 and R.random() < 0.7) else vals
        case = {'set_type': st, 'attribute': pyname, 'label': label,
                'call': f'item.set_attributes({pyname}={given!r})', 'types': [type(v).__name__ for v in vals]}
        s, e = call(item.set_attributes, **{pyname: given})
        chk.case(stream, nontrivial_key=(stream, i), sample={'set_type': st, 'attribute': pyname, 'given': repr(given)[:80], 'outcome': s if s == 'ok' else e})
        chk.count(f'{stream}:{row[2]}:{s if s == "ok" else e}')
        if s != 'ok':
            continue
        held = attr.value
        hl = flat(held) if isinstance(held, (list, tuple)) else [held]
        if len(hl) != len(vals):
            chk.fail(f'{stream}:accepted-value-altered', dict(case, held=repr(held)), f'assigned {len(vals)} value(s), attribute holds {held!r}')
            continue
        bad = None
        for g, h in zip(vals, hl):
            eg, eh = _exact(g), _exact(h)
            if row[2] == 'StatusAttribute':
                ok = eh in (0, 1) and eg == eh
            else:
                ok = eg is not None and eg == eh
            if not ok:
                bad = (g, h)
                break
        if bad:
            chk.fail(f'{stream}:accepted-value-altered', dict(case, held=repr(held)),
                     f'assigned {bad[0]!r} ({type(bad[0]).__name__}), attribute holds {bad[1]!r}')
            continue
        sb, b = call(attr.get_as_bytes)
        if sb == 'ok' and b:
            rd.append(f"peflrv {synthetic_set(b, label).hex()}")
            meta.append((case, vals, b))
    return rd, meta


def numberlike_finish(chk, model, rd, meta, stream='number-like'):
    from fractions import Fraction
    for (case, vals, b), rr in zip(meta, model.ask(rd)):
        chk.count(f'{stream}:reader-oracle')
        if not rr.startswith('ok'):
            chk.fail(f'{stream}:component-undecodable', dict(case, attribute_bytes=b.hex()), 'the component does not decode')
            continue
        body = rr.split('] ', 1)[1] if '] ' in rr else ''
        comp = body.split('|', 1)[1] if '|' in body else ''
        if comp == '~' or comp.count(':') < 3:
            chk.fail(f'{stream}:component-content', dict(case, attribute_bytes=b.hex()), f'decoded {comp!r}')
            continue
        cnt, rc, units, vs = comp.split(':', 3)
        toks = [] if vs == '-' else vs.split(',')
        if len(toks) != len(vals):
            chk.fail(f'{stream}:component-count', dict(case, attribute_bytes=b.hex()), f'{len(vals)} value(s) assigned, {len(toks)} decoded')
            continue
        for g, t in zip(vals, toks):
            eg = _exact(g)
            if t[0] == 'd':
                dec = Fraction(struct.unpack('>d', struct.pack('>Q', int(t[1:])))[0])
            elif t[0] in 'fs':
                # single precision: exact for what a single holds; anything else would be ROUNDED, which an attribute whose
                # code is inferred from its values must not do to them (the inferred code has to hold every value)
                dec = Fraction(struct.unpack('>f', struct.pack('>I', int(t[1:])))[0])
                if 'no converter' not in str(case.get('attribute', '')):
                    eg = Fraction(struct.unpack('>f', struct.pack('>f', float(eg)))[0])   # a declared FSINGL: the nearest single
            elif t[0] == 'i':
                dec = Fraction(int(t[1:]))
            else:
                dec = None
            if dec != eg:
                chk.fail(f'{stream}:component-value', dict(case, attribute_bytes=b.hex(), representation_code_read=rc),
                         f'assigned {g!r} ({type(g).__name__}); a reader decodes {t} under code {rc}')
                break


def run_numberlike(chk, model, bres, R, n, schema_rows, stream='number-like'):
    if not bres.ok:
        return
    rd, meta = numberlike_stream(chk, R, n, schema_rows, stream)
    numberlike_finish(chk, model, rd, meta, stream)
