"""EFLR layer: value generation from the live schema, description extraction from live objects, protocol
encoding, and an independent expectation of what a reader must decode."""
import datetime as dtm
import os
import struct
import time

import numpy as np

os.environ['TZ'] = 'UTC'
time.tzset()

from harness.common import cps, hexs
from harness import impl

from dliswriter.logical_record import eflr_types
from dliswriter.logical_record.core.eflr import EFLRItem, EFLRSet
from dliswriter.logical_record.core.attribute import attribute as attr_mod
from dliswriter.logical_record.core.attribute import subtypes as st
from dliswriter.utils.internal.validator_enum import ValidatorEnum
from dliswriter.logical_record.eflr_types.channel import ReprCodeAttribute

UTC = dtm.timezone.utc


class Unmodelled(Exception):
    pass


def f64bits(x):
    return struct.unpack('>Q', struct.pack('>d', float(x)))[0]


def aval_token(v):
    """Python value (after conversion) -> protocol token"""
    if type(v) is bool or isinstance(v, np.bool_):
        return f'b:{1 if v else 0}'
    if isinstance(v, (int, np.integer)):
        return f'i:{int(v)}'
    if isinstance(v, np.float32):
        return f's:{int(np.array([v], dtype=np.float32).view(np.uint32)[0])}'
    if isinstance(v, (float, np.float64)):
        return f'd:{f64bits(v)}'
    if isinstance(v, ValidatorEnum):
        return f't:{cps(str.__str__(v))}'      # str() of a str-enum member is not its value
    if isinstance(v, str):
        return f't:{cps(v)}'
    if isinstance(v, dtm.datetime):
        u = v.astimezone(UTC)
        # cross-check the instant independently (integer arithmetic on the offset)
        off = v.utcoffset() if v.tzinfo is not None else dtm.timedelta(0)
        n = v.replace(tzinfo=None) - off
        assert (n.year, n.month, n.day, n.hour, n.minute, n.second, n.microsecond) == \
            (u.year, u.month, u.day, u.hour, u.minute, u.second, u.microsecond)
        return f'T:{u.year},{u.month},{u.day},{u.hour},{u.minute},{u.second},{u.microsecond}'
    if isinstance(v, EFLRItem):
        o = v.origin_reference
        return f'o:{cps(v.parent.set_type)}:{-1 if o is None else o}:{v.copy_number}:{cps(v.name)}'
    raise Unmodelled(type(v).__name__)


def flatten(v):
    out = []
    for x in v:
        if isinstance(x, (list, tuple)):
            out.extend(flatten(x))
        else:
            out.append(x)
    return out


def attr_desc(a):
    """state of a live Attribute at write time -> ('~') | (rc, units, isList, [tokens])"""
    if a.value is None:
        return None
    rc = a.representation_code
    v = a.value
    is_list = isinstance(v, (list, tuple))
    vals = flatten(v) if is_list else [v]
    return (None if rc is None else int(rc.value), a.units, is_list, [aval_token(x) for x in vals])


def set_desc(eflr_set):
    items = eflr_set.get_all_eflr_items()
    labels = [a.label for a in items[0].attributes.values()] if items else []
    objs = []
    for it in items:
        o = it.origin_reference
        objs.append((-1 if o is None else o, it.copy_number, it.name, [attr_desc(a) for a in it.attributes.values()]))
    return (eflr_set.set_type, eflr_set.set_name, labels, objs)


def desc_req(desc):
    ty, nm, labels, objs = desc
    toks = ['eflr', cps(ty), '~' if nm is None else cps(nm), str(len(labels))] + [cps(l) for l in labels]
    toks.append(str(len(objs)))
    for (o, c, n, attrs) in objs:
        toks += [str(o), str(c), cps(n), str(len(attrs))]
        for a in attrs:
            if a is None:
                toks.append('~')
            else:
                rc, units, is_list, vals = a
                toks += ['A', '~' if rc is None else str(rc), '~' if units is None else cps(units),
                         '1' if is_list else '0', str(len(vals))] + vals
    return ' '.join(toks)


# ------------------------------------------------------------------------------------------------------------
# value generation driven by the live attribute objects

ALPHA = 'ABCDEFGHIJKLMNOPQRSTUVWXYZ0123456789_-'


def rstr(R, n=None, hc=True):
    n = R.choice([1, 2, 5, 9, 17]) if n is None else n
    a = ALPHA if hc else ALPHA + ' abcxyz.,/'
    return ''.join(R.choice(a) for _ in range(n))


def enum_of(a):
    conv = a._converter
    for fn in (conv, getattr(conv, '__wrapped__', None)):
        if fn is None or not getattr(fn, '__closure__', None):
            continue
        for cell in fn.__closure__:
            try:
                c = cell.cell_contents
            except ValueError:
                continue
            if isinstance(c, type) and issubclass(c, ValidatorEnum):
                return c
    return None


def gen_scalar(R, a, pool):
    """one valid scalar value for attribute `a`; `pool` maps item classes to lists of existing items"""
    if isinstance(a, st.EFLROrTextAttribute):
        cands = pool_for(a, pool)
        if cands and R.random() < 0.5:
            return R.choice(cands)
        return rstr(R, hc=False)
    if isinstance(a, st.EFLRAttribute):
        cands = pool_for(a, pool)
        if not cands:
            raise Unmodelled('no candidate item')
        return R.choice(cands)
    if isinstance(a, st.StatusAttribute):
        return R.choice([0, 1, True, False])
    if isinstance(a, st.DTimeAttribute):
        k = R.random()
        if a._allow_float and k < 0.3:
            return R.choice([0.0, 1.5, -2.25, 1e10, float(R.randrange(0, 10**6)) / 8])
        y = R.choice([1900, 1987, 2000, 2024, 2155, R.randrange(1900, 2156)])
        t = dtm.datetime(y, R.randrange(1, 13), R.randrange(1, 29), R.randrange(24), R.randrange(60), R.randrange(60),
                         R.choice([0, 0, 500, 1500, 999500, R.randrange(10**6)]))
        if k < 0.5:
            return t.replace(microsecond=0).strftime(R.choice(["%Y/%m/%d %H:%M:%S", "%Y.%m.%d %H:%M:%S"]))
        if k < 0.75:
            return t.replace(tzinfo=dtm.timezone(dtm.timedelta(minutes=R.choice([0, 60, -330, 345]))))
        return t
    if isinstance(a, st.DimensionAttribute):
        return R.choice([1, 2, 3, 5, 10, 127, 128, 300])
    if isinstance(a, st.NumericAttribute):
        rc = a._representation_code
        if a._int_only or (rc is not None and rc.value in (12, 13, 14, 15, 16, 17, 18)):
            rng = {12: (-128, 127), 13: (-32768, 32767), 14: (-2**31, 2**31 - 1), 15: (0, 255), 16: (0, 65535),
                   17: (0, 2**32 - 1), 18: (0, 2**30 - 1)}.get(rc.value if rc is not None else 14)
            lo, hi = rng
            v = R.choice([lo, hi, 0, 1, R.randrange(lo, hi + 1), R.randrange(max(lo, -200), min(hi, 200) + 1)])
            return R.choice([v, v, float(v)]) if abs(v) < 2**50 else v
        return R.choice([0.0, -0.0, 1.0, 2.5, -3.75, 1e300, float('inf'), 7, -12, 2**40, R.random() * 1000,
                         float(R.randrange(-10**6, 10**6)) / 64])
    if isinstance(a, st.TextAttribute):
        return rstr(R, R.choice([0, 1, 3, 10, 40, 130, 300]), hc=False)
    if isinstance(a, st.IdentAttribute):
        en = enum_of(a)
        if en is not None:
            m = R.choice(list(en))
            return R.choice([m, m.value])
        return rstr(R, R.choice([1, 3, 8, 20, 127, 128, 255]))
    if isinstance(a, ReprCodeAttribute):
        raise Unmodelled('not settable')
    # plain Attribute
    if a.label in ('SOURCE',):
        cands = [x for xs in pool.values() for x in xs]
        if not cands:
            raise Unmodelled('no candidate item')
        return R.choice(cands)
    # coordinates / values: numbers or text (convert_maybe_numeric keeps non-numeric strings)
    return R.choice([1, 2, -7, 1.5, -0.25, 100000, 'abc', 'X-1', R.randrange(-1000, 1000)])


def pool_for(a, pool):
    oc = getattr(a, '_object_class', None)
    if oc is None or oc is EFLRSet:
        return [x for xs in pool.values() for x in xs]
    return list(pool.get(oc.item_type, []))


def gen_value(R, a, pool, mult=None):
    if not a.multivalued:
        return gen_scalar(R, a, pool)
    if mult is None:
        mult = R.choice([0, 1, 1, 2, 2, 3, 5, 127, 128, 200]) if R.random() < 0.3 else R.choice([1, 2, 3])
    if isinstance(a, (st.TextAttribute,)) and mult > 20:
        mult = R.choice([127, 128])
    kind_fixed = None
    if not isinstance(a, (st.EFLRAttribute, st.NumericAttribute, st.TextAttribute, st.IdentAttribute,
                          st.DTimeAttribute, st.StatusAttribute)):
        # plain multivalued Attribute: keep one kind of value so that a common representation code exists
        kind_fixed = R.choice(['int', 'float', 'str'])

    def one():
        if kind_fixed == 'int':
            return R.randrange(-1000, 1000)
        if kind_fixed == 'float':
            return float(R.randrange(-1000, 1000)) / 8
        if kind_fixed == 'str':
            return rstr(R) + 'x'
        return gen_scalar(R, a, pool)
    if a.multidimensional and R.random() < 0.5:
        return nest(R, one)
    vals = [one() for _ in range(mult)]
    return vals


def nest(R, one):
    """a regular nested list of depth 2..4 (shape chosen at random), e.g. 2 samples of 2x3 arrays"""
    shape = R.choice([(2, 1), (1, 2), (2, 2), (3, 2), (2, 2, 2), (2, 3, 2), (1, 2, 3), (2, 1, 2, 2), (2, 2, 1)])

    def build(sh):
        if len(sh) == 1:
            return [one() for _ in range(sh[0])]
        return [build(sh[1:]) for _ in range(sh[0])]
    return build(shape)


def late_header_stream(chk, model, bres, R, n, stream='file-header-late'):
    """FILE-HEADER values assigned to the header object after it was made (the constructor's checks do not apply): the
    fixed-width ASCII fields of 10 and 65 characters hold them exactly, and a value that does not fit is refused when the
    record is made - never written behind a length prefix that announces fewer characters"""
    from dliswriter.logical_record import eflr_types
    from harness.impl import call
    reqs, cases = [], []
    for i in range(n):
        hid = R.choice(['', 'H', 'late id', 'I' * 64, 'J' * 65, 'K' * 66, 'L' * 67, 'M' * 130, rstr(R, R.randrange(0, 70))])
        seqno = R.choice([1, 7, 10 ** 9, 10 ** 10 - 1, 10 ** 10, 10 ** 10 + 3, 10 ** 11, R.randrange(1, 10 ** 10)])
        fs = eflr_types.FileHeaderSet()
        it = eflr_types.FileHeaderItem('PLACEHOLDER', parent=fs, sequence_number=1, identifier='0')
        it.origin_reference = R.choice([1, 2, 128])
        which = R.choice(['id', 'seq', 'both'])
        if which in ('id', 'both'):
            it.header_id = hid
        if which in ('seq', 'both'):
            it.sequence_number = seqno
        st, body = call(fs._make_body_bytes)
        fits = len(it.header_id) <= 65 and len(str(it.sequence_number)) <= 10
        case = {'header_id_assigned_after_construction': it.header_id, 'sequence_number_assigned_after_construction': it.sequence_number}
        chk.case(stream, nontrivial_key=(stream, it.header_id, it.sequence_number), sample=dict(case, outcome=st))
        chk.count(f'{stream}:{"fits" if fits else "too-long"}:{st}')
        if not fits:
            if st == 'ok':
                chk.fail(f'{stream}:over-long-value-written', case,
                         f'a value longer than its fixed-width field was written: {body.hex()[:120]}')
            continue
        if st != 'ok':
            chk.fail(f'{stream}:valid-value-refused', case, f'raises {body}')
            continue
        reqs.append(f'peflr {hexs(body)}')
        cases.append((case, it.header_id, it.sequence_number))
    if bres.ok:
        for (case, hid, seqno), rep in zip(cases, model.ask(reqs)):
            want_seq = hexs(str(seqno).rjust(10).encode())
            want_id = hexs(hid.ljust(65).encode())
            if not rep.startswith('ok ') or f'1:20:-:0a{want_seq}' not in rep or f'1:20:-:41{want_id}' not in rep:
                chk.fail(f'{stream}:content', case, f'the FILE-HEADER record decodes as {rep[:200]}')
