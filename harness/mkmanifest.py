"""Writes MANIFEST.json from the registry below (kept by hand)."""
import json
import os

VERIF = os.path.dirname(os.path.dirname(os.path.abspath(__file__)))

CLAIMED = {
    'C06': dict(
        text='Kernel-checked round-trip and exact-domain theorems for every representation code the writer uses '
             '(Props/C06.lean), about the executable Lean model of write_struct*; the model is tied to the code on '
             'every run by an exhaustive/edge correspondence sweep through the real write_struct and by generated-'
             'table obligations (repcode numbers, struct formats, UVARI offsets, dispatch table).',
        note='Trusted: Lean kernel; axioms propext/Classical.choice/Quot.sound at most; the correspondence harness; '
             'CPython struct/str.encode/datetime.astimezone are modelled, not verified. FSINGL from a Python float is '
             'modelled on bit patterns (f64ToF32: round to nearest even, OverflowError beyond the range; theorems '
             'fsingl_*; NaN payload rule of the conversion instruction taken as given); str() of non-str values is '
             'outside the model.',
        technique='Lean 4 proof (round-trip + domain theorems) + differential correspondence with write_struct',
        design='§5 C06'),
}

CLAIMED.update({
    'C01': dict(
        text='Theorem layout_wellformed/layout_explicit: every output of the model\'s frameFile (SUL + one visible '
             'record per segment) is accepted by the strict physical reader and has the explicit length/parity/'
             'padding facts, for every record list and every valid record length; tied to the code by an exhaustive '
             '(capacity, body length) window through the real make_segments, random record lists through the real '
             'StorageUnitLabel+DLISWriter and whole DLISFile.write() runs compared with the model on the tapped records.',
        note='Trusted: Lean kernel + standard axioms; harness; Parse.lean as the reading of RP66 sections 2.2.2/2.3.6.',
        technique='Lean 4 proof (well-formedness invariant of the segmentation recursion) + differential correspondence',
        design='§5 C01'),
    'C02': dict(
        text='Theorem segmentation_lossless: readFile (strict reader, reassembly strict about predecessor/successor '
             'flags and constancy of flag/type) applied to frameFile\'s output returns exactly the records given, in '
             'order, byte for byte, for all record lists and valid record lengths; flags_bracketed and '
             'frameRecs_append give bracketing and non-interleaving. Tie: same correspondence as C01.',
        note='Trusted: Lean kernel + standard axioms; harness; lr-tap hook reports the records the writer was given.',
        technique='Lean 4 proof (round-trip reassemble . frameFile) + differential correspondence',
        design='§5 C02'),
    'C15': dict(
        text='Theorems framing_total / framing_fails_iff / framing_faithful: framing succeeds for every body-length '
             'list whenever the record length passes the validity check and the label fields fit, and the result is '
             'well-formed and faithful; correspondence covers every capacity 12..40(64) x every length incl. < 12.',
        note='Trusted: Lean kernel + standard axioms; harness. Whole-specification writability (EFLR/IFLR layers) is '
             'covered by the file-level stream.',
        technique='Lean 4 proof (totality of frameFile) + differential correspondence',
        design='§5 C15'),
})

CLAIMED.update({
    'C04': dict(
        text='Theorem parseEflr_setBody: every non-empty set body produced by the model of EFLRSet._make_body_bytes '
             '(set component, template, object components, attribute components with descriptor bits, count, '
             'representation code, units, values) is accepted by the strict RP66 component parser with nothing left '
             'over and decodes to the description it was built from; attr_value_bit / attr_count_matches / '
             'empty_list_encoding state the value-bit and count clauses. Side conditions on the schema (labels '
             'non-empty, distinct, valid IDENT) are discharged for the tables generated from the live package. Tie: '
             'bodies of live sets of all 22 types vs the model on the description read from the same live objects.',
        note='Trusted: Lean kernel + standard axioms; harness; ParseEflr.lean as the reading of RP66 ch. 3. FILE-HEADER '
             '(hand-written components) is covered by an instance theorem + its own correspondence/oracle stream, '
             'not by the general theorem.',
        technique='Lean 4 proof (parser round-trip over the component grammar) + differential correspondence',
        design='§5 C04'),
})

CLAIMED.update({
    'C03': dict(
        text='Theorem frame_data_roundtrip: for every frame, row list (slots = element size + bit patterns), window '
             'and input chunk size >= 1 the model emits exactly one record per row of the window, numbered 1..N in '
             'order, each referencing the frame and decoding under the declared layout to the row\'s bit patterns '
             '(NaN payloads, signed zero, extremes are bit patterns, hence covered); a declared cast between integer types '
             '(Model/Cast.lean): cast_element_roundtrip (for every source integer the element written under the cast type '
             'exists and decodes under its code to castInt, which the type holds), cast_exact_when_held, cast_wraps '
             '(otherwise the sample modulo 2^bits, nothing else), cast_int_to_double_exact; stream integer-casts (numpy vs '
             'castInt/encInt/castIntToF64/castIntToF32; file with cast_dtype = file written from the model\'s values, for '
             'inline, dict, structured and HDF5 sources). Tie: tapped IFLR bodies vs '
             'frameDataBody on bit patterns extracted independently from the arrays (all byte orders / layouts); '
             'oracle decodes the real file with the layout declared by its own CHANNEL objects.',
        note='PARTIAL: numpy element access for any byte order/stride/layout/read-only flag and casts from or to '
             'floating-point types (int to float is modelled) are outside the model; only the correspondence covers them.',
        technique='Lean 4 proof (per-row round-trip + chunking lemma) + differential correspondence',
        design='§5 C03'),
    'C05': dict(
        text='Theorem decode_attr_fidelity: in every set body the model writes, each object is found under its set type '
             'and identity, unset attributes are absent, and each assigned attribute has its count, units, representation '
             'code and values, the values reading back with the strict decoders as the canonical value of the attribute '
             'state (numbers exact, text exact, DTIME = UTC fields + rounded ms, references = identity). Tie: tapped '
             'EFLR bodies vs setBody(description of the live objects) + whole-file oracle comparing the Lean reader\'s '
             'dump with an expectation computed from the API arguments and the pinned schema (attrs_eq, enums_eq). '
             'User input -> attribute state is the converter model (Model/Convert.lean: value/units setters, every '
             'converter, inferred representation code, count): assigned_held_exactly, assigned_held_leafwise, '
             'numeric_value_kept, int_as_double_exact, status_value_kept, dtime_value_kept, writer_gets_held_values; '
             'instantiated from the pinned converter table (convs_eq) and compared with the real set_attributes on '
             'every attribute of every object type (convert stream, with a strict-reader oracle on the component).',
        note='PARTIAL: write-time defaults are oracle-only; int(str)/float(str)/strptime are parameters of the converter '
             'model (trusted builtins; TZ=UTC in the harness); three single-class converters and numpy scalars as '
             'attribute values are outside it.',
        technique='Lean 4 proof (converter model + parser round-trip + typed value decoding) + differential correspondence + spec oracle',
        design='§5 C05'),
    'C08': dict(
        text='Theorems descriptor_layout (code of the (cast) dtype, DIMENSION = per-row shape, ELEMENT-LIMIT bounds it), '
             'record_length (|reference| + |frame number| + sum size x count) and frame_data_roundtrip; dtype table '
             'obligation dtype_table ties the code table to the live package. Oracle: decoded CHANNEL descriptors vs '
             'the data given, and every record decoded under that layout.',
        note='Sticky cast_dtype across writes and inconsistent user dimension/element-limit are covered by C14/C12 streams.',
        technique='Lean 4 proof (descriptor decision + length formula) + differential correspondence',
        design='§5 C08'),
    'C16': dict(
        text='Theorems noformat_roundtrip / noformat_length / noformat_order_preserved: the record body is the reference '
             'plus exactly the payload for every length; order and content survive framing (C02). Tie: tapped type-1 '
             'bodies vs noFormatBody; oracle: Lean decoder on the real file vs the payloads added.',
        note='',
        technique='Lean 4 proof (round-trip) + differential correspondence',
        design='§5 C16'),
})

CLAIMED.update({
    'C07': dict(
        text='Lean state machine of the object model (registries, copy numbers, origin numbering/back-filling). Theorems: '
             'copy_unique_reachable (in every reachable state, same-named objects of one type added through one logical '
             'file have distinct copy numbers, whatever sets of that type they are in), reference_bytes/objref_bytes (a reference is written as, and decodes to, the target\'s '
             'identity), origin_backfilled, logical_files_isolated; write-time checks (Model/Checks.lean: check_objects of '
             'every logical file, then origin / shared-set checks, over the state machine plus reference edges): '
             'accepted_references_resolve (in every reachable state that write accepts, every object held by an attribute - '
             'a frame\'s channels included - was added through its holder\'s logical file, is emitted in a set record of that '
             'logical file and is the only object there with its type, name and copy number), foreign_reference_refused, '
             'own_references_accepted (no false refusals), frame_channels_registered. Tie: histories of add_* calls '
             '(valid/rejected, interleaved over logical files) on the real API vs the state machine; reference histories '
             '(references assigned within and across logical files through the public setters; what write answers vs '
             'acceptWrite, error kind included); oracle: unique identities, origin fields and reference resolution in the '
             'decoded files (history, reference-history and whole-file streams).',
        note='The former known finding (copy numbers per set object, duplicates across differently named sets) is repaired '
             'in /repo (fix eaf1436) and the theorem now holds per logical file. PARTIAL: that a reference target is of the '
             'type its attribute denotes is refused by the converters (C05 / C12 theorem reference_rejects_other_type) and '
             'checked here by an exhaustive stream over the pinned schema; the reference edges of the checks model are '
             'read off the specification, FILE-ID values are a parameter of it.',
        technique='Lean 4 proof (invariant by induction over operation histories) + history correspondence + file oracle',
        design='§5 C07'),
    'C09': dict(
        text='Theorem generator_shape: per logical file the records are header, ORIGIN sets, all other sets (each '
             '(type,name) once, none empty), no-format records, frame data; header_fields (10/65 justified), '
             'defining_origin_first. Tie: history correspondence of the emitted set records + oracle on decoded files '
             '(first record FILE-HEADER with one object and the user\'s fields, then ORIGIN with FILE-ID = header id and '
             'FILE-SET-NUMBER, no duplicate/empty sets, EFLRs before IFLRs).',
        note='Order among the non-origin sets follows class first-touch order in the code; it is not mandated and the '
             'correspondence compares it modulo the position of the ORIGIN class.',
        technique='Lean 4 proof (shape of the generator output over all reachable states) + correspondence + file oracle',
        design='§5 C09'),
    'C18': dict(
        text='Theorems logical_files_isolated (in every reachable writable state each set record of a logical file holds '
             'exactly the objects added through it), shared_set_rejected (a non-empty set reachable from two logical '
             'files makes the state unwritable), frames_independent, reference_closure_isolated (in every reachable state '
             'that write accepts, everything reachable from an object through any chain of references was added through '
             'that object\'s logical file: Model/Checks.lean), foreign_reference_refused. Tie: history correspondence incl. '
             'writability; reference histories (what write answers vs acceptWrite); oracle: per-logical-file inventory of the '
             'decoded file = objects added to it, no reference across logical files in an accepted file.',
        note='Per-frame row isolation is C03 applied per frame; multi-frame/multi-logical-file files are in the C03/C05 '
             'whole-file streams.',
        technique='Lean 4 proof (invariant + decision logic) + history correspondence + file oracle',
        design='§5 C18'),
    'C20': dict(
        text='Theorems rejected_call_is_identity (a rejected add_* call, before or after registration, is the identity on the '
             'whole state of the add_* state machine: objects, origins, copy numbers, header origins, set registries), '
             'history_without_rejected_calls (for EVERY history, unconditionally: the state equals that of the history '
             'without its rejected calls) and later_files_unaffected (hence writability and the set records of every '
             'logical file, order included). Tie: history correspondence with rejected calls of both kinds through every '
             'logical file; oracle: the file of a history equals byte for byte the file of the same history without the '
             'rejected calls, and writability is the same. Streams: rejected calls carrying data, failed writes followed '
             'by a correct one, refused-then-corrected objects.',
        note='PARTIAL: the failed-write half is oracle-only. The two former known findings (set key left behind by a '
             'rejected call) are repaired in /repo (fix 492e4db) and the provisos they forced on the theorem are gone.',
        technique='Lean 4 proof (step identity + induction over whole histories) + history correspondence + differential oracle',
        design='§5 C20'),
})

CLAIMED.update({
    'C10': dict(
        text='Theorems output_chunks_invisible (for every buffer size: file = label ++ visible records, reported total = '
             'size, every on-disk state after a physical write is label + a whole number of visible records), '
             'output_chunk_independent, input_chunks_invisible (every input chunk size >= 1 or None yields the rows '
             'once in order), file_is_frameFile, chunk_accepted_iff. Tie: physical writes (flush-tap, file read back '
             'at every flush) vs runOutput for EVERY output chunk size from the record length to file size+1, every '
             'input chunk size, integral/fractional floats, random prior content.',
        note="PARTIAL: 'wb' replaces / 'ab' appends is OS behaviour, stated in the model (diskAfter) and observed by the "
             "correspondence. output_chunk_size=0/None means the 4 GiB default and is not exercised.",
        technique='Lean 4 proof (buffer invariant by induction over visible records + chunking lemma) + correspondence',
        design='§5 C10'),
    'C11': dict(
        text='Theorems sources_agree (sources agreeing on the datasets the channels map to give the same rows: '
             'permutation, extra datasets, dict vs file), lookup_skip/lookup_swap, window_is_slice (writing with a '
             'window = writing the pre-sliced rows), window_rows_exact, hdf5_path_normalised. Tie: whole files for 4 '
             'source kinds x every window x chunk sizes compared byte for byte with the pre-sliced dict source.',
        note='PARTIAL: numpy/h5py field access, slicing and the structured-array fast path are outside the model.',
        technique='Lean 4 proof (congruence over dataset lookup + window lemma) + exhaustive-window correspondence',
        design='§5 C11'),
})

CLAIMED.update({
    'C13': dict(
        text='Exact-arithmetic Lean model of _compute_spacing_and_direction / _setup_frame_params_from_data. Theorems: '
             'index_min_max (least/greatest value of the rows written), spacing_uniform, '
             'spacing_present_only_if_uniform (SPACING present => all differences equal to it, or within the documented '
             'tolerance of the median written), direction_sense, direction_only_without_spacing, user_values_unchanged, '
             'single_row. Tie: decoded FRAME attributes of real files for all 8 dtypes x value shapes x all short '
             'sequences over a small alphabet vs the model; oracle in exact Fractions.',
        note='PARTIAL: numpy float rounding / NaN ordering outside the model (float data is dyadic). KNOWN FINDING: derived '
             'values persist into the next write of the same specification.',
        technique='Lean 4 proof (decision logic over exact arithmetic) + correspondence + exact-arithmetic oracle',
        design='§5 C13'),
})

CLAIMED.update({
    'C14': dict(
        text='Lean model of the write_struct cache (typed keys, Python key equality incl. NaN / signed zero, zeros '
             'bypassed, arbitrary eviction). Theorem history_independent: after ANY history of earlier encodings and '
             'evictions, encoding a value returns what a fresh process returns (cache coherence invariant + '
             'pyEq_eq: keys deemed equal encode identically). Tie: write_struct histories over colliding keys vs the '
             'stateless Lean encoder; oracle: target specification written after other files / twice / after a '
             'mutation vs a fresh subprocess.',
        note='For the dimension derived at write time (parameter / computation / calibration measurement) the model carries '
             'the derived-or-assigned state between checks and derived_dimension_history_independent proves that no check '
             'depends on earlier ones; likewise for the index attributes a frame derives from the rows of a write '
             '(Model/FrameIdx.lean, derived_index_attributes_history_independent). PARTIAL: other per-object state that '
             'survives a write (data registries, sticky cast dtype) has no theorem; covered by fresh-process / fresh-build oracles on '
             'generated histories. The compatibility flag is C17.',
        technique='Lean 4 proof (cache-coherence invariant over all histories) + correspondence + fresh-process oracle',
        design='§5 C14'),
    'C17': dict(
        text='Theorems hc_restored (after any well-bracketed sequence of context entries/exits - nested, left by '
             'exception, decorator - around arbitrary possibly-failing calls the flag and stack are as before), '
             'hc_on_inside, names_restricted + hcChar_class, enum_restricted, breach_raises_iff, file_set_numbers, '
             'pattern_pinned / enums_eq (generated tables); channels_in_exactly_one_frame (Model/Checks.lean with the mode '
             'flag: a write accepted in the mode has every channel of every logical file listed exactly once by the frames '
             'of that logical file), channel_counts_only_in_mode (outside the mode the checks are exactly those of C07 / '
             'C12); streams file-set-number-sequences and reference-histories in the mode (what write answers vs '
             'acceptWriteHc; model-free: no written file with a channel in no or several frames). Tie: flag traces of random context shapes vs the model; '
             'validate_string vs the class for every code point < 256; 13 aspects x met/breached x inside/outside; '
             'setter_names_restricted / setter_enums_restricted / units_restricted (converter model) with the setters '
             'stream over every name-like, enumerated and units-carrying attribute of every object type.',
        note='PARTIAL: the regex engine is trusted; completeness of the checks on the path to a successful write is tied '
             'by the aspect matrix, not by a pipeline theorem.',
        technique='Lean 4 proof (stack discipline by induction on bracketing + decision logic) + correspondence',
        design='§5 C17'),
})

CLAIMED.update({
    'C12': dict(
        text='Capstone: modelWrite composes the layer models; theorem write_sound (a successful write is read back by the '
             'strict physical reader as exactly the specification\'s records), set_record_decodes / '
             'noformat_record_decodes / C03 (each body decodes to what it was built from), and the rejects_* theorems '
             '(over-long or non-ASCII IDENT/ASCII, integers outside a code\'s range, missing dataset, unequal row '
             'counts are errors), empty_list_faithful, and the setter rejections of the converter model (text_rejects_non_str, '
             'numeric_rejects_non_number, numeric_int_rejects_fraction, status_rejects_other_numbers, '
             'reference_rejects_other_type, rejected_assignment_keeps_state), and the write-time checks of Model/Checks.lean '
             '(rejects_incomplete_logical_file, rejects_shared_set, rejects_foreign_reference; streams shared-sets and '
             'reference-histories: what write answers vs acceptWrite). Tie: the setters stream (every attribute x '
             'every Python value kind, strict-reader oracle on what was accepted) and the malformed stream - valid specifications with one '
             'injected defect from a catalogue of ~30, or a degenerate value - must raise or decode to the expectation.',
        note='PARTIAL: which Python inputs are refused before the model applies (type checks, dtype validation, '
             'completeness) is tied by the malformed stream only.',
        technique='Lean 4 proof (composition of the layer round-trips + rejection lemmas) + malformed-input correspondence',
        design='§5 C12'),
    'C19': dict(
        text='Effect/alias model of the data path: theorems no_caller_write_preserves (an effect list without a write to a '
             'caller buffer leaves every caller buffer unchanged, also when aborted at any point), '
             'pipeline_never_writes_caller (the modelled data path - all source kinds, no-copy path, casts, any number '
             'of channels/rows - contains no such write), caller_data_unaltered. Tie: sha256 of every caller-owned '
             'buffer (base buffers of views, read-only arrays, dict keys/values, HDF5 bytes) before/after real writes, '
             'successful and failing.',
        note='PARTIAL by nature: the effects of numpy/h5py operations are runtime behaviour outside the model; the theorem '
             'is about the effect list, the checksums tie it to the code.',
        technique='Lean 4 proof (effect-system invariant) + before/after checksum correspondence',
        design='§5 C19'),
})

PENDING_REASON = 'check not built yet in this revision (model layer under construction); see DESIGN.md §12 build order'


def main():
    props = [json.loads(l) for l in open(os.path.join(VERIF, 'properties.jsonl'))]
    checks = []
    na = []
    for p in props:
        pid = p['id']
        if pid in CLAIMED:
            c = CLAIMED[pid]
            checks.append({
                'property_id': pid,
                'quick_cmd': f'./check {pid} --tier quick',
                'thorough_cmd': f'./check {pid} --tier thorough',
                'evidence_file': f'evidence/{pid}.json',
                'replay_cmd_template': f'./check {pid} --replay {{path}}',
                'engine': 'lean-model+correspondence',
                'level_claimed': {'category': 'proof', 'text': c['text'], 'design_ref': c['design']},
                'level_note': c['note'],
                'technique': c['technique'],
            })
        else:
            na.append({'property_id': pid, 'reason': PENDING_REASON})
    man = {
        'version': 1,
        'setup_cmd': './check --setup',
        'hooks': {
            'guard': 'WELL_ID_DLISWRITER_VERIF',
            'enable': 'export WELL_ID_DLISWRITER_VERIF=1 before importing dliswriter (./check does it); taps: '
                      'logical_record_bytes._verif_lr_sinks, file.writer._verif_flush_sinks',
            'baseline_off_cmd': 'cd /repo && env -u WELL_ID_DLISWRITER_VERIF /venv/bin/python -m pytest -ra -q '
                                '-p no:cacheprovider --timeout=900 --continue-on-collection-errors',
            'source_commits': ['6fc2b1e', '941bd4c'],
            'add_only': True,
        },
        'engines': [
            {'name': 'lean-model', 'path': 'lean/', 'serves_properties': sorted(CLAIMED),
             'kind_free_text': 'Lean 4 executable model of the writer + strict RP66 reader + kernel-checked theorems '
                               '(Props/), generated tables + obligations (Generated/)'},
            {'name': 'correspondence-harness', 'path': 'harness/', 'serves_properties': sorted(CLAIMED),
             'kind_free_text': 'Python harness driving the real dliswriter in-process and the compiled Lean model on '
                               'the same inputs; oracle = Lean strict decoders on implementation output'},
        ],
        'checks': checks,
        'not_applicable': na,
        'notes': 'All checks decide by Lean 4 theorems about a hand-written model tied to /repo by a correspondence '
                 'check and generated-table obligations; see DESIGN.md.',
    }
    with open(os.path.join(VERIF, 'MANIFEST.json'), 'w') as f:
        json.dump(man, f, indent=1)
    print(f'{len(checks)} checks, {len(na)} not_applicable')


if __name__ == '__main__':
    main()
