import Dlismodel.Model.Prim
