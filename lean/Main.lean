import Dlismodel.Model.Driver
def main (args : List String) : IO Unit := Dlis.driverMain args
