/-
  Proof obligations that tie the generated tables (what /repo's source says now) to the standard's
  tables the model and its theorems use.  Each is closed by kernel evaluation; a source change that
  alters a table makes the corresponding obligation fail at `lake build`.
-/
import Dlismodel.Generated.Tables
import Dlismodel.Generated.Convs
import Dlismodel.Standard
import Dlismodel.StandardConvs
namespace Dlis.Obligations
open Dlis

theorem uvari_offsets : Generated.unormOffset = Standard.unormOffset ∧ Generated.ulongOffset = Standard.ulongOffset := by
  decide
theorem repcodes_eq : Generated.repcodes = Standard.repcodes := by decide
theorem structDict_eq : Generated.structDict = Standard.structDict := by decide
theorem eflrTypes_eq : Generated.eflrTypes = Standard.eflrTypes := by decide
theorem iflrTypes_eq : Generated.iflrTypes = Standard.iflrTypes := by decide
theorem dtypeCodes_eq : Generated.dtypeCodes = Standard.dtypeCodes := by decide
theorem genericTypes_eq : Generated.genericTypes = Standard.genericTypes := by decide
theorem sul_constants : Generated.sulVersion = Standard.cp "V1.00" ∧ Generated.sulStructure = Standard.cp "RECORD"
    ∧ Generated.sulMaxRecordLength = 16384 := by decide
theorem segWeights_eq : Generated.segWeights = Standard.segWeights := by decide
theorem hcPattern_eq : Generated.hcPattern = Standard.hcPattern := by decide
theorem checkOrder_eq : Generated.checkOrder = Standard.checkOrder := by decide
theorem writeSteps_eq : Generated.writeSteps = Standard.writeSteps := by decide
theorem sets_eq : Generated.sets = Standard.sets := by decide +kernel

/-- schema side-conditions used by the EFLR theorems: every set type and label is a non-empty ASCII IDENT
of at most 255 characters and the labels of a template are pairwise distinct -/
def identOk (s : List Nat) : Bool := !s.isEmpty && s.length ≤ 255 && s.all (· < 128)
def schemaOk (sets : List (List Nat × Nat × Bool × List (List Nat))) : Bool :=
  sets.all fun (st, _, e, labels) => identOk st && e && labels.all identOk && labels.Nodup

theorem schema_ok : schemaOk Generated.sets = true := by decide +kernel

end Dlis.Obligations

namespace Dlis.Obligations
open Dlis
/-- the attribute schema of every object type (label, keyword, kind, representation code, multiplicity flags,
units, enumeration / referenced type) is the pinned one -/
theorem attrs_eq : Generated.attrs = Standard.attrs := by rfl
/-- the enumerations high-compatibility mode enforces are the pinned ones -/
theorem enums_eq : Generated.enums = Standard.enums := by rfl
/-- every attribute of every object type carries the pinned converter and the pinned set of valid representation
codes (the converter model `Model/Convert.lean` is instantiated from the pinned table) -/
theorem convs_eq : Generated.convs = Standard.convs := by rfl
/-- the classes of representation codes the numeric converters and the code inference consult, and the two date-time
string formats, are the ones the converter model uses -/
theorem codeClasses_eq : Generated.codeClasses =
    [[1, 2, 3, 4, 5, 6, 7, 8, 9, 10, 11], [12, 13, 14], [15, 16, 17, 18], intCodes, numericCodes] := by decide
theorem dtimeFormats_eq : Generated.dtimeFormats = ["%Y/%m/%d %H:%M:%S", "%Y.%m.%d %H:%M:%S"] := by decide
end Dlis.Obligations
