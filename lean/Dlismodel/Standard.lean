/-
  The standard's tables (RP66 V1), written by hand once and never regenerated: representation codes and
  their fixed-width formats (App. B), EFLR/IFLR type numbers (App. A), set types and the attribute labels
  of each object type in template order (Ch. 5/6), SUL constants (§2.3.2).
  `Generated/Obligations.lean` proves that what the live package contains equals these.
-/
namespace Dlis.Standard

def cp (s : String) : List Nat := s.toList.map Char.toNat

def unormOffset : Nat := 32768        -- 0b10 << 14
def ulongOffset : Nat := 3221225472   -- 0b11 << 30
def repcodes : List (String × Nat × String) := [
  ("FSHORT", 1, ">h"),
  ("FSINGL", 2, ">f"),
  ("FSING1", 3, ">ff"),
  ("FSING2", 4, ">fff"),
  ("ISINGL", 5, ">i"),
  ("VSINGL", 6, ">i"),
  ("FDOUBL", 7, ">d"),
  ("FDOUB1", 8, ">dd"),
  ("FDOUB2", 9, ">ddd"),
  ("CSINGL", 10, ">ff"),
  ("CDOUBL", 11, ">dd"),
  ("SSHORT", 12, ">b"),
  ("SNORM", 13, ">h"),
  ("SLONG", 14, ">i"),
  ("USHORT", 15, ">B"),
  ("UNORM", 16, ">H"),
  ("ULONG", 17, ">I"),
  ("UVARI", 18, ""),
  ("IDENT", 19, ""),
  ("ASCII", 20, ""),
  ("DTIME", 21, ">BBBBBBH"),
  ("ORIGIN", 22, ""),
  ("OBNAME", 23, ""),
  ("OBJREF", 24, ""),
  ("ATTREF", 25, ""),
  ("STATUS", 26, ">B")
]
def structDict : List (Nat × String) := [(18, "write_struct_uvari"), (19, "write_struct_ident"), (20, "write_struct_ascii"), (21, "write_struct_dtime"), (23, "write_struct_obname"), (24, "write_struct_objref"), (26, "write_struct_status")]
def eflrTypes : List (String × Nat) := [("FHLR", 0), ("OLR", 1), ("AXIS", 2), ("CHANNL", 3), ("FRAME", 4), ("STATIC", 5), ("SCRIPT", 6), ("UPDATE", 7), ("UDI", 8), ("LNAME", 9), ("SPEC", 10), ("DICT", 11)]
def iflrTypes : List (String × Nat × Bool) := [("FrameData", 0, false), ("NoFormatFrameData", 1, false)]
def dtypeCodes : List (String × Nat) := [("int8", 12), ("int16", 13), ("int32", 14), ("uint8", 15), ("uint16", 16), ("uint32", 17), ("float32", 2), ("float64", 7)]
def genericTypes : List (String × Nat) := [("datetime", 21), ("float", 7), ("int", 14), ("str", 20)]
def segWeights : List Nat := [128, 64, 32, 16, 8, 4, 2, 1]
def hcPattern : String := "[A-Z0-9_-]+"
/-- (set type, logical record type, explicit flag, template labels) -/
def sets : List (List Nat × Nat × Bool × List (List Nat)) := [
  (cp "AXIS", 2, true, [cp "AXIS-ID", cp "COORDINATES", cp "SPACING"]),
  (cp "CALIBRATION", 5, true, [cp "CALIBRATED-CHANNELS", cp "UNCALIBRATED-CHANNELS", cp "COEFFICIENTS", cp "MEASUREMENTS", cp "PARAMETERS", cp "METHOD"]),
  (cp "CALIBRATION-MEASUREMENT", 5, true, [cp "PHASE", cp "MEASUREMENT-SOURCE", cp "TYPE", cp "DIMENSION", cp "AXIS", cp "MEASUREMENT", cp "SAMPLE-COUNT", cp "MAXIMUM-DEVIATION", cp "STANDARD-DEVIATION", cp "BEGIN-TIME", cp "DURATION", cp "REFERENCE", cp "STANDARD", cp "PLUS-TOLERANCE", cp "MINUS-TOLERANCE"]),
  (cp "CALIBRATION-COEFFICIENT", 5, true, [cp "LABEL", cp "COEFFICIENTS", cp "REFERENCES", cp "PLUS-TOLERANCES", cp "MINUS-TOLERANCES"]),
  (cp "CHANNEL", 3, true, [cp "LONG-NAME", cp "PROPERTIES", cp "REPRESENTATION-CODE", cp "UNITS", cp "DIMENSION", cp "AXIS", cp "ELEMENT-LIMIT", cp "SOURCE", cp "MINIMUM-VALUE", cp "MAXIMUM-VALUE"]),
  (cp "COMPUTATION", 5, true, [cp "LONG-NAME", cp "PROPERTIES", cp "DIMENSION", cp "AXIS", cp "ZONES", cp "VALUES", cp "SOURCE"]),
  (cp "EQUIPMENT", 5, true, [cp "TRADEMARK-NAME", cp "STATUS", cp "TYPE", cp "SERIAL-NUMBER", cp "LOCATION", cp "HEIGHT", cp "LENGTH", cp "MINIMUM-DIAMETER", cp "MAXIMUM-DIAMETER", cp "VOLUME", cp "WEIGHT", cp "HOLE-SIZE", cp "PRESSURE", cp "TEMPERATURE", cp "VERTICAL-DEPTH", cp "RADIAL-DRIFT", cp "ANGULAR-DRIFT"]),
  (cp "FRAME", 4, true, [cp "DESCRIPTION", cp "CHANNELS", cp "INDEX-TYPE", cp "DIRECTION", cp "SPACING", cp "ENCRYPTED", cp "INDEX-MIN", cp "INDEX-MAX"]),
  (cp "GROUP", 5, true, [cp "DESCRIPTION", cp "OBJECT-TYPE", cp "OBJECT-LIST", cp "GROUP-LIST"]),
  (cp "LONG-NAME", 9, true, [cp "GENERAL-MODIFIER", cp "QUANTITY", cp "QUANTITY-MODIFIER", cp "ALTERED-FORM", cp "ENTITY", cp "ENTITY-MODIFIER", cp "ENTITY-NUMBER", cp "ENTITY-PART", cp "ENTITY-PART-NUMBER", cp "GENERIC-SOURCE", cp "SOURCE-PART", cp "SOURCE-PART-NUMBER", cp "CONDITIONS", cp "STANDARD-SYMBOL", cp "PRIVATE-SYMBOL"]),
  (cp "MESSAGE", 6, true, [cp "TYPE", cp "TIME", cp "BOREHOLE-DRIFT", cp "VERTICAL-DEPTH", cp "RADIAL-DRIFT", cp "ANGULAR-DRIFT", cp "TEXT"]),
  (cp "COMMENT", 6, true, [cp "TEXT"]),
  (cp "NO-FORMAT", 8, true, [cp "CONSUMER-NAME", cp "DESCRIPTION"]),
  (cp "ORIGIN", 1, true, [cp "FILE-ID", cp "FILE-SET-NAME", cp "FILE-SET-NUMBER", cp "FILE-NUMBER", cp "FILE-TYPE", cp "PRODUCT", cp "VERSION", cp "PROGRAMS", cp "CREATION-TIME", cp "ORDER-NUMBER", cp "DESCENT-NUMBER", cp "RUN-NUMBER", cp "WELL-ID", cp "WELL-NAME", cp "FIELD-NAME", cp "PRODUCER-CODE", cp "PRODUCER-NAME", cp "COMPANY", cp "NAME-SPACE-NAME", cp "NAME-SPACE-VERSION"]),
  (cp "PARAMETER", 5, true, [cp "LONG-NAME", cp "DIMENSION", cp "AXIS", cp "ZONES", cp "VALUES"]),
  (cp "PATH", 4, true, [cp "FRAME-TYPE", cp "WELL-REFERENCE-POINT", cp "VALUE", cp "BOREHOLE-DEPTH", cp "VERTICAL-DEPTH", cp "RADIAL-DRIFT", cp "ANGULAR-DRIFT", cp "TIME", cp "DEPTH-OFFSET", cp "MEASURE-POINT-OFFSET", cp "TOOL-ZERO-OFFSET"]),
  (cp "PROCESS", 5, true, [cp "DESCRIPTION", cp "TRADEMARK-NAME", cp "VERSION", cp "PROPERTIES", cp "STATUS", cp "INPUT-CHANNELS", cp "OUTPUT-CHANNELS", cp "INPUT-COMPUTATIONS", cp "OUTPUT-COMPUTATIONS", cp "PARAMETERS", cp "COMMENTS"]),
  (cp "SPLICE", 5, true, [cp "OUTPUT-CHANNEL", cp "INPUT-CHANNELS", cp "ZONES"]),
  (cp "TOOL", 5, true, [cp "DESCRIPTION", cp "TRADEMARK-NAME", cp "GENERIC-NAME", cp "PARTS", cp "STATUS", cp "CHANNELS", cp "PARAMETERS"]),
  (cp "WELL-REFERENCE", 1, true, [cp "PERMANENT-DATUM", cp "VERTICAL-ZERO", cp "PERMANENT-DATUM-ELEVATION", cp "ABOVE-PERMANENT-DATUM", cp "MAGNETIC-DECLINATION", cp "COORDINATE-1-NAME", cp "COORDINATE-1-VALUE", cp "COORDINATE-2-NAME", cp "COORDINATE-2-VALUE", cp "COORDINATE-3-NAME", cp "COORDINATE-3-VALUE"]),
  (cp "ZONE", 5, true, [cp "DESCRIPTION", cp "DOMAIN", cp "MAXIMUM", cp "MINIMUM"]),
  (cp "FILE-HEADER", 0, true, [cp "SEQUENCE-NUMBER", cp "ID"])
]
end Dlis.Standard
