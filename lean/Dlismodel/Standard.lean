/-
  The standard's tables (RP66 V1), written by hand once and never regenerated: representation codes and
  their fixed-width formats (App. B), EFLR/IFLR type numbers (App. A), set types and the attribute labels
  of each object type in template order (Ch. 5/6), SUL constants (§2.3.2).
  `Generated/Obligations.lean` proves that what the live package contains equals these.
-/
namespace Dlis.Standard

def cp (s : String) : List Nat := s.toList.map Char.toNat

def unormOffset : Nat := 32768        -- 0b10 << 14
def ulongOffset : Nat := 3221225472   -- 0b11 << 30
def repcodes : List (String × Nat × String) := [
  ("FSHORT", 1, ">h"),
  ("FSINGL", 2, ">f"),
  ("FSING1", 3, ">ff"),
  ("FSING2", 4, ">fff"),
  ("ISINGL", 5, ">i"),
  ("VSINGL", 6, ">i"),
  ("FDOUBL", 7, ">d"),
  ("FDOUB1", 8, ">dd"),
  ("FDOUB2", 9, ">ddd"),
  ("CSINGL", 10, ">ff"),
  ("CDOUBL", 11, ">dd"),
  ("SSHORT", 12, ">b"),
  ("SNORM", 13, ">h"),
  ("SLONG", 14, ">i"),
  ("USHORT", 15, ">B"),
  ("UNORM", 16, ">H"),
  ("ULONG", 17, ">I"),
  ("UVARI", 18, ""),
  ("IDENT", 19, ""),
  ("ASCII", 20, ""),
  ("DTIME", 21, ">BBBBBBH"),
  ("ORIGIN", 22, ""),
  ("OBNAME", 23, ""),
  ("OBJREF", 24, ""),
  ("ATTREF", 25, ""),
  ("STATUS", 26, ">B")
]
def structDict : List (Nat × String) := [(18, "write_struct_uvari"), (19, "write_struct_ident"), (20, "write_struct_ascii"), (21, "write_struct_dtime"), (23, "write_struct_obname"), (24, "write_struct_objref"), (26, "write_struct_status")]
def eflrTypes : List (String × Nat) := [("FHLR", 0), ("OLR", 1), ("AXIS", 2), ("CHANNL", 3), ("FRAME", 4), ("STATIC", 5), ("SCRIPT", 6), ("UPDATE", 7), ("UDI", 8), ("LNAME", 9), ("SPEC", 10), ("DICT", 11)]
def iflrTypes : List (String × Nat × Bool) := [("FrameData", 0, false), ("NoFormatFrameData", 1, false)]
def dtypeCodes : List (String × Nat) := [("int8", 12), ("int16", 13), ("int32", 14), ("uint8", 15), ("uint16", 16), ("uint32", 17), ("float32", 2), ("float64", 7)]
def genericTypes : List (String × Nat) := [("datetime", 21), ("float", 7), ("int", 14), ("str", 20)]
def segWeights : List Nat := [128, 64, 32, 16, 8, 4, 2, 1]
def hcPattern : String := "[A-Z0-9_-]+"
/-- the checks of `LogicalFile.check_objects`, in the order they are made, and the steps of a write -/
def checkOrder : List String := ["_check_completeness", "_check_channels_assigned_to_frames", "_check_defining_origin_params", "_check_references"]
def writeSteps : List String := ["check_objects", "generate_logical_records", "DLISWriter", "write_storage_unit_label", "write_logical_records"]
/-- (set type, logical record type, explicit flag, template labels) -/
def sets : List (List Nat × Nat × Bool × List (List Nat)) := [
  (cp "AXIS", 2, true, [cp "AXIS-ID", cp "COORDINATES", cp "SPACING"]),
  (cp "CALIBRATION", 5, true, [cp "CALIBRATED-CHANNELS", cp "UNCALIBRATED-CHANNELS", cp "COEFFICIENTS", cp "MEASUREMENTS", cp "PARAMETERS", cp "METHOD"]),
  (cp "CALIBRATION-MEASUREMENT", 5, true, [cp "PHASE", cp "MEASUREMENT-SOURCE", cp "TYPE", cp "DIMENSION", cp "AXIS", cp "MEASUREMENT", cp "SAMPLE-COUNT", cp "MAXIMUM-DEVIATION", cp "STANDARD-DEVIATION", cp "BEGIN-TIME", cp "DURATION", cp "REFERENCE", cp "STANDARD", cp "PLUS-TOLERANCE", cp "MINUS-TOLERANCE"]),
  (cp "CALIBRATION-COEFFICIENT", 5, true, [cp "LABEL", cp "COEFFICIENTS", cp "REFERENCES", cp "PLUS-TOLERANCES", cp "MINUS-TOLERANCES"]),
  (cp "CHANNEL", 3, true, [cp "LONG-NAME", cp "PROPERTIES", cp "REPRESENTATION-CODE", cp "UNITS", cp "DIMENSION", cp "AXIS", cp "ELEMENT-LIMIT", cp "SOURCE", cp "MINIMUM-VALUE", cp "MAXIMUM-VALUE"]),
  (cp "COMPUTATION", 5, true, [cp "LONG-NAME", cp "PROPERTIES", cp "DIMENSION", cp "AXIS", cp "ZONES", cp "VALUES", cp "SOURCE"]),
  (cp "EQUIPMENT", 5, true, [cp "TRADEMARK-NAME", cp "STATUS", cp "TYPE", cp "SERIAL-NUMBER", cp "LOCATION", cp "HEIGHT", cp "LENGTH", cp "MINIMUM-DIAMETER", cp "MAXIMUM-DIAMETER", cp "VOLUME", cp "WEIGHT", cp "HOLE-SIZE", cp "PRESSURE", cp "TEMPERATURE", cp "VERTICAL-DEPTH", cp "RADIAL-DRIFT", cp "ANGULAR-DRIFT"]),
  (cp "FRAME", 4, true, [cp "DESCRIPTION", cp "CHANNELS", cp "INDEX-TYPE", cp "DIRECTION", cp "SPACING", cp "ENCRYPTED", cp "INDEX-MIN", cp "INDEX-MAX"]),
  (cp "GROUP", 5, true, [cp "DESCRIPTION", cp "OBJECT-TYPE", cp "OBJECT-LIST", cp "GROUP-LIST"]),
  (cp "LONG-NAME", 9, true, [cp "GENERAL-MODIFIER", cp "QUANTITY", cp "QUANTITY-MODIFIER", cp "ALTERED-FORM", cp "ENTITY", cp "ENTITY-MODIFIER", cp "ENTITY-NUMBER", cp "ENTITY-PART", cp "ENTITY-PART-NUMBER", cp "GENERIC-SOURCE", cp "SOURCE-PART", cp "SOURCE-PART-NUMBER", cp "CONDITIONS", cp "STANDARD-SYMBOL", cp "PRIVATE-SYMBOL"]),
  (cp "MESSAGE", 6, true, [cp "TYPE", cp "TIME", cp "BOREHOLE-DRIFT", cp "VERTICAL-DEPTH", cp "RADIAL-DRIFT", cp "ANGULAR-DRIFT", cp "TEXT"]),
  (cp "COMMENT", 6, true, [cp "TEXT"]),
  (cp "NO-FORMAT", 8, true, [cp "CONSUMER-NAME", cp "DESCRIPTION"]),
  (cp "ORIGIN", 1, true, [cp "FILE-ID", cp "FILE-SET-NAME", cp "FILE-SET-NUMBER", cp "FILE-NUMBER", cp "FILE-TYPE", cp "PRODUCT", cp "VERSION", cp "PROGRAMS", cp "CREATION-TIME", cp "ORDER-NUMBER", cp "DESCENT-NUMBER", cp "RUN-NUMBER", cp "WELL-ID", cp "WELL-NAME", cp "FIELD-NAME", cp "PRODUCER-CODE", cp "PRODUCER-NAME", cp "COMPANY", cp "NAME-SPACE-NAME", cp "NAME-SPACE-VERSION"]),
  (cp "PARAMETER", 5, true, [cp "LONG-NAME", cp "DIMENSION", cp "AXIS", cp "ZONES", cp "VALUES"]),
  (cp "PATH", 4, true, [cp "FRAME-TYPE", cp "WELL-REFERENCE-POINT", cp "VALUE", cp "BOREHOLE-DEPTH", cp "VERTICAL-DEPTH", cp "RADIAL-DRIFT", cp "ANGULAR-DRIFT", cp "TIME", cp "DEPTH-OFFSET", cp "MEASURE-POINT-OFFSET", cp "TOOL-ZERO-OFFSET"]),
  (cp "PROCESS", 5, true, [cp "DESCRIPTION", cp "TRADEMARK-NAME", cp "VERSION", cp "PROPERTIES", cp "STATUS", cp "INPUT-CHANNELS", cp "OUTPUT-CHANNELS", cp "INPUT-COMPUTATIONS", cp "OUTPUT-COMPUTATIONS", cp "PARAMETERS", cp "COMMENTS"]),
  (cp "SPLICE", 5, true, [cp "OUTPUT-CHANNEL", cp "INPUT-CHANNELS", cp "ZONES"]),
  (cp "TOOL", 5, true, [cp "DESCRIPTION", cp "TRADEMARK-NAME", cp "GENERIC-NAME", cp "PARTS", cp "STATUS", cp "CHANNELS", cp "PARAMETERS"]),
  (cp "WELL-REFERENCE", 1, true, [cp "PERMANENT-DATUM", cp "VERTICAL-ZERO", cp "PERMANENT-DATUM-ELEVATION", cp "ABOVE-PERMANENT-DATUM", cp "MAGNETIC-DECLINATION", cp "COORDINATE-1-NAME", cp "COORDINATE-1-VALUE", cp "COORDINATE-2-NAME", cp "COORDINATE-2-VALUE", cp "COORDINATE-3-NAME", cp "COORDINATE-3-VALUE"]),
  (cp "ZONE", 5, true, [cp "DESCRIPTION", cp "DOMAIN", cp "MAXIMUM", cp "MINIMUM"]),
  (cp "FILE-HEADER", 0, true, [cp "SEQUENCE-NUMBER", cp "ID"])
]
end Dlis.Standard

namespace Dlis.Standard

/-- per set type: (label, python keyword, attribute kind, fixed representation code or 0 = inferred from the value,
    multivalued, multidimensional, units settable, detail) — RP66 V1 ch. 5/6 attribute tables as the writer realises them -/
def attrs : List (String × List (String × String × String × Nat × Bool × Bool × Bool × String)) := [
  ("AXIS", [
    ("AXIS-ID", "axis_id", "IdentAttribute", 19, false, false, false, ""),
    ("COORDINATES", "coordinates", "Attribute", 0, true, false, true, ""),
    ("SPACING", "spacing", "NumericAttribute", 0, false, false, true, "")]),
  ("CALIBRATION", [
    ("CALIBRATED-CHANNELS", "calibrated_channels", "EFLRAttribute", 23, true, false, false, "ref=CHANNEL"),
    ("UNCALIBRATED-CHANNELS", "uncalibrated_channels", "EFLRAttribute", 23, true, false, false, "ref=CHANNEL"),
    ("COEFFICIENTS", "coefficients", "EFLRAttribute", 23, true, false, false, "ref=CALIBRATION-COEFFICIENT"),
    ("MEASUREMENTS", "measurements", "EFLRAttribute", 23, true, false, false, "ref=CALIBRATION-MEASUREMENT"),
    ("PARAMETERS", "parameters", "EFLRAttribute", 23, true, false, false, "ref=PARAMETER"),
    ("METHOD", "method", "IdentAttribute", 19, false, false, false, "")]),
  ("CALIBRATION-MEASUREMENT", [
    ("PHASE", "phase", "IdentAttribute", 19, false, false, false, "enum=CalibrationMeasurementPhase"),
    ("MEASUREMENT-SOURCE", "measurement_source", "EFLRAttribute", 24, false, false, false, "ref=*"),
    ("TYPE", "type", "IdentAttribute", 19, false, false, false, ""),
    ("DIMENSION", "dimension", "DimensionAttribute", 18, true, false, false, "int_only"),
    ("AXIS", "axis", "EFLRAttribute", 23, true, false, false, "ref=AXIS"),
    ("MEASUREMENT", "measurement", "NumericAttribute", 0, true, true, true, ""),
    ("SAMPLE-COUNT", "sample_count", "NumericAttribute", 0, false, false, true, "int_only"),
    ("MAXIMUM-DEVIATION", "maximum_deviation", "NumericAttribute", 0, true, true, true, ""),
    ("STANDARD-DEVIATION", "standard_deviation", "NumericAttribute", 0, true, true, true, ""),
    ("BEGIN-TIME", "begin_time", "DTimeAttribute", 0, false, false, true, "allow_float"),
    ("DURATION", "duration", "NumericAttribute", 0, false, false, true, ""),
    ("REFERENCE", "reference", "NumericAttribute", 0, true, true, true, ""),
    ("STANDARD", "standard", "NumericAttribute", 0, true, true, true, ""),
    ("PLUS-TOLERANCE", "plus_tolerance", "NumericAttribute", 0, true, true, true, ""),
    ("MINUS-TOLERANCE", "minus_tolerance", "NumericAttribute", 0, true, true, true, "")]),
  ("CALIBRATION-COEFFICIENT", [
    ("LABEL", "label", "IdentAttribute", 19, false, false, false, ""),
    ("COEFFICIENTS", "coefficients", "NumericAttribute", 0, true, false, true, ""),
    ("REFERENCES", "references", "NumericAttribute", 0, true, false, true, ""),
    ("PLUS-TOLERANCES", "plus_tolerances", "NumericAttribute", 0, true, false, true, ""),
    ("MINUS-TOLERANCES", "minus_tolerances", "NumericAttribute", 0, true, false, true, "")]),
  ("CHANNEL", [
    ("LONG-NAME", "long_name", "EFLROrTextAttribute", 0, false, false, false, "ref=LONG-NAME"),
    ("PROPERTIES", "properties", "PropertiesAttribute", 19, true, false, false, "enum=Property"),
    ("REPRESENTATION-CODE", "representation_code", "ReprCodeAttribute", 15, false, false, true, ""),
    ("UNITS", "units", "IdentAttribute", 19, false, false, false, "enum=Unit"),
    ("DIMENSION", "dimension", "DimensionAttribute", 18, true, false, false, "int_only"),
    ("AXIS", "axis", "EFLRAttribute", 23, true, false, false, "ref=AXIS"),
    ("ELEMENT-LIMIT", "element_limit", "DimensionAttribute", 18, true, false, false, "int_only"),
    ("SOURCE", "source", "Attribute", 24, false, false, true, ""),
    ("MINIMUM-VALUE", "minimum_value", "NumericAttribute", 7, true, false, true, ""),
    ("MAXIMUM-VALUE", "maximum_value", "NumericAttribute", 7, true, false, true, "")]),
  ("COMPUTATION", [
    ("LONG-NAME", "long_name", "EFLROrTextAttribute", 0, false, false, false, "ref=LONG-NAME"),
    ("PROPERTIES", "properties", "PropertiesAttribute", 19, true, false, false, "enum=Property"),
    ("DIMENSION", "dimension", "DimensionAttribute", 18, true, false, false, "int_only"),
    ("AXIS", "axis", "EFLRAttribute", 23, true, false, false, "ref=AXIS"),
    ("ZONES", "zones", "EFLRAttribute", 23, true, false, false, "ref=ZONE"),
    ("VALUES", "values", "NumericAttribute", 0, true, true, true, ""),
    ("SOURCE", "source", "EFLRAttribute", 23, false, false, false, "")]),
  ("EQUIPMENT", [
    ("TRADEMARK-NAME", "trademark_name", "TextAttribute", 20, false, false, false, ""),
    ("STATUS", "status", "StatusAttribute", 26, false, false, false, ""),
    ("TYPE", "_type", "IdentAttribute", 19, false, false, false, "enum=EquipmentType"),
    ("SERIAL-NUMBER", "serial_number", "IdentAttribute", 19, false, false, false, ""),
    ("LOCATION", "location", "IdentAttribute", 19, false, false, false, "enum=EquipmentLocation"),
    ("HEIGHT", "height", "NumericAttribute", 0, false, false, true, ""),
    ("LENGTH", "length", "NumericAttribute", 0, false, false, true, ""),
    ("MINIMUM-DIAMETER", "minimum_diameter", "NumericAttribute", 0, false, false, true, ""),
    ("MAXIMUM-DIAMETER", "maximum_diameter", "NumericAttribute", 0, false, false, true, ""),
    ("VOLUME", "volume", "NumericAttribute", 0, false, false, true, ""),
    ("WEIGHT", "weight", "NumericAttribute", 0, false, false, true, ""),
    ("HOLE-SIZE", "hole_size", "NumericAttribute", 0, false, false, true, ""),
    ("PRESSURE", "pressure", "NumericAttribute", 0, false, false, true, ""),
    ("TEMPERATURE", "temperature", "NumericAttribute", 0, false, false, true, ""),
    ("VERTICAL-DEPTH", "vertical_depth", "NumericAttribute", 0, false, false, true, ""),
    ("RADIAL-DRIFT", "radial_drift", "NumericAttribute", 0, false, false, true, ""),
    ("ANGULAR-DRIFT", "angular_drift", "NumericAttribute", 0, false, false, true, "")]),
  ("FRAME", [
    ("DESCRIPTION", "description", "TextAttribute", 20, false, false, false, ""),
    ("CHANNELS", "channels", "EFLRAttribute", 23, true, false, false, "ref=CHANNEL"),
    ("INDEX-TYPE", "index_type", "IdentAttribute", 19, false, false, false, "enum=FrameIndexType"),
    ("DIRECTION", "direction", "IdentAttribute", 19, false, false, false, ""),
    ("SPACING", "spacing", "NumericAttribute", 0, false, false, true, ""),
    ("ENCRYPTED", "encrypted", "NumericAttribute", 15, false, false, true, ""),
    ("INDEX-MIN", "index_min", "NumericAttribute", 0, false, false, true, ""),
    ("INDEX-MAX", "index_max", "NumericAttribute", 0, false, false, true, "")]),
  ("GROUP", [
    ("DESCRIPTION", "description", "TextAttribute", 20, false, false, false, ""),
    ("OBJECT-TYPE", "object_type", "IdentAttribute", 19, false, false, false, ""),
    ("OBJECT-LIST", "object_list", "EFLRAttribute", 24, true, false, false, ""),
    ("GROUP-LIST", "group_list", "EFLRAttribute", 23, true, false, false, "ref=GROUP")]),
  ("LONG-NAME", [
    ("GENERAL-MODIFIER", "general_modifier", "TextAttribute", 20, true, false, false, ""),
    ("QUANTITY", "quantity", "TextAttribute", 20, false, false, false, ""),
    ("QUANTITY-MODIFIER", "quantity_modifier", "TextAttribute", 20, true, false, false, ""),
    ("ALTERED-FORM", "altered_form", "TextAttribute", 20, false, false, false, ""),
    ("ENTITY", "entity", "TextAttribute", 20, false, false, false, ""),
    ("ENTITY-MODIFIER", "entity_modifier", "TextAttribute", 20, true, false, false, ""),
    ("ENTITY-NUMBER", "entity_number", "TextAttribute", 20, false, false, false, ""),
    ("ENTITY-PART", "entity_part", "TextAttribute", 20, false, false, false, ""),
    ("ENTITY-PART-NUMBER", "entity_part_number", "TextAttribute", 20, false, false, false, ""),
    ("GENERIC-SOURCE", "generic_source", "TextAttribute", 20, false, false, false, ""),
    ("SOURCE-PART", "source_part", "TextAttribute", 20, true, false, false, ""),
    ("SOURCE-PART-NUMBER", "source_part_number", "TextAttribute", 20, true, false, false, ""),
    ("CONDITIONS", "conditions", "TextAttribute", 20, true, false, false, ""),
    ("STANDARD-SYMBOL", "standard_symbol", "TextAttribute", 20, false, false, false, ""),
    ("PRIVATE-SYMBOL", "private_symbol", "TextAttribute", 20, false, false, false, "")]),
  ("MESSAGE", [
    ("TYPE", "_type", "IdentAttribute", 19, false, false, false, ""),
    ("TIME", "time", "DTimeAttribute", 0, false, false, true, "allow_float"),
    ("BOREHOLE-DRIFT", "borehole_drift", "NumericAttribute", 0, false, false, true, ""),
    ("VERTICAL-DEPTH", "vertical_depth", "NumericAttribute", 0, false, false, true, ""),
    ("RADIAL-DRIFT", "radial_drift", "NumericAttribute", 0, false, false, true, ""),
    ("ANGULAR-DRIFT", "angular_drift", "NumericAttribute", 0, false, false, true, ""),
    ("TEXT", "text", "TextAttribute", 20, true, false, false, "")]),
  ("COMMENT", [
    ("TEXT", "text", "TextAttribute", 20, true, false, false, "")]),
  ("NO-FORMAT", [
    ("CONSUMER-NAME", "consumer_name", "IdentAttribute", 19, false, false, false, ""),
    ("DESCRIPTION", "description", "TextAttribute", 20, false, false, false, "")]),
  ("ORIGIN", [
    ("FILE-ID", "file_id", "TextAttribute", 20, false, false, false, ""),
    ("FILE-SET-NAME", "file_set_name", "IdentAttribute", 19, false, false, false, ""),
    ("FILE-SET-NUMBER", "file_set_number", "NumericAttribute", 18, false, false, true, ""),
    ("FILE-NUMBER", "file_number", "NumericAttribute", 18, false, false, true, ""),
    ("FILE-TYPE", "file_type", "IdentAttribute", 19, false, false, false, ""),
    ("PRODUCT", "product", "TextAttribute", 20, false, false, false, ""),
    ("VERSION", "version", "TextAttribute", 20, false, false, false, ""),
    ("PROGRAMS", "programs", "TextAttribute", 20, true, false, false, ""),
    ("CREATION-TIME", "creation_time", "DTimeAttribute", 21, false, false, true, ""),
    ("ORDER-NUMBER", "order_number", "TextAttribute", 20, false, false, false, ""),
    ("DESCENT-NUMBER", "descent_number", "NumericAttribute", 16, false, false, true, ""),
    ("RUN-NUMBER", "run_number", "NumericAttribute", 16, false, false, true, ""),
    ("WELL-ID", "well_id", "TextAttribute", 20, false, false, false, ""),
    ("WELL-NAME", "well_name", "TextAttribute", 20, false, false, false, ""),
    ("FIELD-NAME", "field_name", "TextAttribute", 20, false, false, false, ""),
    ("PRODUCER-CODE", "producer_code", "NumericAttribute", 16, false, false, true, ""),
    ("PRODUCER-NAME", "producer_name", "TextAttribute", 20, false, false, false, ""),
    ("COMPANY", "company", "TextAttribute", 20, false, false, false, ""),
    ("NAME-SPACE-NAME", "name_space_name", "IdentAttribute", 19, false, false, false, ""),
    ("NAME-SPACE-VERSION", "name_space_version", "NumericAttribute", 18, false, false, true, "")]),
  ("PARAMETER", [
    ("LONG-NAME", "long_name", "EFLROrTextAttribute", 0, false, false, false, "ref=LONG-NAME"),
    ("DIMENSION", "dimension", "DimensionAttribute", 18, true, false, false, "int_only"),
    ("AXIS", "axis", "EFLRAttribute", 23, true, false, false, "ref=AXIS"),
    ("ZONES", "zones", "EFLRAttribute", 23, true, false, false, "ref=ZONE"),
    ("VALUES", "values", "Attribute", 0, true, true, true, "")]),
  ("PATH", [
    ("FRAME-TYPE", "frame_type", "EFLRAttribute", 23, false, false, false, "ref=FRAME"),
    ("WELL-REFERENCE-POINT", "well_reference_point", "EFLRAttribute", 23, false, false, false, "ref=WELL-REFERENCE"),
    ("VALUE", "value", "EFLRAttribute", 23, true, false, false, "ref=CHANNEL"),
    ("BOREHOLE-DEPTH", "borehole_depth", "NumericAttribute", 0, false, false, true, ""),
    ("VERTICAL-DEPTH", "vertical_depth", "NumericAttribute", 0, false, false, true, ""),
    ("RADIAL-DRIFT", "radial_drift", "NumericAttribute", 0, false, false, true, ""),
    ("ANGULAR-DRIFT", "angular_drift", "NumericAttribute", 0, false, false, true, ""),
    ("TIME", "time", "NumericAttribute", 0, false, false, true, ""),
    ("DEPTH-OFFSET", "depth_offset", "NumericAttribute", 0, false, false, true, ""),
    ("MEASURE-POINT-OFFSET", "measure_point_offset", "NumericAttribute", 0, false, false, true, ""),
    ("TOOL-ZERO-OFFSET", "tool_zero_offset", "NumericAttribute", 0, false, false, true, "")]),
  ("PROCESS", [
    ("DESCRIPTION", "description", "TextAttribute", 20, false, false, false, ""),
    ("TRADEMARK-NAME", "trademark_name", "TextAttribute", 20, false, false, false, ""),
    ("VERSION", "version", "TextAttribute", 20, false, false, false, ""),
    ("PROPERTIES", "properties", "PropertiesAttribute", 19, true, false, false, "enum=Property"),
    ("STATUS", "status", "IdentAttribute", 19, false, false, false, "enum=ProcessStatus"),
    ("INPUT-CHANNELS", "input_channels", "EFLRAttribute", 23, true, false, false, "ref=CHANNEL"),
    ("OUTPUT-CHANNELS", "output_channels", "EFLRAttribute", 23, true, false, false, "ref=CHANNEL"),
    ("INPUT-COMPUTATIONS", "input_computations", "EFLRAttribute", 23, true, false, false, "ref=COMPUTATION"),
    ("OUTPUT-COMPUTATIONS", "output_computations", "EFLRAttribute", 23, true, false, false, "ref=COMPUTATION"),
    ("PARAMETERS", "parameters", "EFLRAttribute", 23, true, false, false, "ref=PARAMETER"),
    ("COMMENTS", "comments", "TextAttribute", 20, true, false, false, "")]),
  ("SPLICE", [
    ("OUTPUT-CHANNEL", "output_channel", "EFLRAttribute", 23, false, false, false, "ref=CHANNEL"),
    ("INPUT-CHANNELS", "input_channels", "EFLRAttribute", 23, true, false, false, "ref=CHANNEL"),
    ("ZONES", "zones", "EFLRAttribute", 23, true, false, false, "ref=ZONE")]),
  ("TOOL", [
    ("DESCRIPTION", "description", "TextAttribute", 20, false, false, false, ""),
    ("TRADEMARK-NAME", "trademark_name", "TextAttribute", 20, false, false, false, ""),
    ("GENERIC-NAME", "generic_name", "TextAttribute", 20, false, false, false, ""),
    ("PARTS", "parts", "EFLRAttribute", 23, true, false, false, "ref=EQUIPMENT"),
    ("STATUS", "status", "StatusAttribute", 26, false, false, false, ""),
    ("CHANNELS", "channels", "EFLRAttribute", 23, true, false, false, "ref=CHANNEL"),
    ("PARAMETERS", "parameters", "EFLRAttribute", 23, true, false, false, "ref=PARAMETER")]),
  ("WELL-REFERENCE", [
    ("PERMANENT-DATUM", "permanent_datum", "TextAttribute", 20, false, false, false, ""),
    ("VERTICAL-ZERO", "vertical_zero", "TextAttribute", 20, false, false, false, ""),
    ("PERMANENT-DATUM-ELEVATION", "permanent_datum_elevation", "NumericAttribute", 7, false, false, true, ""),
    ("ABOVE-PERMANENT-DATUM", "above_permanent_datum", "NumericAttribute", 7, false, false, true, ""),
    ("MAGNETIC-DECLINATION", "magnetic_declination", "NumericAttribute", 7, false, false, true, ""),
    ("COORDINATE-1-NAME", "coordinate_1_name", "TextAttribute", 20, false, false, false, ""),
    ("COORDINATE-1-VALUE", "coordinate_1_value", "NumericAttribute", 7, false, false, true, ""),
    ("COORDINATE-2-NAME", "coordinate_2_name", "TextAttribute", 20, false, false, false, ""),
    ("COORDINATE-2-VALUE", "coordinate_2_value", "NumericAttribute", 7, false, false, true, ""),
    ("COORDINATE-3-NAME", "coordinate_3_name", "TextAttribute", 20, false, false, false, ""),
    ("COORDINATE-3-VALUE", "coordinate_3_value", "NumericAttribute", 7, false, false, true, "")]),
  ("ZONE", [
    ("DESCRIPTION", "description", "TextAttribute", 20, false, false, false, ""),
    ("DOMAIN", "domain", "IdentAttribute", 19, false, false, false, "enum=ZoneDomain"),
    ("MAXIMUM", "maximum", "DTimeAttribute", 0, false, false, true, "allow_float"),
    ("MINIMUM", "minimum", "DTimeAttribute", 0, false, false, true, "allow_float")])
]
/-- enumerations (RP66 V1 units App. B.27, frame index types, equipment types/locations, zone domains, ...) -/
def enums : List (String × List String) := [
  ("CalibrationMeasurementPhase", ["AFTER", "BEFORE", "MASTER"]),
  ("EquipmentLocation", ["Logging-System", "Remote", "Rig", "Well"]),
  ("EquipmentType", ["Adapter", "Board", "Bottom-Nose", "Bridle", "Cable", "Calibrator", "Cartridge", "Centralizer", "Chamber", "Cushion", "Depth-Device", "Display", "Drawer", "Excentralizer", "Explosive-Source", "Flask", "Geophone", "Gun", "Head", "Housing", "Jig", "Joint", "Nuclear-Detector", "Packer", "Pad", "Pane", "Positioning", "Printer", "Radioactive-Source", "Shield", "Simulator", "Skid", "Sonde", "Spacer", "Standoff", "System", "Tool", "Tool-Module", "Transducer", "Vibration-Source"]),
  ("FrameIndexType", ["ANGULAR-DRIFT", "BOREHOLE-DEPTH", "NON-STANDARD", "RADIAL-DRIFT", "VERTICAL-DEPTH"]),
  ("ProcessStatus", ["COMPLETE", "ABORTED", "IN-PROGRESS"]),
  ("Property", ["AVERAGED", "CALIBRATED", "CHANGED-INDEX", "COMPUTED", "DEPTH-MATCHED", "DERIVED", "FILTERED", "HOLE-SIZE-CORRECTED", "INCLINOMETRY-CORRECTD", "LITHOLOGY-CORRECTED", "LOCAL-COMPUTATION", "LOCALLY-DEFINED", "MODELLED", "MUDCAKE-CORRECTED", "NORMALIZED", "OVER-SAMPLED", "PATCHED", "PRESSURE-CORRECTED", "RE-SAMPLED", "SALINITY-CORRECTED", "SAMPLED-DOWNWARD", "SAMPLED-UPWARD", "SPEED-CORRECTED", "SPLICED", "SQUARED", "STACKED", "STANDARD-DEVIATION", "STANDOFF-CORRECTED", "TEMPERATURE-CORRECTED", "UNDER-SAMPLED"]),
  ("Unit", ["A", "K", "cd", "dAPI", "dB", "gAPI", "kg", "m", "mol", "nAPI", "rad", "s", "sr", "Btu", "C", "D", "GPa", "Gal", "Hz", "J", "L", "MHz", "MPa", "MeV", "Mg", "Mpsi", "N", "Oe", "P", "Pa", "S", "T", "V", "W", "Wb", "a", "acre", "atm", "b", "bar", "bbl", "c", "cP", "cal", "cm", "cu", "d", "daN", "deg", "degC", "degF", "dm", "eV", "fC", "ft", "g", "gal", "h", "in", "kHz", "kPa", "kV", "keV", "kgf", "km", "lbf", "lbm", "mA", "mC", "mD", "mGal", "mL", "mS", "mT", "mV", "mW", "mg", "min", "mm", "mohm", "ms", "nC", "nW", "ns", "ohm", "pC", "pPa", "ppdk", "ppk", "ppm", "psi", "pu", "t", "ton", "uA", "uC", "uPa", "uV", "um", "uohm", "upsi", "us"]),
  ("ZoneDomain", ["BOREHOLE-DEPTH", "TIME", "VERTICAL-DEPTH"])
]
end Dlis.Standard
