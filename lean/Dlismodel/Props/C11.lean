/-
  C11 — All data sources are equivalent and the row window selects exactly its rows.

  Every source kind (inline arrays merged into a dict, dict, structured array, HDF5 file) is modelled by what it
  denotes: datasets by name (`DataSrc`).  The kinds differ only in how names are looked up (default mapping,
  `dataset_name` mapping, leading-slash normalisation); the rows of a frame are a function of the datasets its
  channels map to.  PARTIAL: that numpy / h5py field access, slicing and the structured fast path really denote
  these datasets is outside the model; the C11 correspondence compares whole files for every window.
-/
import Dlismodel.Proofs.Data
namespace Dlis.C11
open Dlis

/-- two sources that agree on the datasets the frame's channels map to give the same rows — whatever else they
contain and in whatever order (field permutation, extra unused datasets, dict vs file) -/
theorem sources_agree (s1 s2 : DataSrc) (mapping : List PStr)
    (h : ∀ ds ∈ mapping, lookupDs s1 ds = lookupDs s2 ds) : frameRowsOf s1 mapping = frameRowsOf s2 mapping := by
  have : mapping.mapM (lookupDs s1) = mapping.mapM (lookupDs s2) := by
    induction mapping with
    | nil => rfl
    | cons m ms ih =>
      simp only [List.mapM_cons]
      rw [h m (by simp), ih (fun ds hds => h ds (by simp [hds]))]
  unfold frameRowsOf
  rw [this]

/-- datasets placed before the ones looked up do not matter if they have other names -/
theorem lookup_skip (pre src : DataSrc) (name : PStr) (h : ∀ p ∈ pre, p.1 ≠ name) :
    lookupDs (pre ++ src) name = lookupDs src name := by
  induction pre with
  | nil => rfl
  | cons p ps ih =>
    obtain ⟨k, v⟩ := p
    have hk : k ≠ name := h (k, v) (by simp)
    simp only [List.cons_append, lookupDs, hk, ↓reduceIte]
    exact ih (fun q hq => h q (by simp [hq]))

/-- swapping two datasets with different names does not change any lookup: slot order follows the frame's
channel list, never the source's -/
theorem lookup_swap (a b : PStr × List Slot) (src : DataSrc) (name : PStr) (hab : a.1 ≠ b.1) :
    lookupDs (a :: b :: src) name = lookupDs (b :: a :: src) name := by
  obtain ⟨ka, va⟩ := a
  obtain ⟨kb, vb⟩ := b
  simp only [lookupDs]
  by_cases h1 : ka = name
  · have : kb ≠ name := fun h => hab (by simp_all)
    simp [h1, this]
  · simp [h1]

/-- writing with a window equals writing the pre-sliced rows without one -/
theorem window_is_slice (frame : ObName) (rows : List (List Slot)) (fromIdx : Nat) (toIdx c : Option Nat) :
    frameRecords frame rows fromIdx toIdx c = frameRecords frame (window rows fromIdx toIdx) 0 none c := by
  unfold frameRecords
  congr 2
  unfold window
  simp only [Option.getD_none, List.drop_zero]
  symm
  apply List.take_of_length_le
  exact Nat.le_refl _

/-- the window is exactly rows [from, to) -/
theorem window_rows_exact {α : Type} (rows : List α) (fromIdx toIdx : Nat) (h : toIdx ≤ rows.length) :
    window rows fromIdx (some toIdx) = (rows.drop fromIdx).take (toIdx - fromIdx) ∧
      (window rows fromIdx (some toIdx)).length = toIdx - fromIdx := by
  unfold window
  simp only [Option.getD_some]
  constructor
  · rw [List.drop_take]
  · simp; omega

theorem hdf5_path_normalised (p : PStr) : normPath (normPath p) = normPath p ∧ normPath (47 :: p) = 47 :: p := by
  constructor
  · cases p with
    | nil => rfl
    | cons c cs =>
      by_cases h : c = 47
      · subst h; rfl
      · have e : normPath (c :: cs) = 47 :: c :: cs := by
          unfold normPath
          split
          · rename_i t heq; simp at heq; exact absurd heq.1 h
          · rfl
        rw [e]; rfl
  · rfl

example : frameRowsOf [([66], [⟨1, [5]⟩, ⟨1, [6]⟩]), ([88], []), ([65], [⟨2, [7]⟩, ⟨2, [8]⟩])] [[65], [66]] =
    .ok [[⟨2, [7]⟩, ⟨1, [5]⟩], [⟨2, [8]⟩, ⟨1, [6]⟩]] := by decide +kernel

end Dlis.C11
