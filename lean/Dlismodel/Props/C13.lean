/-
  C13 — Frame index metadata is truthful for the rows written.
  PARTIAL: float rounding inside numpy (`diff`, `median`, division), NaN ordering and the conversion of the
  derived numbers to FDOUBL are outside the model; the correspondence uses all integer dtypes and float data
  whose values and differences are exact, away from the tolerance boundary.  Values derived at one write
  persist into the next (known finding, DESIGN.md): the theorems speak about one write of a fresh specification.
-/
import Dlismodel.Proofs.FrameIdx
import Dlismodel.Model.Index
namespace Dlis.C13
open Dlis

theorem foldl_min_le (xs : List Int) (a : Int) : xs.foldl min a ≤ a ∧ ∀ x ∈ xs, xs.foldl min a ≤ x := by
  induction xs generalizing a with
  | nil => simp
  | cons y ys ih =>
    simp only [List.foldl_cons, List.mem_cons]
    obtain ⟨h1, h2⟩ := ih (min a y)
    refine ⟨by omega, ?_⟩
    intro x hx
    rcases hx with rfl | hx
    · omega
    · exact h2 x hx

theorem foldl_min_mem (xs : List Int) (a : Int) : xs.foldl min a = a ∨ xs.foldl min a ∈ xs := by
  induction xs generalizing a with
  | nil => simp
  | cons y ys ih =>
    simp only [List.foldl_cons, List.mem_cons]
    rcases ih (min a y) with h | h
    · rw [h]
      by_cases hay : a ≤ y
      · left; omega
      · right; left; omega
    · right; right; exact h

theorem foldl_max_ge (xs : List Int) (a : Int) : a ≤ xs.foldl max a ∧ ∀ x ∈ xs, x ≤ xs.foldl max a := by
  induction xs generalizing a with
  | nil => simp
  | cons y ys ih =>
    simp only [List.foldl_cons, List.mem_cons]
    obtain ⟨h1, h2⟩ := ih (max a y)
    refine ⟨by omega, ?_⟩
    intro x hx
    rcases hx with rfl | hx
    · omega
    · exact h2 x hx

theorem foldl_max_mem (xs : List Int) (a : Int) : xs.foldl max a = a ∨ xs.foldl max a ∈ xs := by
  induction xs generalizing a with
  | nil => simp
  | cons y ys ih =>
    simp only [List.foldl_cons, List.mem_cons]
    rcases ih (max a y) with h | h
    · rw [h]
      by_cases hay : y ≤ a
      · left; omega
      · right; left; omega
    · right; right; exact h

/-- INDEX-MIN / INDEX-MAX are the least and greatest index value of the rows written -/
theorem index_min_max (xs : List Int) (hne : xs ≠ []) :
    ∃ lo hi, (indexAttrs xs).imin = some lo ∧ (indexAttrs xs).imax = some hi ∧ lo ∈ xs ∧ hi ∈ xs ∧
      ∀ x ∈ xs, lo ≤ x ∧ x ≤ hi := by
  cases xs with
  | nil => exact absurd rfl hne
  | cons a as =>
    refine ⟨as.foldl min a, as.foldl max a, rfl, rfl, ?_, ?_, ?_⟩
    · rcases foldl_min_mem as a with h | h
      · rw [h]; simp
      · simp [h]
    · rcases foldl_max_mem as a with h | h
      · rw [h]; simp
      · simp [h]
    · intro x hx
      simp only [List.mem_cons] at hx
      rcases hx with rfl | hx
      · exact ⟨(foldl_min_le as x).1, (foldl_max_ge as x).1⟩
      · exact ⟨(foldl_min_le as a).2 x hx, (foldl_max_ge as a).2 x hx⟩

/-- uniform differences: SPACING is that signed difference (and no DIRECTION is written) -/
theorem spacing_uniform (ds : List Int) (d : Int) (hne : ds ≠ []) (h : ∀ x ∈ ds, x = d) :
    spacingOf ds = .exact d := by
  cases ds with
  | nil => exact absurd rfl hne
  | cons a as =>
    have ha : a = d := h a (by simp)
    subst ha
    simp only [spacingOf]
    rw [if_pos]
    simp only [List.all_eq_true, beq_iff_eq]
    intro x hx
    exact h x (by simp [hx])

/-- SPACING is present only when every difference is within the documented tolerance of the value written -/
theorem spacing_present_only_if_uniform (ds : List Int) :
    (∀ d, spacingOf ds = .exact d → ∀ x ∈ ds, x = d) ∧
    (∀ m2, spacingOf ds = .median m2 → m2 = median2 ds ∧ m2 ≠ 0 ∧ ∀ x ∈ ds, 1000 * (m2 - 2 * x) ^ 2 < m2 ^ 2) := by
  cases ds with
  | nil => simp [spacingOf]
  | cons a as =>
    simp only [spacingOf]
    constructor
    · intro d hd
      split at hd
      · rename_i hall
        simp at hd; subst hd
        intro x hx
        simp only [List.mem_cons] at hx
        rcases hx with rfl | hx
        · rfl
        · simp only [List.all_eq_true, beq_iff_eq] at hall
          exact hall x hx
      · split at hd
        · simp at hd
        · split at hd <;> simp at hd
    · intro m2 hm
      split at hm
      · simp at hm
      · split at hm
        · simp at hm
        · rename_i hne0
          split at hm
          · rename_i htol
            simp at hm; subst hm
            refine ⟨rfl, hne0, ?_⟩
            simp only [withinTol, List.all_eq_true, decide_eq_true_eq] at htol
            exact htol
          · simp at hm

/-- without SPACING, DIRECTION reflects the monotonic sense if there is one -/
theorem direction_sense (ds : List Int) :
    (direction ds = some true ↔ ((∀ x ∈ ds, 0 ≤ x) ∧ ∃ x ∈ ds, x ≠ 0)) ∧
    (direction ds = some false ↔ ((∀ x ∈ ds, x ≤ 0) ∧ (∃ x ∈ ds, x ≠ 0) ∧ ∃ x ∈ ds, x < 0)) := by
  unfold direction
  constructor
  · constructor
    · intro h
      split at h; · simp at h
      rename_i h0
      split at h
      · rename_i h1
        simp only [List.all_eq_true, decide_eq_true_eq, beq_iff_eq] at h0 h1
        refine ⟨h1, ?_⟩
        apply Classical.byContradiction
        intro hc
        apply h0
        intro x hx
        apply Classical.byContradiction
        intro hx0
        exact hc ⟨x, hx, hx0⟩
      · split at h <;> simp at h
    · intro ⟨h1, x, hx, hx0⟩
      have h0 : ¬ (ds.all (· == 0)) = true := by
        simp only [List.all_eq_true, beq_iff_eq]
        intro hall; exact hx0 (hall x hx)
      rw [if_neg h0, if_pos]
      simp only [List.all_eq_true, decide_eq_true_eq]; exact h1
  · constructor
    · intro h
      split at h; · simp at h
      rename_i h0
      split at h; · simp at h
      rename_i h1
      split at h
      · rename_i h2
        simp only [List.all_eq_true, decide_eq_true_eq, beq_iff_eq] at h0 h1 h2
        have hex : ∃ x ∈ ds, x ≠ 0 := by
          apply Classical.byContradiction
          intro hc
          apply h0
          intro x hx
          apply Classical.byContradiction
          intro hx0
          exact hc ⟨x, hx, hx0⟩
        refine ⟨h2, hex, ?_⟩
        apply Classical.byContradiction
        intro hc
        apply h1
        intro x hx
        apply Classical.byContradiction
        intro hneg
        exact hc ⟨x, hx, by omega⟩
      · simp at h
    · intro ⟨h2, ⟨x, hx, hx0⟩, ⟨y, hy, hy0⟩⟩
      have h0 : ¬ (ds.all (· == 0)) = true := by
        simp only [List.all_eq_true, beq_iff_eq]
        intro hall; exact hx0 (hall x hx)
      have h1 : ¬ (ds.all (0 ≤ ·)) = true := by
        simp only [List.all_eq_true, decide_eq_true_eq]
        intro hall; have := hall y hy; omega
      rw [if_neg h0, if_neg h1, if_pos]
      simp only [List.all_eq_true, decide_eq_true_eq]; exact h2

/-- DIRECTION is written only when there is no SPACING -/
theorem direction_only_without_spacing (xs : List Int) :
    (indexAttrs xs).direction ≠ none → (indexAttrs xs).spacing = .absent := by
  intro h
  unfold indexAttrs at *
  simp only at *
  split at h <;> simp_all

/-- any of these values supplied by the user is written unchanged -/
theorem user_values_unchanged {α : Type} (u : α) (v : Option α) : assignIfNone (some u) v = some u := rfl

/-- a single row: no differences, hence neither SPACING nor DIRECTION -/
theorem single_row (x : Int) : (indexAttrs [x]).spacing = .absent ∧ (indexAttrs [x]).direction = none := by
  simp [indexAttrs, diffs, spacingOf, direction]

example : indexAttrs [9, 7, 5, 3] = { imin := some 3, imax := some 9, spacing := .exact (-2), direction := none } := by
  decide
example : (indexAttrs [0, 1000, 2001, 3001]).spacing = .median 2000 := by decide +kernel
example : indexAttrs [1, 2, 4, 8] = { imin := some 1, imax := some 8, spacing := .absent, direction := some true } := by
  decide +kernel

/-! Life cycle (`Model/FrameIdx.lean`): the index attributes written are derived from the rows of THIS write, whatever
earlier writes of the same frame derived, and what the user assigned is kept through all of them. -/
theorem index_attributes_follow_each_write (h : List (Bool × Bool × List Int)) (hc indexed : Bool) (xs : List Int)
    (s : FrameIdx) :
    frameSetup hc indexed xs (frameHistory h s) = frameSetup hc indexed xs s.forget :=
  frameSetup_after_any_history h hc indexed xs s

theorem user_index_attributes_survive (h : List (Bool × Bool × List Int)) (mn mx sp : Option Int) (di : Option Bool) :
    (frameHistory h (FrameIdx.user mn mx sp di)).forget = FrameIdx.user mn mx sp di := by
  rw [frameHistory_user]; simp [FrameIdx.forget, FrameIdx.user]

example :
    let s1 := (frameSetup false true [1, 2, 4, 8] (FrameIdx.user none none none none)).1
    let s2 := (frameSetup false true [10, 12, 14] s1).1
    s1.direction.held = some true ∧ s2.direction.held = none ∧ s2.spacing.held = some 4 ∧ s2.imin.held = some 10 := by
  decide +kernel

end Dlis.C13
