/-
  C19 — Writing never alters the caller's data.

  PARTIAL by nature: whether numpy's slicing, `np.zeros`, field assignment, `np.asarray(..., dtype)`, `tobytes`
  and h5py reads really have the effects listed in `pipeline` is runtime behaviour.  What is proved: (1) executing
  any effect list that contains no write to a caller buffer leaves every caller buffer as it was — whatever is
  read, allocated or written elsewhere, for successful and failed (truncated) executions alike; (2) the effect
  list of the data path contains no such write, for every source kind, with and without the no-copy path, with
  and without casts, for every number of channels and rows.  The tie is the C19 correspondence: bit-exact
  checksums of every caller-owned buffer (including the surroundings of views, read-only arrays, the dict's keys
  and values, the HDF5 file's bytes) before and after real writes, successful and failed.
-/
import Dlismodel.Model.Alias
namespace Dlis.C19
open Dlis

theorem exec_preserves_caller (h : Heap) (e : Effect) (i : Nat) (hw : writesCaller e = false) :
    exec h e (.caller i) = h (.caller i) := by
  cases e with
  | read b => rfl
  | alloc j => simp [exec]
  | write b v =>
    cases b with
    | caller k => simp [writesCaller] at hw
    | fresh k => simp [exec]

/-- (1) no write effect on a caller buffer ⇒ caller buffers unchanged, also after any prefix (a write that
fails midway) -/
theorem no_caller_write_preserves (es : List Effect) (h : Heap) (i : Nat)
    (hw : ∀ e ∈ es, writesCaller e = false) : ∀ k, execAll h (es.take k) (.caller i) = h (.caller i) := by
  intro k
  have : ∀ (l : List Effect) (h' : Heap), (∀ e ∈ l, writesCaller e = false) →
      execAll h' l (.caller i) = h' (.caller i) := by
    intro l
    induction l with
    | nil => intro h' _; rfl
    | cons e es ih =>
      intro h' hl
      simp only [execAll, List.foldl_cons]
      have := ih (exec h' e) (fun e' he' => hl e' (by simp [he']))
      simp only [execAll] at this
      rw [this, exec_preserves_caller h' e i (hl e (by simp))]
  exact this (es.take k) h (fun e he => hw e (List.mem_of_mem_take he))

theorem flatMap_all {α : Type} (l : List α) (f : α → List Effect) (h : ∀ x ∈ l, ∀ e ∈ f x, writesCaller e = false) :
    ∀ e ∈ l.flatMap f, writesCaller e = false := by
  intro e he
  simp only [List.mem_flatMap] at he
  obtain ⟨x, hx, hex⟩ := he
  exact h x hx e hex

/-- (2) the data path never writes to a caller buffer -/
theorem pipeline_never_writes_caller (kind : SrcKind) (fast cast : Bool) (n rows : Nat) :
    ∀ e ∈ pipeline kind fast cast n rows, writesCaller e = false := by
  intro e he
  unfold pipeline at he
  simp only [List.mem_append] at he
  rcases he with ((he | he) | he) | he
  · cases kind <;> simp at he <;> rcases he with rfl | rfl | rfl <;> rfl
  · revert e
    apply flatMap_all
    intro k _ e he
    simp at he; subst he; rfl
  · simp at he
    rcases he with rfl | rfl | rfl <;> rfl
  · split at he
    · revert e
      apply flatMap_all
      intro _ _
      apply flatMap_all
      intro k _ e he
      simp at he
      rcases he with rfl | rfl | rfl | rfl <;> rfl
    · simp only [List.mem_append] at he
      rcases he with (he | he) | he
      · simp at he; subst he; rfl
      · revert e
        apply flatMap_all
        intro k _ e he
        simp at he
        rcases he with rfl | rfl <;> rfl
      · revert e
        apply flatMap_all
        intro _ _
        apply flatMap_all
        intro k _ e he
        simp at he
        rcases he with rfl | rfl | rfl | rfl <;> rfl

/-- hence: after a write — complete or aborted at any point — every caller buffer holds what it held before -/
theorem caller_data_unaltered (kind : SrcKind) (fast cast : Bool) (n rows : Nat) (h : Heap) (i k : Nat) :
    execAll h ((pipeline kind fast cast n rows).take k) (.caller i) = h (.caller i) :=
  no_caller_write_preserves _ h i (pipeline_never_writes_caller kind fast cast n rows) k

/-- the statement is not vacuous: a single write to a caller buffer is observed -/
example : execAll (fun _ => 7) [.write (.caller 1) 9] (.caller 1) = 9 := by decide

end Dlis.C19
