/-
  C04 — Every explicitly formatted record decodes under the RP66 component grammar.

  `parseEflr` (Model/ParseEflr.lean) is the strict reader: SET component with type (name optional), template of
  ATTRIB components with mandatory, pairwise distinct, non-empty labels, then OBJECT components each followed by
  at most one attribute component per template slot in template order (trailing ones may be left out), every
  attribute component either ABSATR or ATTRIB with the fields its descriptor bits announce, a defined
  representation code (1..27), and exactly `count` values of that code — a component without the value bit is
  accepted only with a count of 0 (an empty list): a value that is not there must be an absent attribute, never a
  component announcing values it does not carry; nothing may be left over.  `parseEflr_setBody`: every non-empty body produced by the model of
  `EFLRSet._make_body_bytes` is accepted and decodes to the description it was produced from.
-/
import Dlismodel.Proofs.Eflr
import Dlismodel.Proofs.FileHeader
namespace Dlis.C04
open Dlis

theorem parseEflr_setBody (s : SetDesc) (b : Bytes) (hs : SetOk s) (hne : s.objects ≠ [])
    (h : setBody s = .ok b) : ∃ d, parseEflr b = some d ∧ SetMatches s d :=
  Dlis.parseEflr_setBody s b hs hne h

/-- an empty set produces no record at all (C09: never an empty set on disk) -/
theorem empty_set_no_record (s : SetDesc) (h : s.objects = []) : setBody s = .ok [] := by
  simp [setBody, h]

/-- "a value that is not there is marked absent, never announced and then omitted": the value bit of the
descriptor is set iff at least one value follows -/
theorem attr_value_bit (a : AttrSt) : descByte a % 2 = 1 ↔ a.vals ≠ [] := by
  have hd := desc_decode (decide (a.count ≠ 1)) a.rc.isSome (hasUnits a) (!a.vals.isEmpty)
  simp only [decide_eq_true_eq] at hd
  have hdd : descByte a = 32 + (if a.count ≠ 1 then 8 else 0) + (if a.rc.isSome = true then 4 else 0) +
      (if hasUnits a = true then 2 else 0) + (if (!a.vals.isEmpty) = true then 1 else 0) := rfl
  rw [hdd, hd.2.2.2.2.2.2]
  cases a.vals <;> simp

/-- the number of encoded values equals the explicit or default count whenever a value is announced -/
theorem attr_count_matches (a : AttrSt) (hok : AttrOk a) (bl : List Bytes) (h : attrValsL a = .ok bl)
    (hv : a.vals ≠ []) : (attrContent a bl).vals.length = (attrContent a bl).count := by
  unfold attrValsL at h
  have he : a.vals.isEmpty = false := by cases hx : a.vals <;> simp_all
  simp only [he, Bool.false_eq_true, ↓reduceIte] at h
  cases hrc : a.rc with
  | none => rw [hrc] at h; simp at h
  | some r =>
    rw [hrc] at h
    have hl : bl.length = a.vals.length := by
      clear hv he
      generalize a.vals = vs at h
      induction vs generalizing bl with
      | nil => simp [encValsL] at h; subst h; rfl
      | cons v vs ih =>
        simp only [encValsL, bind_ok, pure_ok] at h
        obtain ⟨b1, _, bs, hbs, rfl⟩ := h
        simp [ih bs hbs]
    simp only [attrContent, AttrSt.count, hl]
    cases hil : a.isList
    · simp [hok.2 hil]
    · simp

/-- and a count of zero (an empty list) is stated explicitly and carries no value -/
theorem empty_list_encoding (a : AttrSt) (h0 : a.vals = []) (hl : a.isList = true) :
    a.count = 0 ∧ descByte a % 2 = 0 ∧ descByte a / 8 % 2 = 1 := by
  have hc : a.count = 0 := by simp [AttrSt.count, hl, h0]
  have hd := desc_decode (decide (a.count ≠ 1)) a.rc.isSome (hasUnits a) (!a.vals.isEmpty)
  simp only [decide_eq_true_eq] at hd
  have hdd : descByte a = 32 + (if a.count ≠ 1 then 8 else 0) + (if a.rc.isSome = true then 4 else 0) +
      (if hasUnits a = true then 2 else 0) + (if (!a.vals.isEmpty) = true then 1 else 0) := rfl
  rw [hdd]
  refine ⟨hc, ?_, hd.2.2.2.1.mpr (by rw [hc]; decide)⟩
  have := hd.2.2.2.2.2.2
  have h2 : ¬ ((32 + (if a.count ≠ 1 then 8 else 0) + (if a.rc.isSome = true then 4 else 0) +
      (if hasUnits a = true then 2 else 0) + (if (!a.vals.isEmpty) = true then 1 else 0)) % 2 = 1) := by
    rw [this]; simp [h0]
  omega

/-! non-vacuity: a CHANNEL-like set with a named set, a unit, an empty list, a 3-valued attribute -/
example :
    let a1 : AttrSt := { rc := some 20, units := none, isList := false, vals := [AVal.str [65, 66]] }
    let a2 : AttrSt := { rc := some 18, units := some [109], isList := true, vals := [AVal.int 1, AVal.int 200, AVal.int 70000] }
    let a3 : AttrSt := { rc := some 18, units := none, isList := true, vals := [] }
    let o1 : ObjDesc := { name := { origin := 1, copy := 0, name := [88] }, attrs := [some a1, some a2, some a3] }
    let o2 : ObjDesc := { name := { origin := 1, copy := 1, name := [88] }, attrs := [none, none, none] }
    let s : SetDesc := SetDesc.mk [67, 72] (some [83]) [[76], [68], [69]] [o1, o2]
    ((setBody s).toOption.bind parseEflr).isSome = true := by decide +kernel

end Dlis.C04

namespace Dlis.C04
open Dlis
/-- FILE-HEADER (hand-written components in the code, not produced by `setBody`): *every* body the model of
`FileHeaderSet._make_body_bytes` produces — any object name, sequence number and identifier it accepts — decodes
under the same grammar, to one set FILE-HEADER with the template SEQUENCE-NUMBER, ID (both ASCII) and one object
carrying the 10- and 65-character values. -/
theorem fileHeader_parses (name : ObName) (seqNo : Int) (hid : PStr) (b : Bytes)
    (h : fileHeaderBody name seqNo hid = .ok b) :
    ∃ s i, justify (intStr seqNo) 10 false = .ok s ∧ justify hid 65 true = .ok i ∧
      parseEflr b = some
        { type := sFILEHEADER.map b8, name := none, template := fhTemplate,
          objects := [{ name := obnameVal name,
                        attrs := [some { count := 1, rc := 20, units := [], vals := [b8 10 :: s] },
                                  some { count := 1, rc := 20, units := [], vals := [b8 65 :: i] }] }] } :=
  Dlis.parseEflr_fileHeaderBody name seqNo hid b h

/-- non-vacuity: a concrete instance is accepted by `fileHeaderBody` and decodes as stated (a test of one instance) -/
theorem fileHeader_instance :
    ((fileHeaderBody { origin := 1, copy := 0, name := [48] } 7 [72, 68, 82]).toOption.bind parseEflr).map
        (fun d => (d.template.map (·.rc), d.objects.map (fun o => o.attrs.map (fun a => a.map (·.count))))) =
      some ([20, 20], [[some 1, some 1]]) := by decide +kernel
end Dlis.C04
