/-
  C18 — Frames and logical files are isolated from one another.
-/
import Dlismodel.Proofs.Api
import Dlismodel.Props.C03
import Dlismodel.Props.C07
namespace Dlis.C18
open Dlis

/-- every reachable writable state: each set record of a logical file contains only objects added through that
logical file, and every object added through it is there -/
theorem logical_files_isolated (n : Nat) (ops : List Op) (hv : ∀ op ∈ ops, op.lf < n)
    (hw : writable (run (World.init n) ops) = true) :
    (∀ lf k its, (k, its) ∈ setRecords (run (World.init n) ops) lf → ∀ it ∈ its, it.lf = lf) ∧
    (∀ it ∈ (run (World.init n) ops).items,
        ∃ its, (it.key, its) ∈ setRecords (run (World.init n) ops) it.lf ∧ it ∈ its) := by
  have hr := (run_invariants n ops hv).1
  exact ⟨fun lf k its h => records_isolated _ hr hw lf k its h, fun it hit => records_complete _ hr it hit⟩

/-- a configuration in which objects of different logical files end up in one set is not writable -/
theorem shared_set_rejected (w : World) (a b : Nat) (k : Key) (hab : a < b) (hb : b < w.keys.length)
    (ka : k ∈ lfKeys w a) (kb : k ∈ lfKeys w b) (hne : itemsOfKey w k ≠ []) : writable w = false := by
  cases hw : writable w with
  | false => rfl
  | true =>
    exfalso
    unfold writable at hw
    simp only [Bool.and_eq_true, Bool.not_eq_eq_eq_not, Bool.not_true] at hw
    exact hne (noShared_of_sharedSet w hw.2 a b hab hb k ka kb)

/-- frames: each frame's records are numbered from 1 and carry only its own rows (C03 per frame) -/
theorem frames_independent (f1 f2 : ObName) (rows1 rows2 : List (List Slot)) (c : Option Nat)
    (hc : ∀ k, c = some k → 1 ≤ k) (h1 : ∀ r ∈ rows1, ∀ s ∈ r, SlotOk s) (h2 : ∀ r ∈ rows2, ∀ s ∈ r, SlotOk s)
    (b1 b2 : List Bytes) (e1 : frameRecords f1 rows1 0 none c = .ok b1) (e2 : frameRecords f2 rows2 0 none c = .ok b2) :
    b1.length = (window rows1 0 none).length ∧ b2.length = (window rows2 0 none).length :=
  ⟨(C03.frame_data_roundtrip f1 rows1 0 none c hc h1 b1 e1).1, (C03.frame_data_roundtrip f2 rows2 0 none c hc h2 b2 e2).1⟩

/-- what can be reached from an object by following references (attributes holding objects), any number of steps -/
inductive Reach (es : List Edge) : Nat → Nat → Prop
  | refl (i : Nat) : Reach es i i
  | step {i j k : Nat} : Reach es i j → (∃ e ∈ es, e.holder = j ∧ e.target = k) → Reach es i k

/-- a written file is closed under references per logical file: in every reachable state that `write` accepts,
everything reachable from an object through references — directly or through any chain of them — was added through
that object's logical file (so no logical file depends on an object of another) -/
theorem reference_closure_isolated (n : Nat) (ops : List Op) (hv : ∀ op ∈ ops, op.lf < n)
    (c f : Nat) (es : List Edge) (fid : Nat → Bool)
    (hacc : acceptWrite (run (World.init n) ops) c f es fid = .ok ())
    (i j : Nat) (hi : i < (run (World.init n) ops).items.length) (hr : Reach es i j) :
    ∃ hj : j < (run (World.init n) ops).items.length,
      (run (World.init n) ops).items[j].lf = (run (World.init n) ops).items[i].lf := by
  induction hr with
  | refl => exact ⟨hi, rfl⟩
  | step _ hstep ih =>
    obtain ⟨hj, hlf⟩ := ih
    obtain ⟨e, he, rfl, rfl⟩ := hstep
    obtain ⟨ht, hsame, _⟩ := C07.accepted_references_resolve n ops hv c f es fid hacc e he hj
    exact ⟨ht, hsame.trans hlf⟩

/-- non-vacuity: a chain group → channel → axis within logical file 1 of an accepted two-file state -/
example :
    let w := run (World.init 2) [.origin 0 (some [48]) [79] none .ok, .item 0 11 (some [48]) [67] none .ok,
      .item 0 12 (some [48]) [70] none .ok, .origin 1 (some [49]) [79] none .ok, .item 1 11 (some [49]) [67] none .ok,
      .item 1 12 (some [49]) [70] none .ok, .item 1 2 (some [49]) [65] none .ok, .item 1 10 (some [49]) [71] none .ok]
    acceptWrite w 11 12 [⟨2, 1, true⟩, ⟨5, 4, true⟩, ⟨7, 4, false⟩, ⟨4, 6, false⟩] (fun _ => true) = .ok () ∧
    Reach [⟨2, 1, true⟩, ⟨5, 4, true⟩, ⟨7, 4, false⟩, ⟨4, 6, false⟩] 7 6 := by
  refine ⟨by decide +kernel, ?_⟩
  exact .step (.step (.refl 7) ⟨⟨7, 4, false⟩, by simp, rfl, rfl⟩) ⟨⟨4, 6, false⟩, by simp, rfl, rfl⟩

example : writable (run (World.init 2) [.origin 0 none [79] none .ok, .origin 1 none [80] none .ok]) = false := by
  decide +kernel
example : writable (run (World.init 2) [.origin 0 (some [65]) [79] none .ok, .origin 1 (some [66]) [80] none .ok]) = true := by
  decide +kernel

end Dlis.C18
