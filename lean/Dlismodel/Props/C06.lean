/-
  C06 — Primitive values are encoded exactly as their representation code prescribes.

  For each code the writer uses: (a) whenever the encoder succeeds, the *strict* decoder applied to the
  emitted bytes followed by arbitrary further bytes returns exactly the value and exactly those further
  bytes (so the consumed length is the emitted length); (b) the encoder succeeds exactly on the
  standard's value domain — everything else is an error, never wrapped / truncated / mis-prefixed.
  The encoders are the model of `write_struct*` (`Model/Prim.lean`), tied to the code by the C06
  correspondence stream.
-/
import Dlismodel.Proofs.Prim
import Dlismodel.Proofs.Float
namespace Dlis.C06
open Dlis

/-- USHORT / UNORM / ULONG (k = 1, 2, 4) -/
theorem unsigned_roundtrip (k : Nat) (v : Int) (bs rest : Bytes) (h : encU k v = .ok bs) :
    decU k (bs ++ rest) = some (v, rest) ∧ bs.length = k := ⟨decU_encU h rest, encU_length h⟩

theorem unsigned_domain (k : Nat) (v : Int) :
    (∃ bs, encU k v = .ok bs) ↔ (0 ≤ v ∧ v < (256 : Int) ^ k) := encU_ok_iff k v

/-- SSHORT / SNORM / SLONG (k = 1, 2, 4) -/
theorem signed_roundtrip (k : Nat) (hk : 0 < k) (v : Int) (bs rest : Bytes) (h : encS k v = .ok bs) :
    decS k (bs ++ rest) = some (v, rest) := decS_encS hk h rest

theorem signed_domain (k : Nat) (v : Int) :
    (∃ bs, encS k v = .ok bs) ↔ (-((256 : Int) ^ k / 2) ≤ v ∧ v < (256 : Int) ^ k / 2) := encS_ok_iff k v

/-- UVARI: domain 0 .. 2^30-1; 1/2/4-byte forms at the 127/128 and 16383/16384 boundaries -/
theorem uvari_roundtrip (v : Int) (bs rest : Bytes) (h : encUvari v = .ok bs) :
    decUvari (bs ++ rest) = some (v.toNat, rest) ∧ 0 ≤ v ∧
      bs.length = (if v < 128 then 1 else if v < 16384 then 2 else 4) :=
  ⟨decUvari_encUvari h rest, ((encUvari_ok_iff v).mp ⟨bs, h⟩).1, encUvari_length h⟩

theorem uvari_domain (v : Int) : (∃ bs, encUvari v = .ok bs) ↔ (0 ≤ v ∧ v < 2 ^ 30) := by
  have := encUvari_ok_iff v
  simpa using this

/-- ASCII: UVARI length prefix + the characters; only 7-bit text, length below 2^30 -/
theorem ascii_roundtrip (s : PStr) (bs rest : Bytes) (h : encAscii s = .ok bs) :
    decAscii (bs ++ rest) = some (s.map b8, rest) := decAscii_encAscii h rest

theorem ascii_domain (s : PStr) :
    (∃ bs, encAscii s = .ok bs) ↔ (isAscii s = true ∧ s.length < 2 ^ 30) := by
  have := encAscii_ok_iff s
  simpa using this

/-- IDENT (also UNITS, labels, set types/names, object names): one length byte, at most 255 characters -/
theorem ident_roundtrip (s : PStr) (bs rest : Bytes) (h : encIdent s = .ok bs) :
    decIdent (bs ++ rest) = some (s.map b8, rest) ∧ bs.length = 1 + s.length :=
  ⟨decIdent_encIdent h rest, encIdent_length h⟩

theorem ident_domain (s : PStr) :
    (∃ bs, encIdent s = .ok bs) ↔ (isAscii s = true ∧ s.length ≤ 255) := encIdent_ok_iff s

/-- DTIME: the UTC fields, zone code 2, millisecond rounded half-to-even and clamped to 999 -/
theorem dtime_roundtrip (t : DTime) (bs rest : Bytes) (h : encDtime t = .ok bs)
    (hm : 1 ≤ t.month ∧ t.month ≤ 12) (hd : 1 ≤ t.day ∧ t.day ≤ 31) (hh : t.hour ≤ 23)
    (hmi : t.minute ≤ 59) (hs : t.second ≤ 59) :
    decDtime (bs ++ rest) =
      some ({ y := (t.year - 1900).toNat, tz := 2, month := t.month, day := t.day, hour := t.hour,
              minute := t.minute, second := t.second, ms := msOfMicro t.micro }, rest)
    ∧ 1900 ≤ t.year ∧ t.year ≤ 2155 :=
  ⟨decDtime_encDtime h rest hm hd hh hmi hs, encDtime_year_range h⟩

/-- the written millisecond is the nearest one (ties to even), except that 999.5 ms and above clamp to 999 -/
theorem dtime_millisecond (us : Nat) (h : us < 1000000) :
    (msOfMicro us * 1000 ≤ us + 500 ∧ us ≤ msOfMicro us * 1000 + 500) ∨ (msOfMicro us = 999 ∧ 999500 ≤ us) :=
  msOfMicro_near us h

/-- OBNAME: origin (UVARI), copy (USHORT), name (IDENT) -/
theorem obname_roundtrip (o : ObName) (bs rest : Bytes) (h : encObname o = .ok bs) :
    decObname (bs ++ rest) =
      some ({ origin := o.origin.toNat, copy := o.copy.toNat, name := o.name.map b8 }, rest) :=
  decObname_encObname h rest

theorem obname_domain (o : ObName) :
    (∃ bs, encObname o = .ok bs) ↔
      (0 ≤ o.origin ∧ o.origin < 1073741824 ∧ 0 ≤ o.copy ∧ o.copy < 256 ∧ isAscii o.name = true ∧ o.name.length ≤ 255) :=
  encObname_ok_iff o

/-- OBJREF: set type (IDENT) + OBNAME -/
theorem objref_roundtrip (t : PStr) (o : ObName) (bs rest : Bytes) (h : encObjref t o = .ok bs) :
    decObjref (bs ++ rest) =
      some ((t.map b8, { origin := o.origin.toNat, copy := o.copy.toNat, name := o.name.map b8 }), rest) :=
  decObjref_encObjref h rest

/-- STATUS: 0 or 1 only -/
theorem status_roundtrip (v : Int) (bs rest : Bytes) (h : encStatus v = .ok bs) :
    decStatus (bs ++ rest) = some (v.toNat, rest) := decStatus_encStatus h rest

theorem status_domain (v : Int) : (∃ bs, encStatus v = .ok bs) ↔ (v = 0 ∨ v = 1) := encStatus_ok_iff v

/-- FSINGL / FDOUBL and all fixed-width channel values are written as the big-endian image of their bit
pattern (`beN`), which `rdN` inverts: bit-exactness for NaN payloads, ±0, ±inf is this identity. -/
theorem bits_roundtrip (k n : Nat) (rest : Bytes) (h : n < 256 ^ k) :
    rdN k (beN k n ++ rest) = some (n, rest) := rdN_beN k n rest h

/-! FSINGL of a Python float (a double): `struct.pack('>f', x)`, modelled on bit patterns by `f64ToF32`.
Magnitudes are compared exactly, as natural numbers (`f64Mag`: units of 2^-1074; `f32Mag`: units of 2^-149, defined
on all magnitude bit patterns, i.e. with the exponent range continued upwards). -/

/-- a value a single can hold is written exactly: a single widened to a double packs back to itself -/
theorem fsingl_exact_when_representable (s d : Nat) (hs : s < 2 ^ 32) (h : f32ToF64 s = some d) :
    f64ToF32 d = .ok s := f64ToF32_widen s d hs h

/-- any other finite double that is packed gets the double's sign and a finite single than which NO single is nearer;
where two are equally near, the one with the even significand -/
theorem fsingl_rounds_to_nearest (b r : Nat) (hfin : b / 2 ^ 52 % 2048 ≠ 2047) (h : f64ToF32 b = .ok r) :
    r / 2 ^ 31 = b / 2 ^ 63 ∧ r % 2 ^ 31 < 255 * 2 ^ 23 ∧
      (∀ t, dist (f64Mag b) (f32Mag (r % 2 ^ 31) * 2 ^ 925) ≤ dist (f64Mag b) (f32Mag t * 2 ^ 925)) ∧
      (∀ t, t ≠ r % 2 ^ 31 →
        dist (f64Mag b) (f32Mag (r % 2 ^ 31) * 2 ^ 925) = dist (f64Mag b) (f32Mag t * 2 ^ 925) → r % 2 = 0) :=
  have h1 := f64ToF32_nearest b r hfin h
  ⟨h1.1, h1.2.1, h1.2.2, fun t hne heq => f64ToF32_ties_to_even b r t hfin h hne heq⟩

/-- out of range is refused, nothing else is: a double is not packed iff it is finite and its magnitude is at least
`(2^25 - 1) * 2^103`, half-way between the largest finite single and 2^128 (here doubled, in units of 2^-1074); the
error is OverflowError -/
theorem fsingl_refuses_out_of_range (b : Nat) (e : Err) :
    f64ToF32 b = .error e ↔
      e = .overflow ∧ b / 2 ^ 52 % 2048 ≠ 2047 ∧ (2 ^ 25 - 1) * (2 ^ 253 * 2 ^ 925) ≤ 2 * f64Mag b :=
  f64ToF32_overflow_iff b e

/-- infinities and NaNs stay what they are, with their sign -/
theorem fsingl_special (b : Nat) (h : b / 2 ^ 52 % 2048 = 2047) :
    ∃ r, f64ToF32 b = .ok r ∧ r / 2 ^ 31 = b / 2 ^ 63 ∧ r / 2 ^ 23 % 256 = 255 ∧ (r % 2 ^ 23 = 0 ↔ b % 2 ^ 52 = 0) :=
  f64ToF32_special b h

/-! non-vacuity: concrete values meet the hypotheses -/
example : f64ToF32 0x3FB999999999999A = .ok 0x3DCCCCCD := by decide            -- 0.1
example : f64ToF32 0x47EFFFFFEFFFFFFF = .ok 0x7F7FFFFF := by decide            -- just below the threshold: largest single
example : f64ToF32 0x47EFFFFFF0000000 = .error .overflow := by decide          -- the threshold itself (a tie, to even)
example : f64ToF32 0x3690000000000000 = .ok 0 := by decide                     -- 2^-150: tie between 0 and 2^-149
example : f64ToF32 0x3690000000000001 = .ok 1 := by decide
example : encUvari 16383 = .ok [0xBF, 0xFF] := by decide
example : encUvari 16384 = .ok [0xC0, 0x00, 0x40, 0x00] := by decide
example : encUvari 1073741824 = .error .struct := by decide
example : encS 1 (-128) = .ok [0x80] := by decide
example : encIdent [65, 66] = .ok [2, 65, 66] := by decide
example : (encDtime { year := 1987, month := 4, day := 19, hour := 21, minute := 20, second := 15, micro := 620000 })
    = .ok [87, 0x24, 19, 21, 20, 15, 0x02, 0x6C] := by decide

end Dlis.C06
