/-
  C07 — Object identity is unique and every reference resolves in its logical file.

  Model: `Model/Api.lean` (registries, copy numbers, origin numbering / back-filling).  Proved for every history of
  add_* calls (valid or rejected, any interleaving between logical files):
  * `copy_unique_reachable`: two objects of one type and name added through one logical file never share a copy
    number, whatever sets of that type they are in (after the repair recorded in KNOWN_FINDINGS.json; before it the
    numbering was per set and the statement held per set only), hence (set type, origin, copy, name) identifies an
    object uniquely within a logical file's inventory;
  * `reference_bytes`: the bytes written for a reference (OBNAME / OBJREF attribute value, or the reference that
    opens an indirectly formatted record) are the encoding of the target's identity, which the strict decoder
    returns (C06), i.e. a reference decodes to the identity of the object passed by the user;
  * `records_isolated` (C18) gives "defined in the same logical file" for the objects; for *references* the code
    only checks the class of the target, so a reference to an object of another logical file is accepted
    (known finding, see DESIGN.md) — the theorem about references is therefore stated for the target's identity,
    not for its membership.
  * `origin_backfilled`: an object created before the first origin of its logical file carries that origin's
    reference afterwards.
-/
import Dlismodel.Proofs.Api
import Dlismodel.Proofs.Prim
namespace Dlis.C07
open Dlis

theorem copy_unique_reachable (n : Nat) (ops : List Op) (hv : ∀ op ∈ ops, op.lf < n)
    (i j : Nat) (hi : i < (run (World.init n) ops).items.length) (hj : j < (run (World.init n) ops).items.length)
    (hij : i ≠ j)
    (hl : (run (World.init n) ops).items[i].lf = (run (World.init n) ops).items[j].lf)
    (hk : (run (World.init n) ops).items[i].kind = (run (World.init n) ops).items[j].kind)
    (hn : (run (World.init n) ops).items[i].name = (run (World.init n) ops).items[j].name) :
    (run (World.init n) ops).items[i].copy ≠ (run (World.init n) ops).items[j].copy :=
  copy_unique _ (run_invariants n ops hv).2 i j hi hj hij hl hk hn

/-- the configuration that used to break it (two same-named objects of one type in differently named sets of one
logical file) -/
example :
    let w := run (World.init 1) [.origin 0 none [79] none .ok, .item 0 3 none [67] none .ok, .item 0 3 (some [83]) [67] none .ok,
      .item 0 3 none [67] none .ok]
    w.items.map (·.copy) = [0, 0, 1, 2] := by decide +kernel

/-- a reference is written as the target's (origin, copy, name) and reads back as exactly that -/
theorem reference_bytes (target : ObName) (b rest : Bytes) (h : encObname target = .ok b) :
    decObname (b ++ rest) = some ({ origin := target.origin.toNat, copy := target.copy.toNat,
                                    name := target.name.map b8 }, rest) :=
  decObname_encObname h rest

theorem objref_bytes (setType : PStr) (target : ObName) (b rest : Bytes) (h : encObjref setType target = .ok b) :
    decObjref (b ++ rest) = some ((setType.map b8, { origin := target.origin.toNat, copy := target.copy.toNat,
                                                     name := target.name.map b8 }), rest) :=
  decObjref_encObjref h rest

/-- back-filling: after the first origin of a logical file is added, no object registered in one of that
logical file's sets is left without an origin reference -/
theorem origin_backfilled (w : World) (lf : Nat) (r : Int) :
    ∀ it ∈ (backfill w lf r).items, it.key ∈ lfKeys w lf → it.origin.isSome := by
  intro it hit hk
  simp only [backfill, List.mem_map] at hit
  obtain ⟨x, _, rfl⟩ := hit
  by_cases hc : x.origin.isNone = true ∧ x.key ∈ lfKeys w lf
  · rw [if_pos hc]; rfl
  · rw [if_neg hc] at hk ⊢
    cases ho : x.origin with
    | some _ => rfl
    | none => exact absurd ⟨by simp [ho], hk⟩ hc

/-- a new object takes the explicit origin reference if one is given (and non-zero), else the reference of the
logical file's defining origin -/
theorem origin_choice (oref dflt : Option Int) :
    pickOrigin oref dflt = (match oref with | some r => if r ≠ 0 then some r else dflt | none => dflt) := rfl

example : (run (World.init 1) [.item 0 3 none [65] none .ok, .item 0 3 none [65] none .rejectLate,
    .origin 0 none [79] none .ok, .item 0 3 none [65] (some 7) .ok]).items.map (fun i => (i.origin, i.copy)) =
    [(some 0, 0), (some 0, 0), (some 7, 1)] := by decide +kernel

end Dlis.C07
