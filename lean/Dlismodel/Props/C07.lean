/-
  C07 — Object identity is unique and every reference resolves in its logical file.

  Model: `Model/Api.lean` (registries, copy numbers, origin numbering / back-filling).  Proved for every history of
  add_* calls (valid or rejected, any interleaving between logical files):
  * `copy_unique_reachable`: two objects of one type and name added through one logical file never share a copy
    number, whatever sets of that type they are in (after the repair recorded in KNOWN_FINDINGS.json; before it the
    numbering was per set and the statement held per set only), hence (set type, origin, copy, name) identifies an
    object uniquely within a logical file's inventory;
  * `reference_bytes`: the bytes written for a reference (OBNAME / OBJREF attribute value, or the reference that
    opens an indirectly formatted record) are the encoding of the target's identity, which the strict decoder
    returns (C06), i.e. a reference decodes to the identity of the object passed by the user;
  * `accepted_references_resolve` (write-time checks, `Model/Checks.lean`): in every reachable state that `write`
    accepts, every object held by an attribute of an object — a frame's channels included — was added through the
    same logical file as its holder, is emitted in one of that logical file's set records, and is the only object
    of that logical file with its (set type, name, copy number): the reference resolves, to exactly one object, in its
    logical file; `foreign_reference_refused` is the contrapositive the user sees, `own_references_accepted` says the
    reference check refuses nothing else (no false refusals), `frame_channels_registered` the same for a frame's
    channels.
  * `origin_backfilled`: an object created before the first origin of its logical file carries that origin's
    reference afterwards.
-/
import Dlismodel.Proofs.Api
import Dlismodel.Proofs.Checks
import Dlismodel.Proofs.Prim
namespace Dlis.C07
open Dlis

theorem copy_unique_reachable (n : Nat) (ops : List Op) (hv : ∀ op ∈ ops, op.lf < n)
    (i j : Nat) (hi : i < (run (World.init n) ops).items.length) (hj : j < (run (World.init n) ops).items.length)
    (hij : i ≠ j)
    (hl : (run (World.init n) ops).items[i].lf = (run (World.init n) ops).items[j].lf)
    (hk : (run (World.init n) ops).items[i].kind = (run (World.init n) ops).items[j].kind)
    (hn : (run (World.init n) ops).items[i].name = (run (World.init n) ops).items[j].name) :
    (run (World.init n) ops).items[i].copy ≠ (run (World.init n) ops).items[j].copy :=
  copy_unique _ (run_invariants n ops hv).2 i j hi hj hij hl hk hn

/-- the configuration that used to break it (two same-named objects of one type in differently named sets of one
logical file) -/
example :
    let w := run (World.init 1) [.origin 0 none [79] none .ok, .item 0 3 none [67] none .ok, .item 0 3 (some [83]) [67] none .ok,
      .item 0 3 none [67] none .ok]
    w.items.map (·.copy) = [0, 0, 1, 2] := by decide +kernel

/-- a reference is written as the target's (origin, copy, name) and reads back as exactly that -/
theorem reference_bytes (target : ObName) (b rest : Bytes) (h : encObname target = .ok b) :
    decObname (b ++ rest) = some ({ origin := target.origin.toNat, copy := target.copy.toNat,
                                    name := target.name.map b8 }, rest) :=
  decObname_encObname h rest

theorem objref_bytes (setType : PStr) (target : ObName) (b rest : Bytes) (h : encObjref setType target = .ok b) :
    decObjref (b ++ rest) = some ((setType.map b8, { origin := target.origin.toNat, copy := target.copy.toNat,
                                                     name := target.name.map b8 }), rest) :=
  decObjref_encObjref h rest

/-- back-filling: after the first origin of a logical file is added, no object registered in one of that
logical file's sets is left without an origin reference -/
theorem origin_backfilled (w : World) (lf : Nat) (r : Int) :
    ∀ it ∈ (backfill w lf r).items, it.key ∈ lfKeys w lf → it.origin.isSome := by
  intro it hit hk
  simp only [backfill, List.mem_map] at hit
  obtain ⟨x, _, rfl⟩ := hit
  by_cases hc : x.origin.isNone = true ∧ x.key ∈ lfKeys w lf
  · rw [if_pos hc]; rfl
  · rw [if_neg hc] at hk ⊢
    cases ho : x.origin with
    | some _ => rfl
    | none => exact absurd ⟨by simp [ho], hk⟩ hc

/-- a new object takes the explicit origin reference if one is given (and non-zero), else the reference of the
logical file's defining origin -/
theorem origin_choice (oref dflt : Option Int) :
    pickOrigin oref dflt = (match oref with | some r => if r ≠ 0 then some r else dflt | none => dflt) := rfl

example : (run (World.init 1) [.item 0 3 none [65] none .ok, .item 0 3 none [65] none .rejectLate,
    .origin 0 none [79] none .ok, .item 0 3 none [65] (some 7) .ok]).items.map (fun i => (i.origin, i.copy)) =
    [(some 0, 0), (some 0, 0), (some 7, 1)] := by decide +kernel

/-! ### every reference resolves in its logical file (write-time checks) -/

/-- In every state reachable by add_* calls that `write` accepts, with any reference edges between the objects: the
object a reference points to was added through the holder's logical file, is emitted in a set record of that
logical file, and no other object of that logical file has its set type, name and copy number. -/
theorem accepted_references_resolve (n : Nat) (ops : List Op) (hv : ∀ op ∈ ops, op.lf < n)
    (c f : Nat) (es : List Edge) (fid : Nat → Bool)
    (hacc : acceptWrite (run (World.init n) ops) c f es fid = .ok ())
    (e : Edge) (he : e ∈ es) (hh : e.holder < (run (World.init n) ops).items.length) :
    ∃ ht : e.target < (run (World.init n) ops).items.length,
      let w := run (World.init n) ops
      w.items[e.target].lf = w.items[e.holder].lf ∧
      (∃ its, (w.items[e.target].key, its) ∈ setRecords w w.items[e.holder].lf ∧ w.items[e.target] ∈ its) ∧
      ∀ j (hj : j < w.items.length), w.items[j].lf = w.items[e.holder].lf → w.items[j].kind = w.items[e.target].kind →
        w.items[j].name = w.items[e.target].name → w.items[j].copy = w.items[e.target].copy → j = e.target := by
  obtain ⟨hreg, hcopy⟩ := run_invariants n ops hv
  generalize run (World.init n) ops = w at *
  obtain ⟨hchk, hw⟩ := acceptWrite_ok w c f es fid hacc
  have hns : NoShared w := by
    unfold writable at hw
    simp only [Bool.and_eq_true, Bool.not_eq_eq_eq_not, Bool.not_true] at hw
    exact noShared_of_sharedSet w hw.2
  have hkey := hreg.itemKey _ (List.getElem_mem hh)
  have hlf : w.items[e.holder].lf < w.keys.length := lfKeys_mem_lt w _ _ hkey
  have hrefs := (checkObjects_ok w _ c f es fid (hchk _ hlf)).2.2.2
  have hin : inLf w w.items[e.holder].lf e.holder = true := (inLf_iff w _ _).mpr ⟨hh, hkey⟩
  have htin := (checkReferences_ok_iff w _ es).mp hrefs e he hin
  obtain ⟨ht, _⟩ := (inLf_iff w _ _).mp htin
  have hsame := (inLf_iff_lf w hreg hns _ _ ht).mp htin
  refine ⟨ht, hsame, ?_, ?_⟩
  · have := records_complete w hreg _ (List.getElem_mem ht)
    rw [hsame] at this; exact this
  · intro j hj h1 h2 h3 h4
    by_cases hjt : j = e.target
    · exact hjt
    · exact absurd h4 (copy_unique w hcopy j e.target hj ht hjt (by rw [h1, hsame]) h2 h3)

/-- what the user sees: a specification in which some attribute holds an object of another logical file is refused -/
theorem foreign_reference_refused (n : Nat) (ops : List Op) (hv : ∀ op ∈ ops, op.lf < n)
    (c f : Nat) (es : List Edge) (fid : Nat → Bool) (e : Edge) (he : e ∈ es)
    (hh : e.holder < (run (World.init n) ops).items.length) (ht : e.target < (run (World.init n) ops).items.length)
    (hne : (run (World.init n) ops).items[e.target].lf ≠ (run (World.init n) ops).items[e.holder].lf) :
    acceptWrite (run (World.init n) ops) c f es fid ≠ .ok () := by
  intro hacc
  obtain ⟨_, h, _⟩ := accepted_references_resolve n ops hv c f es fid hacc e he hh
  exact hne h

/-- no false refusals: when no set is shared, the reference check of a logical file passes if every reference stays
within the logical file of its holder (and all targets exist) -/
theorem own_references_accepted (n : Nat) (ops : List Op) (hv : ∀ op ∈ ops, op.lf < n) (es : List Edge)
    (hns : sharedSet (run (World.init n) ops) = false)
    (hown : ∀ e ∈ es, ∀ hh : e.holder < (run (World.init n) ops).items.length,
      ∃ ht : e.target < (run (World.init n) ops).items.length,
        (run (World.init n) ops).items[e.target].lf = (run (World.init n) ops).items[e.holder].lf) (lf : Nat) :
    checkReferences (run (World.init n) ops) lf es = .ok () := by
  obtain ⟨hreg, _⟩ := run_invariants n ops hv
  generalize run (World.init n) ops = w at *
  have hn := noShared_of_sharedSet w hns
  rw [checkReferences_ok_iff]
  intro e he hin
  obtain ⟨hh, _⟩ := (inLf_iff w _ _).mp hin
  obtain ⟨ht, hsame⟩ := hown e he hh
  have h1 := (inLf_iff_lf w hreg hn lf _ hh).mp hin
  exact (inLf_iff_lf w hreg hn lf _ ht).mpr (by rw [hsame, h1])

/-- frame to channels: in an accepted state every object a frame of a logical file holds as a channel is an object of
a CHANNEL set of that logical file -/
theorem frame_channels_registered (n : Nat) (ops : List Op) (c f : Nat) (es : List Edge) (fid : Nat → Bool)
    (hacc : acceptWrite (run (World.init n) ops) c f es fid = .ok ())
    (e : Edge) (he : e ∈ es) (hvia : e.viaChannels = true) (lf : Nat) (hlf : lf < (run (World.init n) ops).keys.length)
    (hh : e.holder < (run (World.init n) ops).items.length)
    (hk : (run (World.init n) ops).items[e.holder].kind = f)
    (hin : (run (World.init n) ops).items[e.holder].key ∈ lfKeys (run (World.init n) ops) lf) :
    ∃ ht : e.target < (run (World.init n) ops).items.length,
      (run (World.init n) ops).items[e.target].kind = c ∧
      (run (World.init n) ops).items[e.target].key ∈ lfKeys (run (World.init n) ops) lf := by
  generalize run (World.init n) ops = w at *
  obtain ⟨hchk, _⟩ := acceptWrite_ok w c f es fid hacc
  have hfc := (checkObjects_ok w lf c f es fid (hchk lf hlf)).2.1
  unfold checkFrameChannels at hfc
  split at hfc
  · rename_i hall
    have h := List.all_eq_true.mp hall e he
    have hinl : inLf w lf e.holder = true := (inLf_iff w _ _).mpr ⟨hh, hin⟩
    simp only [hvia, hinl, List.getElem?_eq_getElem hh, Option.map_some, hk, decide_true, Bool.and_self,
      Bool.not_true, Bool.false_or, Bool.and_eq_true, decide_eq_true_eq] at h
    obtain ⟨ht, hkk⟩ := (inLf_iff w _ _).mp h.1
    refine ⟨ht, ?_, hkk⟩
    have h2 := h.2
    rw [List.getElem?_eq_getElem ht] at h2
    simpa using h2
  · cases hfc

/-- non-vacuity: two logical files, a frame holding its own channel (accepted) / the other file's channel (refused) -/
example :
    let w := run (World.init 2) [.origin 0 (some [48]) [79] none .ok, .item 0 11 (some [48]) [67] none .ok,
      .item 0 12 (some [48]) [70] none .ok, .origin 1 (some [49]) [79] none .ok, .item 1 11 (some [49]) [67] none .ok,
      .item 1 12 (some [49]) [70] none .ok]
    acceptWrite w 11 12 [⟨2, 1, true⟩, ⟨5, 4, true⟩, ⟨4, 3, false⟩] (fun _ => true) = .ok () ∧
    acceptWrite w 11 12 [⟨2, 4, true⟩] (fun _ => true) = .error .channelNotRegistered ∧
    acceptWrite w 11 12 [⟨4, 1, false⟩] (fun _ => true) = .error .foreignReference := by decide +kernel

end Dlis.C07
