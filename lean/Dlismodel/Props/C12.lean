/-
  C12 — Fail-closed: a write either raises or yields a faithful, well-formed file (capstone).

  `modelWrite` composes the layers.  `write_sound`: whenever it returns bytes, the strict physical reader returns
  exactly the logical records of the specification (C02), and each record body decodes to what it was built
  from: set records under the component grammar to their description (C04/C05), no-format records to reference +
  payload (C16), frame records to reference, number and row (C03).  The `rejects_*` theorems are the error
  branches for inputs the format cannot represent.
  PARTIAL: which *Python* inputs reach the model (type checks, numpy dtype validation, completeness checks) is
  tied by the C12 malformed stream.
-/
import Dlismodel.Model.File
import Dlismodel.Props.C02
import Dlismodel.Props.C03
import Dlismodel.Props.C04
import Dlismodel.Props.C16
import Dlismodel.Props.C11
import Dlismodel.Proofs.Convert
import Dlismodel.Props.C07
import Dlismodel.Props.C18
namespace Dlis.C12
open Dlis

theorem mapM_ok_mem {α β : Type} (f : α → Except Err β) (l : List α) (r : List β) (h : l.mapM f = .ok r) :
    ∀ y ∈ r, ∃ x ∈ l, f x = .ok y := by
  induction l generalizing r with
  | nil => simp [List.mapM_nil, pure, Except.pure] at h; subst h; simp
  | cons a as ih =>
    simp only [List.mapM_cons, bind_ok, pure_ok] at h
    obtain ⟨b, hb, bs, hbs, rfl⟩ := h
    intro y hy
    simp only [List.mem_cons] at hy
    rcases hy with rfl | hy
    · exact ⟨a, by simp, hb⟩
    · obtain ⟨x, hx, hfx⟩ := ih bs hbs y hy
      exact ⟨x, by simp [hx], hfx⟩

/-- every record of a logical file carries a one-byte type -/
theorem lfRecs_types (a : WriteArgs) (l : LfSpec) (rs : List Rec) (ht : ∀ p ∈ l.sets, p.1 < 256)
    (h : lfRecs a l = .ok rs) : ∀ r ∈ rs, r.type < 256 := by
  simp only [lfRecs, bind_ok, pure_ok] at h
  obtain ⟨hb, _, ss, hss, ns, hns, fs, hfs, rfl⟩ := h
  intro r hr
  simp only [List.mem_cons, List.mem_append, List.mem_flatten] at hr
  rcases hr with ((rfl | hr) | hr) | ⟨fl, hfl, hr⟩
  · show (0 : Nat) < 256; decide
  · obtain ⟨p, hp, hf⟩ := mapM_ok_mem setRec l.sets ss hss r hr
    simp only [setRec, bind_ok, pure_ok] at hf
    obtain ⟨b, _, rfl⟩ := hf
    exact ht p hp
  · obtain ⟨p, _, hf⟩ := mapM_ok_mem noFormatRec l.noformat ns hns r hr
    simp only [noFormatRec, bind_ok, pure_ok] at hf
    obtain ⟨b, _, rfl⟩ := hf
    show (1 : Nat) < 256; decide
  · obtain ⟨f, _, hf⟩ := mapM_ok_mem (lfFrameRecs a) l.frames fs hfs fl hfl
    simp only [lfFrameRecs, bind_ok, pure_ok] at hf
    obtain ⟨bs, _, rfl⟩ := hf
    simp only [List.mem_map] at hr
    obtain ⟨b, _, rfl⟩ := hr
    show (0 : Nat) < 256; decide

/-- capstone: a successful write is readable back, record for record -/
theorem write_sound (c : Cfg) (a : WriteArgs) (lfs : List LfSpec) (out : Bytes)
    (ht : ∀ l ∈ lfs, ∀ p ∈ l.sets, p.1 < 256) (h : modelWrite c a lfs = .ok out) :
    ∃ rs, lfs.mapM (lfRecs a) = .ok rs ∧
      readFile c out = some (rs.flatten.filter (fun r => !r.body.isEmpty)) := by
  simp only [modelWrite, bind_ok] at h
  obtain ⟨rs, hrs, hf⟩ := h
  refine ⟨rs, hrs, C02.segmentation_lossless c rs.flatten out ?_ hf⟩
  intro r hr
  simp only [List.mem_flatten] at hr
  obtain ⟨rl, hrl, hr⟩ := hr
  obtain ⟨l, hl, hlr⟩ := mapM_ok_mem (lfRecs a) lfs rs hrs rl hrl
  exact lfRecs_types a l rl (ht l hl) hlr r hr

/-- ... and every record body decodes to what it was built from -/
theorem set_record_decodes (p : Nat × SetDesc) (r : Rec) (hs : SetOk p.2) (hne : p.2.objects ≠ [])
    (h : setRec p = .ok r) : r.isEflr = true ∧ r.type = p.1 ∧ ∃ d, parseEflr r.body = some d ∧ SetMatches p.2 d := by
  simp only [setRec, bind_ok, pure_ok] at h
  obtain ⟨b, hb, rfl⟩ := h
  exact ⟨rfl, rfl, C04.parseEflr_setBody p.2 b hs hne hb⟩

theorem noformat_record_decodes (p : ObName × Bytes) (r : Rec) (h : noFormatRec p = .ok r) :
    r.isEflr = false ∧ r.type = 1 ∧
      decNoFormat r.body = some ({ origin := p.1.origin.toNat, copy := p.1.copy.toNat, name := p.1.name.map b8 }, p.2) := by
  simp only [noFormatRec, bind_ok, pure_ok] at h
  obtain ⟨b, hb, rfl⟩ := h
  exact ⟨rfl, rfl, C16.noformat_roundtrip p.1 p.2 b hb⟩

/-! ### inputs that cannot be represented are errors -/

theorem rejects_long_ident (s : PStr) (h : s.length > 255) : encIdent s = .error .value := by
  simp [encIdent, h]

theorem rejects_non_ascii (s : PStr) (h : isAscii s = false) :
    (∃ e, encIdent s = .error e) ∧ (∃ e, encAscii s = .error e) := by
  constructor
  · cases he : encIdent s with
    | error e => exact ⟨e, rfl⟩
    | ok b => have := (encIdent_ok_iff s).mp ⟨b, he⟩; simp [h] at this
  · cases he : encAscii s with
    | error e => exact ⟨e, rfl⟩
    | ok b => have := (encAscii_ok_iff s).mp ⟨b, he⟩; simp [h] at this

theorem rejects_out_of_range (k : Nat) (v : Int) :
    (¬ (0 ≤ v ∧ v < (256 : Int) ^ k) → ∃ e, encU k v = .error e) ∧
    (¬ (-((256 : Int) ^ k / 2) ≤ v ∧ v < (256 : Int) ^ k / 2) → ∃ e, encS k v = .error e) ∧
    (¬ (0 ≤ v ∧ v < 1073741824) → ∃ e, encUvari v = .error e) := by
  refine ⟨?_, ?_, ?_⟩
  · intro h
    cases he : encU k v with
    | error e => exact ⟨e, rfl⟩
    | ok b => exact absurd ((encU_ok_iff k v).mp ⟨b, he⟩) h
  · intro h
    cases he : encS k v with
    | error e => exact ⟨e, rfl⟩
    | ok b => exact absurd ((encS_ok_iff k v).mp ⟨b, he⟩) h
  · intro h
    cases he : encUvari v with
    | error e => exact ⟨e, rfl⟩
    | ok b => exact absurd ((encUvari_ok_iff v).mp ⟨b, he⟩) h

theorem rejects_missing_dataset (src : DataSrc) (pre post : List PStr) (ds : PStr)
    (h : lookupDs src ds = none) : frameRowsOf src (pre ++ ds :: post) = .error .value := by
  have : (pre ++ ds :: post).mapM (lookupDs src) = none := by
    induction pre with
    | nil => simp [List.mapM_cons, h]
    | cons p ps ih =>
      simp only [List.cons_append, List.mapM_cons]
      cases lookupDs src p <;> simp [ih]
  simp [frameRowsOf, this]

theorem rejects_unequal_rows (src : DataSrc) (mapping : List PStr) (c0 : List Slot) (cols : List (List Slot))
    (hm : mapping.mapM (lookupDs src) = some (c0 :: cols)) (hne : ∃ c ∈ cols, c.length ≠ c0.length) :
    frameRowsOf src mapping = .error .value := by
  obtain ⟨c, hc, hl⟩ := hne
  have : (c0 :: cols).all (fun c => c.length == c0.length) = false := by
    simp only [List.all_cons, beq_self_eq_true, Bool.true_and, List.all_eq_false]
    exact ⟨c, hc, by simpa using hl⟩
  simp [frameRowsOf, hm, this]

/-- a degenerate but representable value — the empty list — is written faithfully: count 0, no value -/
theorem empty_list_faithful (a : AttrSt) (h0 : a.vals = []) (hl : a.isList = true) :
    a.count = 0 ∧ descByte a % 2 = 0 ∧ descByte a / 8 % 2 = 1 := C04.empty_list_encoding a h0 hl

/-! ### fail-closed at the attribute setters (`Model/Convert.lean`) -/

/-- a text attribute refuses everything that is not a `str`; a numeric one everything that is not a number; a
status one every number other than 0 and 1; a reference attribute every item of another type -/
theorem text_rejects_non_str {hc : Bool} {rc : Except Err (Option Nat)} {mem : List PStr} (v : PyVal)
    (h : ∀ s ec p, v ≠ .str s ec p) : applyConv .text hc rc mem v = .error .type := by
  cases v <;> simp [applyConv] ; exact absurd rfl (h _ _ _)

theorem numeric_rejects_non_number {hc intOnly : Bool} {rc : Option Nat} {mem : List PStr} (v : PyVal)
    (h : isNumber v = false) : applyConv (.numeric intOnly) hc (.ok rc) mem v = .error .type := by
  cases v <;> simp [isNumber] at h <;> simp [applyConv, intParser, floatParser, isNumber] <;>
    (repeat' split) <;> rfl

theorem numeric_int_rejects_fraction {hc : Bool} {rc : Except Err (Option Nat)} {mem : List PStr} (f : Nat)
    (h : f64ToInt f = none) : applyConv (.numeric true) hc rc mem (.float f) = .error .value := by
  simp [applyConv, intParser, h]

theorem status_rejects_other_numbers {hc : Bool} {rc : Except Err (Option Nat)} {mem : List PStr} (i : Int)
    (h : i ≠ 0 ∧ i ≠ 1) : applyConv .status hc rc mem (.int i) = .error .value := by
  simp [applyConv, h.1, h.2]

theorem reference_rejects_other_type {hc : Bool} {rc : Except Err (Option Nat)} {mem : List PStr} (c : String)
    (t : PStr) (o : ObName) (h : setTypeStr t ≠ c) : applyConv (.eflr (some c)) hc rc mem (.obj t o) = .error .type := by
  simp [applyConv, h]

/-- a rejected value leaves the attribute as it was -/
theorem rejected_assignment_keeps_state (a : AttrSpec) (hc : Bool) (mem um : List PStr) (st : AttrState) (v : PyVal)
    (ps : List Part) (e : Err) (h : setValue a hc mem st v = .error e) :
    assignParts a hc mem um st (.value v :: ps) = (st, some e) := by
  simp [assignParts, h]

/-! ### fail-closed before the first byte: the write-time object checks (`Model/Checks.lean`) -/

/-- a logical file without an origin, without a channel or without a frame: `write` refuses -/
theorem rejects_incomplete_logical_file (w : World) (c f : Nat) (es : List Edge) (fid : Nat → Bool) (lf : Nat)
    (hlf : lf < w.keys.length)
    (h : (originsOfLf w lf).isEmpty = true ∨ (itemsOfKind w lf c).isEmpty = true ∨ (itemsOfKind w lf f).isEmpty = true) :
    acceptWrite w c f es fid ≠ .ok () := by
  intro hacc
  have hc := (checkObjects_ok w lf c f es fid ((acceptWrite_ok w c f es fid hacc).1 lf hlf)).1
  unfold checkCompleteness at hc
  rcases h with h | h | h
  · simp [h] at hc
  · by_cases h1 : (originsOfLf w lf).isEmpty = true
    · simp [h1] at hc
    · simp [h1, h] at hc
  · by_cases h1 : (originsOfLf w lf).isEmpty = true
    · simp [h1] at hc
    · by_cases h2 : (itemsOfKind w lf c).isEmpty = true
      · simp [h1, h2] at hc
      · simp [h1, h2, h] at hc

/-- a non-empty set registered by two logical files (whatever lies between them): `write` refuses -/
theorem rejects_shared_set (w : World) (c f : Nat) (es : List Edge) (fid : Nat → Bool) (a b : Nat) (k : Key)
    (hab : a < b) (hb : b < w.keys.length) (ka : k ∈ lfKeys w a) (kb : k ∈ lfKeys w b) (hne : itemsOfKey w k ≠ []) :
    acceptWrite w c f es fid ≠ .ok () := by
  intro hacc
  have hw := (acceptWrite_ok w c f es fid hacc).2
  rw [C18.shared_set_rejected w a b k hab hb ka kb hne] at hw
  exact Bool.noConfusion hw

/-- a reference to an object of another logical file: `write` refuses (C07) -/
theorem rejects_foreign_reference (n : Nat) (ops : List Op) (hv : ∀ op ∈ ops, op.lf < n)
    (c f : Nat) (es : List Edge) (fid : Nat → Bool) (e : Edge) (he : e ∈ es)
    (hh : e.holder < (run (World.init n) ops).items.length) (ht : e.target < (run (World.init n) ops).items.length)
    (hne : (run (World.init n) ops).items[e.target].lf ≠ (run (World.init n) ops).items[e.holder].lf) :
    acceptWrite (run (World.init n) ops) c f es fid ≠ .ok () :=
  C07.foreign_reference_refused n ops hv c f es fid e he hh ht hne

/-- non-vacuity: three logical files, the first and the third sharing a set -/
example :
    let w := run (World.init 3) [.origin 0 (some [48]) [79] none .ok, .item 0 11 (some [48]) [67] none .ok,
      .item 0 12 (some [48]) [70] none .ok, .origin 1 (some [49]) [79] none .ok, .item 1 11 (some [49]) [67] none .ok,
      .item 1 12 (some [49]) [70] none .ok, .origin 2 (some [50]) [79] none .ok, .item 2 11 (some [50]) [67] none .ok,
      .item 2 12 (some [50]) [70] none .ok, .item 0 1 none [90] none .ok, .item 2 1 none [90] none .ok]
    acceptWrite w 11 12 [] (fun _ => true) = .error .sharedSet := by decide +kernel

end Dlis.C12
