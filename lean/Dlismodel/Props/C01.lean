/-
  C01 — Physical layout: label, visible records and segments are well-formed.

  `readSegs` accepts a byte string iff it is: the 80-byte label whose five justified fields are exactly those
  of the configuration (`checkSul`), followed to the very end by visible records, each with a length field
  that is even, between 20 and the configured maximum and equal to the bytes present, the 0xFF 0x01 marker,
  and a body tiled exactly by segments whose declared length is even, at least 16 and equal to the bytes
  present, whose reserved attribute bits (encryption, encryption packet, checksum, trailing length) are clear
  and whose padding bit is set iff a pad count 1..len is found at the end (`Model/Parse.lean`).
  The theorem: every successful `frameFile` output is accepted, for every record list and configuration.
  `layout_explicit` spells the same out without the reader.
-/
import Dlismodel.Proofs.Seg
namespace Dlis.C01
open Dlis

theorem readSegs_frameFile (c : Cfg) (recs : List Rec) (out : Bytes) (ht : ∀ r ∈ recs, r.type < 256)
    (h : frameFile c recs = .ok out) :
    readSegs c out = some (recs.flatMap (segsOf (c.vrl.toNat - 8))) := by
  have hr := readFile_frameFile c recs out ht h
  unfold readFile at hr
  unfold readSegs
  split at hr; · simp at hr
  rename_i hc
  rw [if_neg hc]
  -- re-derive the parse result (the reader is deterministic)
  unfold frameFile at h
  split at h; · simp at h
  rename_i hv
  have hv : vrlValid c.vrl = true := by
    cases hx : vrlValid c.vrl <;> simp_all
  simp only [bind_ok, pure_ok] at h
  obtain ⟨sul, hsul, rfl⟩ := h
  have hv' := vrlValid_spec hv
  have hsl := sulBytes_length hsul
  have hcap : 12 ≤ c.vrl.toNat - 8 := by omega
  have hsegs : ∀ s ∈ recs.flatMap (segsOf (c.vrl.toNat - 8)), SegOk (c.vrl.toNat - 8) s := by
    intro s hs
    simp only [List.mem_flatMap] at hs
    obtain ⟨r, hr, hs⟩ := hs
    exact segsOf_ok _ hcap r (ht r hr) s hs
  have : List.drop 80 (sul ++ frameRecs c.vrl.toNat recs) = frameRecs c.vrl.toNat recs := by
    rw [← hsl, List.drop_left]
  rw [this]
  unfold frameRecs
  have hfuel : (recs.flatMap (segsOf (c.vrl.toNat - 8))).length ≤
      (sul ++ ((recs.flatMap (segsOf (c.vrl.toNat - 8))).map fun s => encVR (encSeg s)).flatten).length := by
    have := flatten_length_ge ((recs.flatMap (segsOf (c.vrl.toNat - 8))).map fun s => encVR (encSeg s))
      (by intro x hx; simp only [List.mem_map] at hx; obtain ⟨s, _, rfl⟩ := hx; rw [encVR_length]; omega)
    simp at this ⊢
    omega
  exact parseVRs_map c.vrl.toNat (by omega) (by omega) (by omega) _ _ hsegs hfuel

/-- physical layout (C01): every successful output is accepted by the strict physical reader -/
theorem layout_wellformed (c : Cfg) (recs : List Rec) (out : Bytes) (ht : ∀ r ∈ recs, r.type < 256)
    (h : frameFile c recs = .ok out) : ∃ segs, readSegs c out = some segs :=
  ⟨_, readSegs_frameFile c recs out ht h⟩

/-- the same, spelled out: label of 80 bytes, then one visible record per segment; every segment length is
even, between 16 and the record length minus 4; every visible record length is even, between 20 and the
maximum; the number of pad bytes is the pad count written in each of them (at most 12, and exactly the
parity byte once the body has 12 bytes) -/
theorem layout_explicit (c : Cfg) (recs : List Rec) (out : Bytes) (ht : ∀ r ∈ recs, r.type < 256)
    (h : frameFile c recs = .ok out) :
    ∃ sul, sulBytes c = .ok sul ∧ sul.length = 80 ∧
      out = sul ++ ((recs.flatMap (segsOf (c.vrl.toNat - 8))).map (fun s => encVR (encSeg s))).flatten ∧
      ∀ s ∈ recs.flatMap (segsOf (c.vrl.toNat - 8)),
        (encSeg s).length = segLen s ∧ 16 ≤ segLen s ∧ segLen s % 2 = 0 ∧ (segLen s : Int) + 4 ≤ c.vrl ∧
        (encVR (encSeg s)).length = segLen s + 4 ∧ padLen s.payload.length ≤ 12 ∧
        (12 ≤ s.payload.length → padLen s.payload.length = s.payload.length % 2) := by
  unfold frameFile at h
  split at h; · simp at h
  rename_i hv
  have hv : vrlValid c.vrl = true := by
    cases hx : vrlValid c.vrl <;> simp_all
  simp only [bind_ok, pure_ok] at h
  obtain ⟨sul, hsul, rfl⟩ := h
  have hv' := vrlValid_spec hv
  refine ⟨sul, hsul, sulBytes_length hsul, rfl, ?_⟩
  intro s hs
  simp only [List.mem_flatMap] at hs
  obtain ⟨r, hr, hs⟩ := hs
  have hok := segsOf_ok (c.vrl.toNat - 8) (by omega) r (ht r hr) s hs
  have hb := segLen_bounds (c.vrl.toNat - 8) s (by omega) (by omega) hok
  have hp := padLen_spec s.payload.length
  refine ⟨encSeg_length s, hb.1, hb.2.2, by omega, by rw [encVR_length, encSeg_length], hp.2.2.1, hp.2.2.2.1⟩

/-- the label is exactly the five justified fields of the configuration -/
theorem label_fields (c : Cfg) (sul : Bytes) (h : sulBytes c = .ok sul) :
    ∃ a b d e f, justify c.seq 4 false = .ok a ∧ justify sV100 5 true = .ok b ∧ justify sRECORD 6 false = .ok d ∧
      justify (intStr c.vrl) 5 false = .ok e ∧ justify c.setId 60 true = .ok f ∧ sul = a ++ b ++ d ++ e ++ f := by
  simp only [sulBytes, bind_ok, pure_ok] at h
  obtain ⟨a, ha, b, hb, d, hd, e, he, f, hf, rfl⟩ := h
  exact ⟨a, b, d, e, f, ha, hb, hd, he, hf, rfl⟩

example : sulBytes { vrl := 8192, seq := [49], setId := [65, 66] } =
    .ok ([32, 32, 32, 49] ++ [86, 49, 46, 48, 48] ++ [82, 69, 67, 79, 82, 68] ++ [32, 56, 49, 57, 50]
      ++ ([65, 66] ++ List.replicate 58 32)) := by decide +kernel

end Dlis.C01
