/-
  C17 — High-compatibility mode enforces its restrictions and never leaks.
  PARTIAL: the regular-expression engine (`re.fullmatch`) is trusted to implement the pattern pinned by
  Obligations.hcPattern_eq; the correspondence enumerates every code point < 256 (and samples beyond) in every
  position.  That *every* restricted aspect is checked on the path to a successful write is tied by the C17
  correspondence (each aspect violated / met, inside / outside the mode), not by a whole-pipeline theorem.
-/
import Dlismodel.Model.Hc
import Dlismodel.Generated.Obligations
import Dlismodel.Proofs.Convert
import Dlismodel.Proofs.Checks
namespace Dlis.C17
open Dlis

theorem run_append (s : HcState) (a b : List HcOp) : hcRun s (a ++ b) = hcRun (hcRun s a) b := by
  simp [hcRun, List.foldl_append]

/-- leaving the context — normally or by an exception, nested or not, whatever calls (failing or not) happen
inside — restores the previous mode: after any well-bracketed sequence the flag and the stack are as before -/
theorem hc_restored (ops : List HcOp) (h : Bracketed ops) : ∀ s, hcRun s ops = s := by
  induction h with
  | nil => intro s; rfl
  | other _ ih => intro s; simp only [hcRun, List.foldl_cons, hcStep]; exact ih s
  | @ctx a b _ _ iha ihb =>
    intro s
    have e : HcOp.enter :: a ++ HcOp.leave :: b = [HcOp.enter] ++ a ++ [HcOp.leave] ++ b := by simp
    rw [e, run_append, run_append, run_append]
    have h1 : hcRun s [HcOp.enter] = { flag := true, saved := s.flag :: s.saved } := rfl
    rw [h1, iha]
    have h2 : hcRun { flag := true, saved := s.flag :: s.saved } [HcOp.leave] = s := by
      simp [hcRun, hcStep]
    rw [h2, ihb]

/-- inside the context the mode is on -/
theorem hc_on_inside (s : HcState) (inner : List HcOp) (h : Bracketed inner) :
    (hcRun s (HcOp.enter :: inner)).flag = true := by
  have e : HcOp.enter :: inner = [HcOp.enter] ++ inner := rfl
  rw [e, run_append, hc_restored inner h]
  rfl

/-- names: in the mode a string is accepted only if it matches [A-Z0-9_-]+; outside everything is accepted -/
theorem names_restricted (s : PStr) :
    ((∃ r, validateString true s = .ok r) ↔ (s ≠ [] ∧ ∀ c ∈ s, hcChar c = true)) ∧ validateString false s = .ok s := by
  constructor
  · unfold validateString hcString
    simp only [Bool.not_true, Bool.false_eq_true, ↓reduceIte]
    constructor
    · intro ⟨r, h⟩
      split at h
      · rename_i hs
        simp only [Bool.and_eq_true, Bool.not_eq_eq_eq_not, Bool.not_true, List.isEmpty_eq_false_iff,
          List.all_eq_true] at hs
        exact hs
      · simp at h
    · intro ⟨h1, h2⟩
      rw [if_pos]
      · exact ⟨s, rfl⟩
      · simp only [Bool.and_eq_true, Bool.not_eq_eq_eq_not, Bool.not_true, List.isEmpty_eq_false_iff,
          List.all_eq_true]
        exact ⟨h1, h2⟩
  · rfl

/-- the character class is exactly A-Z, 0-9, underscore, dash -/
theorem hcChar_class (c : Nat) : hcChar c = true ↔ ((65 ≤ c ∧ c ≤ 90) ∨ (48 ≤ c ∧ c ≤ 57) ∨ c = 95 ∨ c = 45) := by
  simp [hcChar, Bool.or_eq_true, Bool.and_eq_true, or_assoc]

/-- enumerated attributes (units, index type, equipment type and location, ...): in the mode only members pass;
outside, a soft converter accepts anything (with a warning), a strict one only members -/
theorem enum_restricted (soft : Bool) (members : List PStr) (v : PStr) :
    ((∃ r, enumConvert true soft members v = .ok r) ↔ v ∈ members) ∧
    ((∃ r, enumConvert false soft members v = .ok r) ↔ (v ∈ members ∨ soft = true)) := by
  unfold enumConvert
  constructor
  · by_cases h : members.contains v = true
    · simp [h, List.contains_iff_mem.mp h]
    · have : v ∉ members := fun hm => h (List.contains_iff_mem.mpr hm)
      simp [h, this]
  · by_cases h : members.contains v = true
    · simp [h, List.contains_iff_mem.mp h]
    · have : v ∉ members := fun hm => h (List.contains_iff_mem.mpr hm)
      cases soft <;> simp [h, this]

/-- signed-integer channel data, channels in no or several frames: raise in the mode, warn outside -/
theorem breach_raises_iff (hc violated : Bool) :
    (∃ e, raiseOrWarn hc violated = .error e) ↔ (hc = true ∧ violated = true) := by
  cases hc <;> cases violated <;> simp [raiseOrWarn]

/-- file set numbers the writer assigns in the mode are 1, 2, ... in order; a supplied one is kept -/
theorem file_set_numbers (ordinal random : Nat) (n : Nat) :
    hcFileSetNumber true none ordinal random = ordinal ∧ hcFileSetNumber true (some n) ordinal random = n ∧
      hcFileSetNumber false (some n) ordinal random = n := ⟨rfl, rfl, rfl⟩

/-- the pattern the live package compiles is the pinned one -/
theorem pattern_pinned : Generated.hcPattern = "[A-Z0-9_-]+" := Obligations.hcPattern_eq

example : Bracketed [.enter, .other, .enter, .other, .leave, .leave, .other] :=
  Bracketed.ctx (s := [.other, .enter, .other, .leave]) (t := [.other])
    (Bracketed.other (Bracketed.ctx (s := [.other]) (t := []) (Bracketed.other Bracketed.nil) Bracketed.nil))
    (Bracketed.other Bracketed.nil)
example : hcRun { flag := false, saved := [] } [.enter, .other, .enter, .other, .leave, .leave, .other] =
    { flag := false, saved := [] } := by decide
example : validateString true [65, 97] = .error .value ∧ validateString true [65, 45, 57] = .ok [65, 45, 57] := by decide

/-! ### the mode at the attribute setters (`Model/Convert.lean`, instantiated from the pinned converter table) -/

/-- in the mode a name-like attribute (AXIS-ID, SERIAL-NUMBER, … — every attribute whose pinned converter is
`validate_string`) accepts only non-empty strings over `[A-Z0-9_-]`, and holds them unchanged -/
theorem setter_names_restricted {rc : Except Err (Option Nat)} {mem : List PStr} {v r : PyVal}
    (h : applyConv .validateString true rc mem v = .ok r) : ∃ s ec p, r = .str s ec p ∧ r = v ∧ hcString s = true :=
  validateString_hc h

/-- in the mode every enumerated attribute (units, index type, equipment type and location, …) holds a member of
its enumeration — or nothing, where that is allowed; a soft converter is strict there -/
theorem setter_enums_restricted {cls : String} {soft an : Bool} {rc : Except Err (Option Nat)} {mem : List PStr}
    {v r : PyVal} (h : applyConv (.enum cls soft an) true rc mem v = .ok r) :
    (r = .none ∧ v = .none ∧ an = true) ∨
    (∃ s ec p, v = .str s ec p ∧ r = .str s (if ec = some cls then none else ec) p ∧
      (ec = some cls ∨ mem.contains s = true)) :=
  enum_strict (by simp) h

/-- outside the mode a soft enumeration accepts (with a warning) any string, unchanged -/
theorem setter_soft_outside {cls : String} {an : Bool} {rc : Except Err (Option Nat)} {mem : List PStr}
    (s : PStr) (p : StrParse) :
    applyConv (.enum cls true an) false rc mem (.str s none p) = .ok (.str s none p) := by
  simp only [applyConv]
  split
  · rename_i h; simp at h
  · split <;> simp

/-- units: the setter applies the (soft, None-allowed) unit enumeration, so in the mode only the standard's unit
symbols are accepted -/
theorem units_restricted {a : AttrSpec} {um : List PStr} {st st' : AttrState} {u : PyVal}
    (h : setUnits a true um st u = .ok st') :
    (u = .none ∧ st'.units = none) ∨ ∃ s ec p, u = .str s ec p ∧ st'.units = some s ∧ (ec = some "Unit" ∨ um.contains s = true) := by
  unfold setUnits at h
  split at h
  · simp at h
  · split at h
    · simp at h
    · rename_i r hr
      rcases enum_strict (by simp) hr with ⟨_, hu, _⟩ | ⟨s, ec, p, hu, _, hm⟩
      · subst hu; simp at h; exact Or.inl ⟨rfl, by rw [← h]⟩
      · subst hu; simp at h; exact Or.inr ⟨s, ec, p, rfl, by rw [← h], hm⟩

/-! ### channels in no or several frames (`Model/Checks.lean`) -/

/-- in the mode, a write that is accepted has every channel of every logical file listed exactly once by the frames of
that logical file -/
theorem channels_in_exactly_one_frame (w : World) (c f : Nat) (es : List Edge) (fid : Nat → Bool)
    (h : acceptWriteHc true w c f es fid = .ok ()) (lf : Nat) (hlf : lf < w.keys.length)
    (i : Nat) (hi : i < w.items.length) (hk : w.items[i].kind = c) (hin : w.items[i].key ∈ lfKeys w lf) :
    channelUses w lf f es i = 1 := by
  have hc := acceptWriteHc_counts w c f es fid h lf hlf
  unfold checkChannelCounts at hc
  split at hc
  · rename_i hall
    simp only [Bool.not_true, Bool.false_or] at hall
    have := List.all_eq_true.mp hall i (by simp [hi])
    have hinl : inLf w lf i = true := (inLf_iff w lf i).mpr ⟨hi, hin⟩
    simpa [hinl, List.getElem?_eq_getElem hi, hk] using this
  · cases hc

/-- outside the mode the count of frames per channel refuses nothing: the checks are those of C07 / C12 -/
theorem channel_counts_only_in_mode (w : World) (c f : Nat) (es : List Edge) (fid : Nat → Bool) :
    acceptWriteHc false w c f es fid = acceptWrite w c f es fid := acceptWriteHc_false w c f es fid

/-- non-vacuity: a channel listed by two frames / by none is refused in the mode and accepted outside it -/
example :
    let w := run (World.init 1) [.origin 0 none [79] none .ok, .item 0 11 none [67] none .ok, .item 0 11 none [68] none .ok,
      .item 0 12 none [70] none .ok, .item 0 12 none [71] none .ok]
    acceptWriteHc true w 11 12 [⟨3, 1, true⟩, ⟨4, 2, true⟩] (fun _ => true) = .ok () ∧
    acceptWriteHc true w 11 12 [⟨3, 1, true⟩, ⟨4, 1, true⟩, ⟨4, 2, true⟩] (fun _ => true) = .error .channelFrameCount ∧
    acceptWriteHc true w 11 12 [⟨3, 1, true⟩, ⟨4, 1, true⟩] (fun _ => true) = .error .channelFrameCount ∧
    acceptWriteHc false w 11 12 [⟨3, 1, true⟩, ⟨4, 1, true⟩] (fun _ => true) = .ok () := by decide +kernel

end Dlis.C17
