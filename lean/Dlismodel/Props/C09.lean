/-
  C09 — Each logical file has the mandated order: header, origin, sets, then data.
  `DLISFile.generator` is modelled by `fileRecords`: per logical file the FILE-HEADER record, the ORIGIN sets,
  every other registered set, the no-format records, the frame-data records; empty sets give no record (C04
  `empty_set_no_record` / C02: an empty body yields no segment).
-/
import Dlismodel.Proofs.Api
import Dlismodel.Model.Eflr
import Dlismodel.Proofs.Seg
namespace Dlis.C09
open Dlis

/-- the kinds of records of one logical file, in the order the generator yields them -/
inductive RecKind
  | header | set (k : Key) (objs : List Item) | noformat | fdata
  deriving Repr, DecidableEq

def lfRecords (w : World) (lf : Nat) (nNoFormat nRows : Nat) : List RecKind :=
  RecKind.header :: ((setRecords w lf).map fun (k, its) => RecKind.set k its) ++
    List.replicate nNoFormat RecKind.noformat ++ List.replicate nRows RecKind.fdata

/-- header first; then the ORIGIN sets, then all other sets; each (type, name) at most once; never an empty set;
all explicitly formatted records precede the indirectly formatted ones -/
theorem generator_shape (w : World) (hr : RegInv w) (lf nn nr : Nat) :
    ∃ (o r : List (Key × List Item)), lfRecords w lf nn nr =
        RecKind.header :: (o.map fun (k, its) => RecKind.set k its) ++ (r.map fun (k, its) => RecKind.set k its) ++
          List.replicate nn RecKind.noformat ++ List.replicate nr RecKind.fdata ∧
      (∀ p ∈ o, p.1.1 = 0) ∧ (∀ p ∈ r, p.1.1 ≠ 0) ∧ ((o ++ r).map (·.1)).Nodup ∧
      ∀ p ∈ o ++ r, p.2 ≠ [] ∧ ∀ it ∈ p.2, it.key = p.1 := by
  obtain ⟨o, r, h1, h2, h3, h4, h5⟩ := setRecords_shape w hr lf
  refine ⟨o, r, ?_, h2, h3, by rw [← h1]; exact h4, by rw [← h1]; exact h5⟩
  simp [lfRecords, h1]

/-- the FILE-HEADER object: sequence number right-justified in 10, identifier left-justified in 65 characters -/
theorem header_fields (name : ObName) (seqNo : Int) (hid : PStr) (b : Bytes)
    (h : fileHeaderBody name seqNo hid = .ok b) :
    ∃ s i, justify (intStr seqNo) 10 false = .ok s ∧ justify hid 65 true = .ok i ∧ s.length = 10 ∧ i.length = 65 := by
  simp only [fileHeaderBody, bind_ok, pure_ok] at h
  obtain ⟨t, _, l1, _, l2, _, n, _, s, hs, i, hi, _⟩ := h
  exact ⟨s, i, hs, hi, justify_length hs, justify_length hi⟩

/-- the defining origin is the first object of the first ORIGIN set of the logical file -/
theorem defining_origin_first (w : World) (lf : Nat) (o : Item) (rest : List Item)
    (h : originsOfLf w lf = o :: rest) : defaultOrigin w lf = o.origin := by
  simp [defaultOrigin, h]

example : lfRecords (run (World.init 1) [.item 0 3 none [67] none .ok, .origin 0 none [79] none .ok,
    .item 0 5 none [90] none .rejectLate]) 0 1 2 =
    [.header, .set (0, none) [⟨0, 0, none, [79], some 0, 0⟩], .set (3, none) [⟨0, 3, none, [67], some 0, 0⟩],
     .noformat, .fdata, .fdata] := by decide +kernel

end Dlis.C09
