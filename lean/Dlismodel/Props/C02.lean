/-
  C02 — Segmentation is lossless, ordered and correctly bracketed.

  `readFile` is the strict physical reader (`Model/Parse.lean`): it rejects a predecessor flag on a first
  segment, a missing one on a later segment, a change of the explicit/indirect flag or of the record type
  inside a record, a file ending inside a record, and any byte not tiled by visible records and segments.
  The theorem says that on every file `frameFile` produces it returns exactly the records given (those with
  a non-empty body — an empty body yields no segment at all, which is the writer's behaviour for empty sets),
  same number, same order, each body byte for byte.  Non-interleaving is `frameRecs_append`.
-/
import Dlismodel.Proofs.Seg
namespace Dlis.C02
open Dlis

theorem segmentation_lossless (c : Cfg) (recs : List Rec) (out : Bytes)
    (htype : ∀ r ∈ recs, r.type < 256) (h : frameFile c recs = .ok out) :
    readFile c out = some (recs.filter (fun r => !r.body.isEmpty)) :=
  readFile_frameFile c recs out htype h

/-- the visible records of consecutive record lists are concatenated: segments of different records never
interleave -/
theorem frameRecs_append (vrl : Nat) (a b : List Rec) :
    frameRecs vrl (a ++ b) = frameRecs vrl a ++ frameRecs vrl b := by
  simp [frameRecs]

/-- within a record only the first segment lacks the predecessor flag and only the last lacks the successor
flag; flag and type are those of the record on every segment -/
theorem flags_bracketed (e : Bool) (t : Nat) (cs : List Bytes) :
    ∀ (i : Nat) (h : i < (flagChunks e t true cs).length),
      let s := (flagChunks e t true cs)[i]
      s.eflr = e ∧ s.type = t ∧ (s.pred = true ↔ i ≠ 0) ∧ (s.succ = true ↔ i + 1 ≠ (flagChunks e t true cs).length) := by
  suffices H : ∀ (first : Bool) (i : Nat) (h : i < (flagChunks e t first cs).length),
      let s := (flagChunks e t first cs)[i]
      s.eflr = e ∧ s.type = t ∧ (s.pred = true ↔ (i ≠ 0 ∨ first = false)) ∧
        (s.succ = true ↔ i + 1 ≠ (flagChunks e t first cs).length) by
    intro i h
    have := H true i h
    simpa using this
  induction cs with
  | nil => intro first i h; simp [flagChunks] at h
  | cons c cs ih =>
    intro first i h
    cases cs with
    | nil =>
      simp only [flagChunks, List.length_singleton] at h
      have : i = 0 := by omega
      subst this
      cases first <;> simp [flagChunks]
    | cons c' cs' =>
      cases i with
      | zero =>
        have hne : flagChunks e t false (c' :: cs') ≠ [] := by
          cases cs' <;> simp [flagChunks]
        cases first <;> simp [flagChunks, hne]
      | succ j =>
        have h' : j < (flagChunks e t false (c' :: cs')).length := by
          simp only [flagChunks, List.length_cons] at h ⊢
          omega
        have := ih false j h'
        simp only [flagChunks, List.getElem_cons_succ, List.length_cons] at this ⊢
        simp only [ne_eq, or_true, iff_true] at this
        refine ⟨this.1, this.2.1, ?_, ?_⟩
        · simp [this.2.2.1]
        · rw [this.2.2.2]; omega

/-! non-vacuity: a 30-byte record at the smallest record length is cut into three segments and read back -/
example :
    let c : Cfg := { vrl := 20, seq := [49], setId := [65] }
    let r : Rec := { isEflr := true, type := 3, body := List.replicate 30 7 }
    (frameFile c [r]).toOption.bind (readFile c) = some [r] := by decide +kernel

end Dlis.C02
