/-
  C10 — Chunk sizes are invisible; the file on disk only ever grows by whole records.
  PARTIAL in one respect: that opening with 'wb' replaces the target and 'ab' appends is the OS's behaviour;
  the model states it (`diskAfter`), the correspondence observes the real file at every flush.
-/
import Dlismodel.Proofs.Output
import Dlismodel.Proofs.Data
import Dlismodel.Proofs.Seg
namespace Dlis.C10
open Dlis

/-- output side: for every buffer size the file is label ++ visible records, the reported total is its size,
and after every physical write the on-disk content is a prefix ending on a visible-record boundary -/
theorem output_chunks_invisible (cap : Nat) (sul : Bytes) (vrs : List Bytes) :
    let o := runOutput cap sul vrs
    o.writes.flatten = sul ++ vrs.flatten ∧ o.total = (sul ++ vrs.flatten).length ∧
      ∀ k, 1 ≤ k → k ≤ o.writes.length → ∃ m, m ≤ vrs.length ∧ diskAfter o k = sul ++ (vrs.take m).flatten :=
  runOutput_spec cap sul vrs

/-- two different buffer sizes give the same file -/
theorem output_chunk_independent (c1 c2 : Nat) (sul : Bytes) (vrs : List Bytes) :
    (runOutput c1 sul vrs).writes.flatten = (runOutput c2 sul vrs).writes.flatten := by
  rw [(runOutput_spec c1 sul vrs).1, (runOutput_spec c2 sul vrs).1]

/-- input side: every input chunk size ≥ 1 (or None) yields the rows once, in order — hence the same records -/
theorem input_chunks_invisible (frame : ObName) (rows : List (List Slot)) (fromIdx : Nat) (toIdx c1 c2 : Option Nat)
    (h1 : ∀ k, c1 = some k → 1 ≤ k) (h2 : ∀ k, c2 = some k → 1 ≤ k) :
    frameRecords frame rows fromIdx toIdx c1 = frameRecords frame rows fromIdx toIdx c2 := by
  unfold frameRecords
  rw [chunkedRows_eq _ c1 h1, chunkedRows_eq _ c2 h2]

/-- the whole file written through the buffer is `frameFile`'s output -/
theorem file_is_frameFile (c : Cfg) (recs : List Rec) (out sul : Bytes) (cap : Nat)
    (hs : sulBytes c = .ok sul) (h : frameFile c recs = .ok out) :
    (runOutput cap sul ((recs.flatMap (segsOf (c.vrl.toNat - 8))).map fun s => encVR (encSeg s))).writes.flatten = out := by
  rw [(runOutput_spec _ _ _).1]
  unfold frameFile at h
  split at h; · simp at h
  simp only [bind_ok, pure_ok] at h
  obtain ⟨sul', hs', rfl⟩ := h
  rw [hs] at hs'; simp at hs'; subst hs'
  rfl

/-- the accepted output chunk sizes: numbers with zero fractional part, not below the record length -/
theorem chunk_accepted_iff (chunk : Int) (integral : Bool) (vrl : Int) :
    chunkOk chunk integral vrl = true ↔ (integral = true ∧ vrl ≤ chunk) := by
  simp [chunkOk]

example : (runOutput 10 [1, 2] [[3, 4, 5, 6], [7, 8, 9, 10, 11, 12, 13], [14]]).writes =
    [[1, 2], [3, 4, 5, 6], [7, 8, 9, 10, 11, 12, 13, 14]] := by decide

end Dlis.C10
