/-
  C03 — Channel data round-trips bit-exactly, one numbered record per row.

  A row is a list of slots (one per channel of the frame, in the frame's channel order), a slot is the element
  size of the channel's (cast) dtype and the elements' *bit patterns* — so NaN payloads, infinities, signed zero
  and integer extremes are all covered by the universal quantifier.  `frameRecords` is the model of
  MultiFrameData + SourceDataWrapper chunking + FrameData._make_body_bytes.

  PARTIAL in one respect: how numpy turns an array of any byte order / stride / layout / read-only flag (and a
  cast) into the logical element sequence is outside the model; the C03 correspondence feeds all those variants
  and compares with bit patterns the harness extracts independently.
-/
import Dlismodel.Proofs.Data
import Dlismodel.Proofs.Cast
namespace Dlis.C03
open Dlis

/-- for every window and every input chunk size ≥ 1 the frame's records are exactly one per row of the window,
in order, numbered 1..N, each referencing the frame and decoding — under the layout (element size, elements per
row) its channels declare — to the row's bit patterns with nothing left over -/
theorem frame_data_roundtrip (frame : ObName) (rows : List (List Slot)) (fromIdx : Nat) (toIdx chunk : Option Nat)
    (hc : ∀ k, chunk = some k → 1 ≤ k) (hok : ∀ r ∈ rows, ∀ s ∈ r, SlotOk s) (bodies : List Bytes)
    (h : frameRecords frame rows fromIdx toIdx chunk = .ok bodies) :
    let w := window rows fromIdx toIdx
    bodies.length = w.length ∧
      ∀ i (hi : i < w.length) (hi' : i < bodies.length),
        decFrameData (w[i].map fun s => (s.size, s.elems.length)) bodies[i] =
          some ({ origin := frame.origin.toNat, copy := frame.copy.toNat, name := frame.name.map b8 },
                i + 1, w[i].map (·.elems)) := by
  intro w
  unfold frameRecords at h
  rw [chunkedRows_eq _ chunk hc] at h
  have hokw : ∀ r ∈ w, ∀ s ∈ r, SlotOk s := by
    intro r hr
    have : r ∈ rows := by
      have h1 : r ∈ rows.take (toIdx.getD rows.length) := List.mem_of_mem_drop hr
      exact List.mem_of_mem_take h1
    exact hok r this
  have := frameRecordsFrom_spec frame w 0 bodies hokw h
  simpa using this

/-- the window is exactly rows [from, to) -/
theorem window_rows {α : Type} (rows : List α) (fromIdx : Nat) (toIdx : Option Nat) (i : Nat)
    (h : fromIdx + i < toIdx.getD rows.length) (_h2 : toIdx.getD rows.length ≤ rows.length) :
    (window rows fromIdx toIdx)[i]? = rows[fromIdx + i]? := by
  unfold window
  rw [List.getElem?_drop, List.getElem?_take]
  simp [h]

/-- a single element is its big-endian image: bit-exactness -/
theorem element_bits (size e : Nat) (rest : Bytes) (h : e < 256 ^ size) :
    rdN size (beN size e ++ rest) = some (e, rest) := rdN_beN size e rest h

/-! ### a declared cast between integer types (`Model/Cast.lean`) -/

/-- whatever integer the source holds, the element written under the cast type `t` exists (never an encoding error),
and under `t`'s representation code it decodes to `castInt t v`, which `t` holds -/
theorem cast_element_roundtrip (t : IntTy) (hb : 0 < t.bytes) (v : Int) :
    t.holds (castInt t v) ∧
    ∃ bs, encInt t (castInt t v) = .ok bs ∧ bs.length = t.bytes ∧
      ∀ rest, decInt t (bs ++ rest) = some (castInt t v, rest) := by
  refine ⟨castInt_holds t hb v, ?_⟩
  obtain ⟨bs, h⟩ := encInt_castInt_ok t hb v
  refine ⟨bs, h, ?_, fun rest => decInt_encInt t hb _ bs rest h⟩
  unfold encInt at h
  cases hs : t.signed
  · simp only [hs, Bool.false_eq_true, if_false] at h; exact encU_length h
  · simp only [hs, if_true] at h
    unfold encS at h; split at h <;> simp at h; subst h; simp

/-- a cast to a type that holds the value leaves it as it is: the decoded sample is the source sample -/
theorem cast_exact_when_held (t : IntTy) (hb : 0 < t.bytes) (v : Int) (h : t.holds v) : castInt t v = v :=
  castInt_exact t hb v h

/-- otherwise the written sample is the source sample modulo 2^bits (numpy's documented wrap-around), nothing else -/
theorem cast_wraps (t : IntTy) (v : Int) : castInt t v % (256 : Int) ^ t.bytes = v % (256 : Int) ^ t.bytes :=
  castInt_congr t v

/-- a declared cast of integer data to float64 loses nothing: the written double stands for exactly the source value -/
theorem cast_int_to_double_exact (t : IntTy) (hb : t.bytes ≤ 4) (v : Int) (h : t.holds v) :
    ∃ f, castIntToF64 v = some f ∧ f64ToInt f = some v := castIntToF64_exact t hb v h

example : castIntToF64 (-4294967295) = some 0xC1EFFFFFFFE00000 ∧ castIntToF32 16777217 = some 0x4B800000 := by decide +kernel

example : castInt ⟨1, false⟩ 300 = 44 ∧ castInt ⟨1, true⟩ 200 = -56 ∧ castInt ⟨2, true⟩ (-40000) = 25536 ∧
    castInt ⟨4, false⟩ (-1) = 4294967295 ∧ castInt ⟨2, false⟩ 65535 = 65535 := by decide

/-! non-vacuity: two rows, a float64 NaN payload / -0.0 and a 3-wide uint8 channel, chunk size 1 -/
example :
    let fr : ObName := { origin := 1, copy := 0, name := [70] }
    let rows : List (List Slot) :=
      [[{ size := 8, elems := [0x7FF8000000000001] }, { size := 1, elems := [0, 255, 7] }],
       [{ size := 8, elems := [0x8000000000000000] }, { size := 1, elems := [1, 2, 3] }]]
    ((frameRecords fr rows 0 none (some 1)).toOption.map fun bs =>
      bs.map (decFrameData [(8, 1), (1, 3)])) =
      some [some ({ origin := 1, copy := 0, name := [70] }, 1, [[0x7FF8000000000001], [0, 255, 7]]),
            some ({ origin := 1, copy := 0, name := [70] }, 2, [[0x8000000000000000], [1, 2, 3]])] := by
  decide +kernel

end Dlis.C03
