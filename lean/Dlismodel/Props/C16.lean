/-
  C16 — No-format payloads come back exactly, in order, under their object.
-/
import Dlismodel.Proofs.Iflr
import Dlismodel.Props.C02
namespace Dlis.C16
open Dlis

/-- the record body is the reference to the NO-FORMAT object followed by exactly the user's bytes: nothing
appended, removed or altered, for every payload length (empty, a single byte, many record capacities) -/
theorem noformat_roundtrip (nf : ObName) (payload b : Bytes) (h : noFormatBody nf payload = .ok b) :
    decNoFormat b = some ({ origin := nf.origin.toNat, copy := nf.copy.toNat, name := nf.name.map b8 }, payload) :=
  decNoFormat_noFormatBody nf payload b h

/-- the body's length is the reference plus the payload: no in-body padding -/
theorem noformat_length (nf : ObName) (payload b o : Bytes) (ho : encObname nf = .ok o)
    (h : noFormatBody nf payload = .ok b) : b.length = o.length + payload.length := by
  simp only [noFormatBody, bind_ok, pure_ok] at h
  obtain ⟨o', ho', rfl⟩ := h
  rw [ho] at ho'; simp at ho'; subst ho'
  simp

/-- records keep the order in which they were added and survive framing whatever their size (C02) -/
theorem noformat_order_preserved (c : Cfg) (before after : List Rec) (bodies : List Bytes) (out : Bytes)
    (hb : ∀ r ∈ before, r.type < 256) (ha : ∀ r ∈ after, r.type < 256)
    (h : frameFile c (before ++ bodies.map (fun b => Rec.mk false 1 b) ++ after) = .ok out) :
    readFile c out = some ((before ++ bodies.map (fun b => Rec.mk false 1 b) ++ after).filter
      (fun r => !r.body.isEmpty)) := by
  apply C02.segmentation_lossless c _ out _ h
  intro r hr
  simp only [List.mem_append, List.mem_map] at hr
  rcases hr with (hr | ⟨b, _, rfl⟩) | hr
  · exact hb r hr
  · show (1 : Nat) < 256; decide
  · exact ha r hr

example : (noFormatBody { origin := 1, copy := 0, name := [78] } [97, 98]).toOption.bind decNoFormat =
    some ({ origin := 1, copy := 0, name := [78] }, [97, 98]) := by decide +kernel

end Dlis.C16
