/-
  C15 — Writability never hinges on byte-size coincidences.

  At the framing layer: for every record length the writer's own validity check accepts (even, 20..16384)
  and *every* list of records — bodies shorter than the 12-byte segment minimum, odd, or many times the
  capacity — `frameFile` succeeds (given label fields that fit), the output is well-formed (C01) and reads
  back to the records (C02); short bodies are carried by flagged padding: the pad count is stored in the
  pad bytes and the padding attribute bit is set, nothing is added to the body.
-/
import Dlismodel.Proofs.Seg
import Dlismodel.Props.C01
import Dlismodel.Props.C02
namespace Dlis.C15
open Dlis

theorem framing_total (c : Cfg) (recs : List Rec) (hv : vrlValid c.vrl = true) (sul : Bytes)
    (hs : sulBytes c = .ok sul) : ∃ out, frameFile c recs = .ok out :=
  frameFile_total c recs hv sul hs

/-- the only ways framing can fail: the record length is rejected by the validity check, or a label field does
not fit / is not ASCII -/
theorem framing_fails_iff (c : Cfg) (recs : List Rec) :
    (∃ e, frameFile c recs = .error e) ↔ (vrlValid c.vrl = false ∨ ∃ e, sulBytes c = .error e) := by
  unfold frameFile
  cases hv : vrlValid c.vrl
  · simp
  · cases hs : sulBytes c <;> simp [bind, Except.bind, pure, Except.pure]

/-- and whenever it succeeds the result is faithful, whatever the body sizes -/
theorem framing_faithful (c : Cfg) (recs : List Rec) (out : Bytes) (ht : ∀ r ∈ recs, r.type < 256)
    (h : frameFile c recs = .ok out) :
    (∃ segs, readSegs c out = some segs) ∧ readFile c out = some (recs.filter (fun r => !r.body.isEmpty)) :=
  ⟨C01.layout_wellformed c recs out ht h, C02.segmentation_lossless c recs out ht h⟩

/-- every validity-checked record length gives a usable capacity: a segment always carries at least one byte
and never more than the capacity -/
theorem capacity_progress (vrl : Int) (hv : vrlValid vrl = true) (rem : Nat) (hr : 0 < rem) :
    1 ≤ stepSize (vrl.toNat - 8) rem ∧ stepSize (vrl.toNat - 8) rem ≤ rem := by
  have := vrlValid_spec hv
  have := stepSize_bounds (vrl.toNat - 8) rem (by omega) hr
  omega

/-! non-vacuity: a one-byte body at the smallest record length -/
example :
    let c : Cfg := { vrl := 20, seq := [49], setId := [65] }
    let r : Rec := { isEflr := false, type := 0, body := [42] }
    (frameFile c [r]).toOption.bind (readFile c) = some [r] := by decide +kernel

end Dlis.C15
