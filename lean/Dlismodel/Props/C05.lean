/-
  C05 — Metadata fidelity: what the user sets is what a reader gets.

  Two links.  (1) *State → file* (proved here): for every set the model writes, the strict reader finds under the
  set's type, each object's name and each template label exactly the attribute's count, units and representation
  code, and every value reads back — with the strict C06 decoder of that code — as the value held by the
  attribute (`canon`): numbers exactly (integers as integers, floats as their bit pattern), text exactly,
  date-times as the UTC fields with zone code 2 and the rounded millisecond, references as the identity
  (set type,) origin, copy number, name of the referenced object; unset attributes read back absent.
  (2) *User input → state* (converters of `Attribute.convert_value` and subclasses, write-time defaults): this is
  Python dynamic-typing logic on arbitrary objects; it is tied by the C05 whole-file oracle, which compares the
  reader's dump of the real file with an expectation computed from what was passed to the public API and the
  pinned schema (Obligations.attrs_eq), for all four assignment routes.  PARTIAL in that respect.
-/
import Dlismodel.Proofs.Eflr
import Dlismodel.Proofs.Convert
import Dlismodel.Proofs.Defaults
import Dlismodel.Proofs.Float
namespace Dlis.C05
open Dlis

/-- canonical reading of a value -/
inductive CVal
  | int (i : Int) | bits (n : Nat) | text (b : Bytes) | dtime (v : DTimeVal) | obname (o : ObNameVal)
  | objref (t : Bytes) (o : ObNameVal)
  deriving Repr, DecidableEq

/-- strict decoding of one value of code `rc` that must consume all bytes -/
def decodeVal (rc : Nat) (b : Bytes) : Option CVal :=
  let whole {α : Type} (r : Option (α × Bytes)) (f : α → CVal) : Option CVal :=
    match r with | some (v, []) => some (f v) | _ => none
  match rc with
  | 12 => whole (decS 1 b) .int | 13 => whole (decS 2 b) .int | 14 => whole (decS 4 b) .int
  | 15 => whole (decU 1 b) .int | 16 => whole (decU 2 b) .int | 17 => whole (decU 4 b) .int
  | 18 => whole (decUvari b) (fun n => .int n)
  | 26 => whole (decStatus b) (fun n => .int n)
  | 2 => whole (rdN 4 b) .bits | 7 => whole (rdN 8 b) .bits
  | 19 => whole (decIdent b) .text | 20 => whole (decAscii b) .text
  | 21 => whole (decDtime b) .dtime
  | 23 => whole (decObname b) .obname
  | 24 => whole (decObjref b) (fun p => .objref p.1 p.2)
  | _ => none

def asInt : AVal → Option Int
  | .int i => some i | .bool b => some (if b then 1 else 0) | _ => none

/-- what a reader must get for attribute value `v` written with code `rc` -/
def canon (rc : Nat) (v : AVal) : Option CVal :=
  if rc = 12 ∨ rc = 13 ∨ rc = 14 ∨ rc = 15 ∨ rc = 16 ∨ rc = 17 ∨ rc = 18 ∨ rc = 26 then (asInt v).map .int
  else if rc = 7 then
    match v with
    | .f64 b => some (.bits b) | .f32 b => (f32ToF64 b).map .bits | .int i => (intToF64 i).map .bits
    | .bool b => some (.bits (if b then 0x3FF0000000000000 else 0)) | _ => none
  else if rc = 2 then
    match v with
    | .f32 b => some (.bits b) | .bool b => some (.bits (if b then 0x3F800000 else 0))
    | .f64 b => (f64ToF32 b).toOption.map .bits         -- a Python float: the nearest single (Proofs/Float.lean)
    | .int i => (intToF64 i).bind (fun d => (f64ToF32 d).toOption.map .bits)
    | _ => none
  else if rc = 19 ∨ rc = 20 then
    match v with
    | .str s => some (.text (s.map b8)) | .int i => some (.text ((intStr i).map b8))
    | .bool b => some (.text ((boolStr b).map b8)) | _ => none
  else if rc = 21 then
    match v with
    | .dtime t => some (.dtime { y := (t.year - 1900).toNat, tz := 2, month := t.month, day := t.day, hour := t.hour,
                                  minute := t.minute, second := t.second, ms := msOfMicro t.micro })
    | _ => none
  else if rc = 23 then match v with | .obj _ o => some (.obname (obnameVal o)) | _ => none
  else if rc = 24 then match v with | .obj t o => some (.objref (t.map b8) (obnameVal o)) | _ => none
  else none

/-- calendar validity of date-time values (always true of a Python `datetime`) -/
def AValOk : AVal → Prop
  | .dtime t => 1 ≤ t.month ∧ t.month ≤ 12 ∧ 1 ≤ t.day ∧ t.day ≤ 31 ∧ t.hour ≤ 23 ∧ t.minute ≤ 59 ∧ t.second ≤ 59
  | _ => True

theorem beN_lt (k n : Nat) (h : n < 256 ^ k) : rdN k (beN k n) = some (n, []) := by
  have := rdN_beN k n [] h; rwa [List.append_nil] at this

/-- every value the writer encodes reads back as `canon` -/
theorem decodeVal_encVal (rc : Nat) (v : AVal) (b : Bytes) (hv : AValOk v) (h : encVal rc v = .ok b) :
    decodeVal rc b = canon rc v ∧ (canon rc v).isSome := by
  unfold encVal at h
  simp only at h
  have eS : ∀ k i, 0 < k → encS k i = .ok b → decS k b = some (i, []) := by
    intro k i hk hh; have := decS_encS hk hh []; rwa [List.append_nil] at this
  have eU : ∀ k i, encU k i = .ok b → decU k b = some (i, []) := by
    intro k i hh; have := decU_encU hh []; rwa [List.append_nil] at this
  split at h
  · cases v <;> simp at h <;> simp [decodeVal, canon, asInt, eS 1 _ (by decide) h]
  · cases v <;> simp at h <;> simp [decodeVal, canon, asInt, eS 2 _ (by decide) h]
  · cases v <;> simp at h <;> simp [decodeVal, canon, asInt, eS 4 _ (by decide) h]
  · cases v <;> simp at h <;> simp [decodeVal, canon, asInt, eU 1 _ h]
  · cases v <;> simp at h <;> simp [decodeVal, canon, asInt, eU 2 _ h]
  · cases v <;> simp at h <;> simp [decodeVal, canon, asInt, eU 4 _ h]
  · -- UVARI
    have key : ∀ i, encUvari i = .ok b → decUvari b = some (i.toNat, []) ∧ 0 ≤ i := by
      intro i hh
      have := decUvari_encUvari hh []; rw [List.append_nil] at this
      exact ⟨this, ((encUvari_ok_iff i).mp ⟨b, hh⟩).1⟩
    cases v <;> simp at h
    · obtain ⟨h1, h2⟩ := key _ h
      simp [decodeVal, canon, asInt, h1, Int.toNat_of_nonneg h2]
    · obtain ⟨h1, h2⟩ := key _ h
      simp [decodeVal, canon, asInt, h1, Int.toNat_of_nonneg h2]
  · -- STATUS
    have key : ∀ i, encStatus i = .ok b → decStatus b = some (i.toNat, []) ∧ 0 ≤ i := by
      intro i hh
      have := decStatus_encStatus hh []; rw [List.append_nil] at this
      have := (encStatus_ok_iff i).mp ⟨b, hh⟩
      exact ⟨by assumption, by omega⟩
    cases v <;> simp at h
    · obtain ⟨h1, h2⟩ := key _ h
      simp [decodeVal, canon, asInt, h1, Int.toNat_of_nonneg h2]
    · obtain ⟨h1, h2⟩ := key _ h
      simp [decodeVal, canon, asInt, h1, Int.toNat_of_nonneg h2]
  · -- FDOUBL
    cases v with
    | f64 n =>
      simp only at h
      split at h <;> simp at h
      subst h
      rename_i hn
      simp [decodeVal, canon, beN_lt 8 n (by simpa using hn)]
    | f32 n =>
      simp only at h
      cases hw : f32ToF64 n with
      | none => rw [hw] at h; simp at h
      | some d =>
        rw [hw] at h
        simp only at h
        split at h <;> simp at h
        subst h
        rename_i hd
        simp [decodeVal, canon, hw, beN_lt 8 d (by simpa using hd)]
    | int i =>
      simp only at h
      cases hw : intToF64 i with
      | none => rw [hw] at h; simp at h
      | some d =>
        rw [hw] at h
        simp only at h
        split at h <;> simp at h
        subst h
        rename_i hd
        simp [decodeVal, canon, hw, beN_lt 8 d (by simpa using hd)]
    | bool x =>
      simp at h; subst h
      cases x <;> simp [decodeVal, canon] <;> decide
    | str _ => simp at h
    | dtime _ => simp at h
    | obj _ _ => simp at h
  · -- FSINGL
    cases v with
    | f32 n =>
      simp only at h
      split at h <;> simp at h
      subst h
      rename_i hn
      simp [decodeVal, canon, beN_lt 4 n (by simpa using hn)]
    | bool x =>
      simp at h; subst h
      cases x <;> simp [decodeVal, canon] <;> decide
    | f64 n =>
      simp only at h
      split at h
      · rename_i hn
        rw [emap_ok] at h
        obtain ⟨r, hr, rfl⟩ := h
        have := f64ToF32_lt n r hn hr
        simp [decodeVal, canon, hr, Except.toOption, beN_lt 4 r (by simpa using this)]
      · simp at h
    | int i =>
      simp only at h
      cases hw : intToF64 i with
      | none => rw [hw] at h; simp at h
      | some d =>
        rw [hw] at h
        simp only at h
        rw [emap_ok] at h
        obtain ⟨r, hr, rfl⟩ := h
        have hd : d < 2 ^ 64 := intToF64_lt i d hw
        have := f64ToF32_lt d r hd hr
        simp [decodeVal, canon, hw, hr, Except.toOption, beN_lt 4 r (by simpa using this)]
    | str _ => simp at h
    | dtime _ => simp at h
    | obj _ _ => simp at h
  · -- IDENT
    have key : ∀ s, encIdent s = .ok b → decIdent b = some (s.map b8, []) := by
      intro s hs; have := decIdent_encIdent hs []; rwa [List.append_nil] at this
    cases v with
    | str s => simp [decodeVal, canon, key s h]
    | int i => simp [decodeVal, canon, key _ h]
    | bool x => simp [decodeVal, canon, key _ h]
    | f64 _ => simp at h
    | f32 _ => simp at h
    | dtime _ => simp at h
    | obj _ _ => simp at h
  · -- ASCII
    have key : ∀ s, encAscii s = .ok b → decAscii b = some (s.map b8, []) := by
      intro s hs; have := decAscii_encAscii hs []; rwa [List.append_nil] at this
    cases v with
    | str s => simp [decodeVal, canon, key s h]
    | int i => simp [decodeVal, canon, key _ h]
    | bool x => simp [decodeVal, canon, key _ h]
    | f64 _ => simp at h
    | f32 _ => simp at h
    | dtime _ => simp at h
    | obj _ _ => simp at h
  · -- DTIME
    cases v with
    | dtime t =>
      simp only [AValOk] at hv
      have := decDtime_encDtime h [] ⟨hv.1, hv.2.1⟩ ⟨hv.2.2.1, hv.2.2.2.1⟩ hv.2.2.2.2.1 hv.2.2.2.2.2.1 hv.2.2.2.2.2.2
      rw [List.append_nil] at this
      simp [decodeVal, canon, this]
    | int _ => simp at h
    | bool _ => simp at h
    | f64 _ => simp at h
    | f32 _ => simp at h
    | str _ => simp at h
    | obj _ _ => simp at h
  · -- OBNAME
    cases v with
    | obj t o =>
      have := decObname_encObname h []; rw [List.append_nil] at this
      simp [decodeVal, canon, this, obnameVal]
    | int _ => simp at h
    | bool _ => simp at h
    | f64 _ => simp at h
    | f32 _ => simp at h
    | str _ => simp at h
    | dtime _ => simp at h
  · -- OBJREF
    cases v with
    | obj t o =>
      have := decObjref_encObjref h []; rw [List.append_nil] at this
      simp [decodeVal, canon, this, obnameVal]
    | int _ => simp at h
    | bool _ => simp at h
    | f64 _ => simp at h
    | f32 _ => simp at h
    | str _ => simp at h
    | dtime _ => simp at h
  · simp at h

/-- all values of an attribute read back as `canon`, in order -/
theorem values_fidelity (r : Nat) (vs : List AVal) (bl : List Bytes) (hv : ∀ v ∈ vs, AValOk v)
    (h : encValsL r vs = .ok bl) : bl.map (decodeVal r) = vs.map (canon r) ∧ ∀ v ∈ vs, (canon r v).isSome := by
  induction vs generalizing bl with
  | nil => simp [encValsL] at h; subst h; simp
  | cons v vs ih =>
    simp only [encValsL, bind_ok, pure_ok] at h
    obtain ⟨b, hb, bs, hbs, rfl⟩ := h
    obtain ⟨h1, h2⟩ := ih bs (fun v' hv' => hv v' (by simp [hv'])) hbs
    obtain ⟨d1, d2⟩ := decodeVal_encVal r v b (hv v (by simp)) hb
    refine ⟨by simp [d1, h1], ?_⟩
    intro v' hv'
    simp only [List.mem_cons] at hv'
    rcases hv' with rfl | hv'
    · exact d2
    · exact h2 v' hv'

theorem All2_imp {α β : Type} {R S : α → β → Prop} {as : List α} {bs : List β}
    (himp : ∀ a b, a ∈ as → R a b → S a b) (h : All2 R as bs) : All2 S as bs := by
  induction h with
  | nil => exact All2.nil
  | cons hab _ ih =>
    exact All2.cons (himp _ _ (by simp) hab) (ih (fun a b ha => himp a b (by simp [ha])))

/-- C05, state → file: in every set body the model writes, the reader finds each object under the set's type
and the object's identity, unset attributes absent, and for each assigned attribute its count, representation
code, units and values (read with the strict decoders) -/
theorem decode_attr_fidelity (s : SetDesc) (b : Bytes) (hs : SetOk s) (hne : s.objects ≠ [])
    (hvals : ∀ o ∈ s.objects, ∀ a, some a ∈ o.attrs → ∀ v ∈ a.vals, AValOk v)
    (h : setBody s = .ok b) :
    ∃ d, parseEflr b = some d ∧ d.type = s.type.map b8 ∧ d.template.map (·.label) = s.labels.map (fun l => l.map b8) ∧
      All2 (fun (o : ObjDesc) (dobj : DObj) =>
        dobj.name = obnameVal o.name ∧ dobj.attrs.length = o.attrs.length ∧
        ∀ i (hi : i < o.attrs.length) (hi' : i < dobj.attrs.length),
          match o.attrs[i], dobj.attrs[i] with
          | none, none => True
          | some a, some c =>
            c.count = a.count ∧ c.rc = a.rc.getD 19 ∧
            c.units = (if hasUnits a then (a.units.getD []).map b8 else []) ∧
            (a.vals ≠ [] → c.vals.map (decodeVal c.rc) = a.vals.map (canon c.rc))
          | _, _ => False) s.objects d.objects := by
  obtain ⟨d, hd, hty, _, htm, hobjs⟩ := parseEflr_setBody s b hs hne h
  refine ⟨d, hd, hty, by rw [htm]; simp [tattrOf, Function.comp_def], ?_⟩
  apply All2_imp _ hobjs
  intro o dobj ho hm
  obtain ⟨hn, hl, hat⟩ := hm
  refine ⟨hn, hl, ?_⟩
  intro i hi hi'
  have := hat i hi hi'
  unfold AttrMatches at this
  cases hoa : o.attrs[i] with
  | none =>
    rw [hoa] at this
    cases hda : dobj.attrs[i] with
    | none => trivial
    | some c => rw [hda] at this; exact this
  | some a =>
    rw [hoa] at this
    cases hda : dobj.attrs[i] with
    | none => rw [hda] at this; exact this
    | some c =>
      rw [hda] at this
      obtain ⟨bl, hbl, rfl⟩ := this
      refine ⟨rfl, rfl, rfl, ?_⟩
      intro hne'
      have hmem : some a ∈ o.attrs := by rw [← hoa]; exact List.getElem_mem hi
      unfold attrValsL at hbl
      have he : a.vals.isEmpty = false := by cases hx : a.vals <;> simp_all
      simp only [he, Bool.false_eq_true, ↓reduceIte] at hbl
      cases hrc : a.rc with
      | none => rw [hrc] at hbl; simp at hbl
      | some r =>
        rw [hrc] at hbl
        simp only [attrContent, hrc, Option.getD_some]
        exact (values_fidelity r a.vals bl (hvals o ho a hmem) hbl).1

/-! non-vacuity -/
example : decodeVal 7 (beN 8 0x8000000000000000) = canon 7 (.f64 0x8000000000000000) := by decide +kernel
example : (encVal 21 (.dtime { year := 2020, month := 5, day := 17, hour := 12, minute := 30, second := 45, micro := 250500 })).toOption.bind
    (decodeVal 21) = some (.dtime { y := 120, tz := 2, month := 5, day := 17, hour := 12, minute := 30, second := 45, ms := 250 }) := by
  decide +kernel

end Dlis.C05

/-
  C05, link 2 — from what the user assigns to what the attribute holds and hands to the writer
  (`Model/Convert.lean`: the `value`/`units` setters, `convert_value`, the converters of every attribute kind,
  the inferred representation code, `count`).  Together with `decode_attr_fidelity` (held state -> file ->
  decoded value) these give the property end to end inside the model; the converter model is instantiated from
  the pinned table `Standard.convs`, which `Obligations.convs_eq` ties to the live package, and the `convert`
  correspondence stream compares it with the real setters on every attribute of every object type.
-/
namespace Dlis.C05
open Dlis

/-- text, names, references and plain attributes: the attribute holds exactly the values assigned, in order
(as a list when the attribute is multivalued) — nothing is converted, dropped or added -/
theorem assigned_held_exactly {a : AttrSpec} {hc : Bool} {mem : List PStr} {st st' : AttrState} {v : PyVal}
    (hi : a.conv.idLike = true) (h : setValue a hc mem st v = .ok st') :
    st'.value = (if a.multivalued then .list (itemsOf v) else v) ∧ st'.units = st.units := by
  simp only [setValue, bind_ok, pure_ok] at h
  obtain ⟨nv, hnv, rfl⟩ := h
  exact ⟨convertValue_idLike hi hnv, rfl⟩

/-- every converting attribute kind: as many values are held as were assigned, in the same order, each the
converter's image of the one assigned -/
theorem assigned_held_leafwise {a : AttrSpec} {hc : Bool} {mem : List PStr} {st st' : AttrState} {v : PyVal}
    (hl : a.conv.leafOnly = true) (h : setValue a hc mem st v = .ok st') :
    All2 (fun x y => applyConv a.conv hc (curRcFor a st.value) mem x = .ok y) (flattenV v) (flattenV st'.value) := by
  simp only [setValue, bind_ok, pure_ok] at h
  obtain ⟨nv, hnv, rfl⟩ := h
  exact convertValue_leaves hl hnv

/-- numbers: an accepted value is held as the integer it stands for, or as the double with the same bits
(a double) / the nearest double (an integer) -/
theorem numeric_value_kept {intOnly hc : Bool} {rc : Except Err (Option Nat)} {mem : List PStr} {v r : PyVal}
    (h : applyConv (.numeric intOnly) hc rc mem v = .ok r) :
    (∃ i, r = .int i ∧ intOf v = some i) ∨
    (∃ f, r = .float f ∧ (v = .float f ∨ (∃ i, v = .int i ∧ intToF64R i = some f) ∨
      (∃ b, v = .bool b ∧ f = if b then 0x3FF0000000000000 else 0))) := numeric_spec h

/-- … and the nearest double of an integer of magnitude ≤ 2^53 is that integer exactly -/
theorem int_as_double_exact (i : Int) (h : i.natAbs ≤ 2 ^ 53) : ∃ f, intToF64R i = some f ∧ f64ToInt f = some i :=
  intToF64R_exact i h

theorem status_value_kept {hc : Bool} {rc : Except Err (Option Nat)} {mem : List PStr} {v r : PyVal}
    (h : applyConv .status hc rc mem v = .ok r) :
    ∃ i, r = .int i ∧ (i = 0 ∨ i = 1) ∧ (intOf v = some i ∨ ∃ s ec p, v = .str s ec p ∧ p.asInt = some i) :=
  status_spec h

theorem dtime_value_kept {af hc : Bool} {rc : Except Err (Option Nat)} {mem : List PStr} {v r : PyVal}
    (h : applyConv (.dtime af) hc rc mem v = .ok r) :
    (∃ t, r = .dtime t ∧ (v = .dtime t ∨ ∃ s ec p, v = .str s ec p ∧ p.asDtime = some t)) ∨
    (af = true ∧ ∃ f, r = .float f) := dtime_spec h

/-- what the writer is handed are the held values, flattened in order, under the code `representation_code`
reports, with the units held; and the count written is their number -/
theorem writer_gets_held_values {a : AttrSpec} {st : AttrState} {s : AttrSt} (h : toAttrSt a st = .ok (some s)) :
    (flattenV st.value).mapM leafAVal = some s.vals ∧ reprCode a st.value = .ok s.rc ∧ s.units = st.units ∧
      pyCount a st.value = some s.count :=
  ⟨(toAttrSt_spec h).1, (toAttrSt_spec h).2.1, (toAttrSt_spec h).2.2.1, toAttrSt_count h⟩

/-- an attribute never assigned (value `None`) is written as the absent-attribute component -/
theorem unassigned_is_absent (a : AttrSpec) (u : Option PStr) :
    toAttrSt a (AttrState.mk PyVal.none u) = .ok none := rfl

/-- non-vacuity: a multidimensional numeric attribute given a nested list of an int, a float and a bool -/
example : (setValue (AttrSpec.mk (.numeric false) none true true true numericCodes) false []
      (AttrState.mk PyVal.none none)
      (.list [.int 3, .list [.float 0x4004000000000000, .bool true]])).toOption.map (·.value) =
    some (.list [.float 0x4008000000000000, .list [.float 0x4004000000000000, .float 0x3FF0000000000000]]) := by
  rfl

end Dlis.C05

/-
  C05, write-time defaults (`Model/Defaults.lean`): "the only additions are the documented write-time defaults" —
  a default or a derived value fills an attribute only where the user assigned nothing, and what is derived is
  consistent with the values.
-/
namespace Dlis.C05
open Dlis

/-- a DIMENSION the user assigned to a parameter / computation / calibration measurement is never replaced -/
theorem assigned_dimension_kept {d : List Nat} {v : PyVal} {r : Option (List Nat)}
    (h : checkOrSetDim (some d) v = .ok r) : r = some d := checkOrSetDim_keeps h

/-- a derived DIMENSION is the per-value shape of the values (or [1] for scalar values) -/
theorem derived_dimension_is_shape {dim r : Option (List Nat)} {v : PyVal} (hv : v ≠ .none)
    (h : checkOrSetDim dim v = .ok r) : ∃ sh, shapeV v = some sh ∧ r = some (dimOfShape sh) :=
  checkOrSetDim_consistent hv h

theorem parameter_dimension_kept {single : Bool} {values : PyVal} {zc : Option Nat} {d : List Nat}
    {axes : Option (List (Option Nat))} {r : Option (List Nat)} (hd : d ≠ [])
    (h : paramDefaults single values zc (some d) axes = .ok r) : r = some d := paramDefaults_keeps hd h

/-- a channel set up from its data: DIMENSION is the per-row shape; an ELEMENT-LIMIT the user assigned is kept as
assigned and covers the dimension; one that was not assigned equals the dimension -/
theorem channel_from_data {dimension limit : Option (List Nat)} {dim : List Nat} {d l : Option (List Nat)}
    (h : channelFromData dimension limit dim = .ok (d, l)) :
    d = some dim ∧ (truthyDim limit = true → l = limit ∧ limitCovers (limit.getD []) dim = true) ∧
      (truthyDim limit = false → l = some dim) := channelFromData_spec h

/-- the mutual default of DIMENSION and ELEMENT-LIMIT replaces neither when assigned -/
theorem channel_defaults_keep {dimension limit d l : Option (List Nat)} (h : dimAndLimit dimension limit = .ok (d, l)) :
    (truthyDim dimension = true → d = dimension) ∧ (truthyDim limit = true → l = limit) := dimAndLimit_keeps h

/-- the field name is WILDCAT exactly when none was assigned -/
theorem field_name_default (a : Option PStr) : originFieldName a = a.getD [87, 73, 76, 68, 67, 65, 84] := by
  cases a <;> rfl

example : channelFromData none (some [10]) [5] = .ok (some [5], some [10]) := by decide
example : paramDefaults true (.list [.list [.int 1, .int 2], .list [.int 3, .int 4]]) (some 2) none none = .ok (some [2]) := by rfl

end Dlis.C05
