/-
  C14 — Output depends only on the current specification, not on process history.

  Proved here: the `write_struct` cache is transparent.  In every reachable cache state (any sequence of earlier
  encodings of any values under any codes, with arbitrary evictions) a lookup returns exactly what the uncached
  encoder returns, because keys the typed cache deems equal encode identically (`pyEq_enc`): different Python types
  never share an entry, NaN never matches, and numeric zeros — the only equal values with different encodings —
  bypass the cache.  Together with C06/C05 (bytes are a function of the attribute state) this makes the EFLR/IFLR
  bytes independent of what was encoded before.
  PARTIAL / known findings (DESIGN.md): per-object state that survives a write — values derived from data
  (C13 finding), merged `_data_dict`, sticky cast dtype — is not covered by a theorem; it is exercised by the C14
  history oracle (fresh-process comparison).
-/
import Dlismodel.Proofs.FrameIdx
import Dlismodel.Model.Cache
import Dlismodel.Proofs.Defaults
namespace Dlis.C14
open Dlis

/-- entries are what the encoder returns for their own key, and no bypassed value is stored -/
def Coherent (c : Cache) : Prop := ∀ e ∈ c, e.2 = encVal e.1.1 e.1.2 ∧ bypass e.1.2 = false

theorem f64_eq_of_pyEq (a b : Nat) (h : pyEq (.f64 a) (.f64 b) = true) (ha : bypass (.f64 a) = false) : a = b := by
  simp only [pyEq, bypass, Bool.or_eq_true, Bool.and_eq_true, decide_eq_true_eq] at h ha
  rcases h with ⟨h1, _⟩ | ⟨h1, _⟩
  · exact h1
  · simp [h1] at ha

theorem f32_eq_of_pyEq (a b : Nat) (h : pyEq (.f32 a) (.f32 b) = true) (ha : bypass (.f32 a) = false) : a = b := by
  simp only [pyEq, bypass, Bool.or_eq_true, Bool.and_eq_true, decide_eq_true_eq] at h ha
  rcases h with ⟨h1, _⟩ | ⟨h1, _⟩
  · exact h1
  · simp [h1] at ha

/-- keys the cache deems equal are the same value (once zeros are excluded), hence encode identically -/
theorem pyEq_eq (k v : AVal) (h : pyEq k v = true) (hk : bypass k = false) : k = v := by
  cases k <;> cases v <;> simp only [pyEq, Bool.false_eq_true] at h
  · simp at h; rw [h]
  · simp at h; rw [h]
  · rw [f64_eq_of_pyEq _ _ h hk]
  · rw [f32_eq_of_pyEq _ _ h hk]
  · simp at h; rw [h]
  · simp at h; rw [h]
  · simp at h; rw [h.1, h.2]

theorem cacheFind_coherent (c : Cache) (hc : Coherent c) (rc : Nat) (v : AVal) (b : Except Err Bytes)
    (h : cacheFind c rc v = some b) : b = encVal rc v := by
  induction c with
  | nil => simp [cacheFind] at h
  | cons e rest ih =>
    obtain ⟨⟨r, k⟩, eb⟩ := e
    simp only [cacheFind] at h
    split at h
    · rename_i hm
      simp at h; subst h
      obtain ⟨h1, h2⟩ := hc ((r, k), eb) (by simp)
      simp only at h1 h2
      rw [h1, hm.1, pyEq_eq k v hm.2 h2]
    · exact ih (fun e he => hc e (by simp [he])) h

/-- one call: the result is the uncached encoding and the cache stays coherent -/
theorem cachedWrite_transparent (c : Cache) (hc : Coherent c) (rc : Nat) (v : AVal) :
    (cachedWrite c rc v).2 = encVal rc v ∧ Coherent (cachedWrite c rc v).1 := by
  unfold cachedWrite
  split
  · exact ⟨rfl, hc⟩
  · rename_i hb
    split
    · rename_i b hf
      exact ⟨cacheFind_coherent c hc rc v b hf, hc⟩
    · split
      · rename_i b he
        refine ⟨he.symm, ?_⟩
        intro e hmem
        simp only [List.mem_cons] at hmem
        rcases hmem with rfl | hmem
        · exact ⟨he.symm, by simpa using hb⟩
        · exact hc e hmem
      · rename_i e he
        exact ⟨he.symm, hc⟩

theorem evict_coherent (c : Cache) (keep : List Bool) (hc : Coherent c) : Coherent (evict c keep) := by
  intro e he
  simp only [evict, List.mem_filterMap] at he
  obtain ⟨⟨e', k⟩, hmem, hsome⟩ := he
  split at hsome
  · simp at hsome; subst hsome
    exact hc e' (List.of_mem_zip hmem).1
  · simp at hsome

/-- C14 for encoded values: after ANY history of earlier encodings (and evictions), encoding a value gives what
a fresh process gives -/
theorem history_independent (history : List (Nat × AVal × List Bool)) (rc : Nat) (v : AVal) :
    let c := history.foldl (fun c h => evict (cachedWrite c h.1 h.2.1).1 h.2.2) []
    (cachedWrite c rc v).2 = (cachedWrite [] rc v).2 := by
  intro c
  have hc : Coherent c := by
    suffices H : ∀ c0, Coherent c0 →
        Coherent (history.foldl (fun c h => evict (cachedWrite c h.1 h.2.1).1 h.2.2) c0) from
      H [] (by intro e he; simp at he)
    induction history with
    | nil => intro c0 h0; exact h0
    | cons h hs ih =>
      intro c0 h0
      simp only [List.foldl_cons]
      exact ih _ (evict_coherent _ _ (cachedWrite_transparent c0 h0 h.1 h.2.1).2)
  rw [(cachedWrite_transparent c hc rc v).1, (cachedWrite_transparent [] (by intro e he; simp at he) rc v).1]

/-- the two collisions of the unrepaired cache, as facts about the key equality: they are why zeros bypass and
why the cache is typed -/
theorem signed_zero_collides : pyEq (.f64 0) (.f64 (2 ^ 63)) = true ∧ encVal 7 (.f64 0) ≠ encVal 7 (.f64 (2 ^ 63)) := by
  decide +kernel
theorem types_never_collide (i : Int) (b : Bool) (f : Nat) :
    pyEq (.int i) (.bool b) = false ∧ pyEq (.int i) (.f64 f) = false ∧ pyEq (.bool b) (.f64 f) = false := ⟨rfl, rfl, rfl⟩

example : (cachedWrite [((7, .f64 0x3FF0000000000000), .ok [1])] 7 (.f64 0x3FF0000000000000)).2 = .ok [1] := by
  decide +kernel

/-! Values derived at write time: the DIMENSION of a parameter / computation / calibration measurement that the user
did not assign is derived from the values by the write-time checks (`Model/Defaults.lean`, `DimState`).  Whatever
checks went before — writes that succeeded or were refused, with whatever values — a check gives the outcome, and
leaves the dimension, that it gives on an item that only ever saw the user's own assignment. -/
theorem derived_dimension_history_independent (cs : List DimCheck) (c : DimCheck) (s : DimState) :
    c.run (dimHistory cs s) = c.run (DimState.assigned s.forget) := check_after_any_history cs c s

/-- what the user assigned is what every check starts from -/
theorem assigned_dimension_survives (cs : List DimCheck) (d : Option (List Nat)) :
    (dimHistory cs (DimState.assigned d)).forget = d := dimHistory_user cs (DimState.assigned d)

/-- a non-trivial instance: values of per-value shape [2], then of shape [3] (accepted: the dimension is derived anew),
then the user assigns [2] and the same values are refused -/
example :
    let v2 : PyVal := .list [.list [.int 1, .int 2]]
    let v3 : PyVal := .list [.list [.int 1, .int 2, .int 3]]
    let s1 := (paramCheckSt true v2 (some 1) none (DimState.assigned none)).1
    let r2 := paramCheckSt true v3 (some 1) none s1
    s1.held = some [2] ∧ r2.2 = .ok () ∧ r2.1.held = some [3] ∧
      (paramCheckSt true v3 (some 1) none (DimState.assigned (some [2]))).2 = .error .runtime := by
  decide +kernel

/-- the same for the index attributes a frame derives from the rows of a write (`Model/FrameIdx.lean`) -/
theorem derived_index_attributes_history_independent (h : List (Bool × Bool × List Int)) (hc indexed : Bool)
    (xs : List Int) (s : FrameIdx) :
    frameSetup hc indexed xs (frameHistory h s) = frameSetup hc indexed xs s.forget :=
  frameSetup_after_any_history h hc indexed xs s

end Dlis.C14
