/-
  C08 — A frame's channel descriptors match the layout of its data records.

  `codeOfDtype` / `sizeOfCode` are the standard's dtype ↔ representation code ↔ element size tables (the generated
  table of the live package is proved equal: Obligations.dtypeCodes_eq).  `channelDescriptor` is the model of
  ChannelItem.set_dimension_and_repr_code_from_data (+ the element-limit default).
-/
import Dlismodel.Proofs.Data
import Dlismodel.Generated.Obligations
namespace Dlis.C08
open Dlis

/-- representation code of a numpy dtype name (RP66 V1 App. B) -/
def codeOfDtype : String → Option Nat
  | "int8" => some 12 | "int16" => some 13 | "int32" => some 14
  | "uint8" => some 15 | "uint16" => some 16 | "uint32" => some 17
  | "float32" => some 2 | "float64" => some 7 | _ => none

/-- element size in bytes of a representation code used for channel data -/
def sizeOfCode : Nat → Option Nat
  | 12 => some 1 | 13 => some 2 | 14 => some 4 | 15 => some 1 | 16 => some 2 | 17 => some 4
  | 2 => some 4 | 7 => some 8 | _ => none

/-- the generated dtype → code table of the live package is exactly `codeOfDtype` -/
theorem dtype_table : ∀ p ∈ Generated.dtypeCodes, codeOfDtype p.1 = some p.2 := by decide

/-- what the writer puts into a channel's descriptor: code of the dtype written (the cast dtype if there is
one), DIMENSION = per-row shape ([1] for scalars), ELEMENT-LIMIT = the user's if it bounds the dimension, else
the dimension -/
structure ChanDesc where
  rc : Nat
  dimension : List Nat
  elementLimit : List Nat
  deriving Repr, DecidableEq

def bounds (el dim : List Nat) : Bool := dim.length ≤ el.length && (List.zipWith (fun e d => decide (d ≤ e)) el dim).all id

/-- per-row shape of the data: [w] for a 2-D dataset of width w, [1] for a 1-D one -/
def dimOf (width : Option Nat) : List Nat := match width with | some w => [w] | none => [1]

def channelDescriptor (dtype : String) (cast : Option String) (width : Option Nat) (userLimit : Option (List Nat)) :
    Option ChanDesc :=
  match codeOfDtype (cast.getD dtype), userLimit with
  | none, _ => none
  | some rc, none => some { rc := rc, dimension := dimOf width, elementLimit := dimOf width }
  | some rc, some el =>
    if el == dimOf width ∨ bounds el (dimOf width) then some { rc := rc, dimension := dimOf width, elementLimit := dimOf width }
    else none

/-- the descriptor determines the slot layout a reader uses, and it is the layout of the rows written -/
theorem descriptor_layout (dtype : String) (cast : Option String) (width : Option Nat) (ul : Option (List Nat))
    (d : ChanDesc) (h : channelDescriptor dtype cast width ul = some d) :
    codeOfDtype (cast.getD dtype) = some d.rc ∧ d.dimension = dimOf width ∧
      d.elementLimit = d.dimension ∧ (sizeOfCode d.rc).isSome := by
  unfold channelDescriptor at h
  have hsz : ∀ rc, codeOfDtype (cast.getD dtype) = some rc → (sizeOfCode rc).isSome := by
    intro rc hc
    unfold codeOfDtype at hc
    split at hc <;> simp at hc <;> subst hc <;> rfl
  split at h
  · simp at h
  · rename_i rc hc
    simp at h; subst h; exact ⟨hc, rfl, rfl, hsz rc hc⟩
  · rename_i rc el hc
    split at h
    · simp at h; subst h; exact ⟨hc, rfl, rfl, hsz rc hc⟩
    · simp at h

/-- the byte length of every frame-data record is reference + frame number + Σ code size × Π dimension over
the listed channels in listed order -/
theorem record_length (fr : ObName) (num : Int) (slots : List Slot) (b o n : Bytes)
    (ho : encObname fr = .ok o) (hn : encUvari num = .ok n) (h : frameDataBody fr num slots = .ok b) :
    b.length = o.length + n.length + layoutBytes (slots.map fun s => (s.size, s.elems.length)) :=
  frameDataBody_length fr num slots b o n ho hn h

example : channelDescriptor "float64" (some "float32") (some 5) none =
    some { rc := 2, dimension := [5], elementLimit := [5] } := by decide
example : channelDescriptor "int16" none none (some [3]) = some { rc := 13, dimension := [1], elementLimit := [1] } := by
  decide

end Dlis.C08
