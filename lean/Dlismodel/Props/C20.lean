/-
  C20 — A rejected call leaves no trace in later files.

  Proved: a rejected add_* call (before or after the object registered itself) leaves all objects, origin
  references, copy numbers and the header's origin untouched, and the set records written right afterwards are
  those of the state before the call (the set it may have created is empty and empty sets are never written);
  copy numbers of later objects depend on the registered objects only.
  `history_without_rejected_calls`: for EVERY history, the objects, header origins and set records are those of the
  history without its rejected calls, provided no add_origin call is rejected and different logical files name
  different sets (the two known findings are exactly the cases outside these provisos).
  PARTIAL: (a) the *order* of the set records may differ (an empty set created by a rejected call keeps its place
  in the registry): the statement is about membership; (b) the second half of the property (a write
  that raises leaves the specification able to produce the fresh file) is about values derived at write time
  (known finding D6) and is checked by the oracle only.
-/
import Dlismodel.Proofs.Api
import Dlismodel.Proofs.ApiSim
import Dlismodel.Proofs.Dataset
namespace Dlis.C20
open Dlis

theorem rejected_leaves_objects (w : World) (op : Op) (h : op.rejected = true) :
    (step w op).items = w.items ∧ (step w op).headerOrigin = w.headerOrigin :=
  rejected_keeps_items w op h

theorem later_copy_numbers_unaffected (w : World) (op : Op) (h : op.rejected = true) (k : Key) (n : PStr) :
    copyNumber (step w op) k n = copyNumber w k n :=
  copyNumber_items _ _ (rejected_keeps_items w op h).1 k n

/-- the records of a file written right after a rejected call are unchanged.  `hlocal`: the set the call names
is not one that only *other* logical files have put objects into (that is the shared-set configuration, which
C18 shows is rejected at write anyway). -/
theorem records_unchanged_item (w : World) (lf kind : Nat) (sn : Option PStr) (name : PStr) (oref : Option Int)
    (out : Outcome) (hout : out ≠ .ok) (hlf : lf < w.keys.length)
    (hlocal : (kind, normName sn) ∉ lfKeys w lf → itemsOfKey w (kind, normName sn) = []) (l : Nat) :
    setRecords (step w (.item lf kind sn name oref out)) l = setRecords w l := by
  simp only [step]
  split
  · rfl
  · have : addItem w lf kind (normName sn) name oref out = touchKey w lf (kind, normName sn) := by
      unfold addItem; cases out <;> simp_all
    rw [this]
    exact setRecords_touch_empty w l lf (kind, normName sn) hlf hlocal

theorem records_unchanged_origin (w : World) (lf : Nat) (sn : Option PStr) (name : PStr) (oref : Option Int)
    (out : Outcome) (hout : out ≠ .ok) (hlf : lf < w.keys.length)
    (hlocal : (0, normName sn) ∉ lfKeys w lf → itemsOfKey w (0, normName sn) = []) (l : Nat) :
    setRecords (step w (.origin lf sn name oref out)) l = setRecords w l := by
  have : (addOrigin w lf (normName sn) name oref out).1 = touchKey w lf (0, normName sn) := by
    unfold addOrigin
    simp only
    split
    · rfl
    · cases out <;> simp_all
  simp only [step, this]
  exact setRecords_touch_empty w l lf (0, normName sn) hlf hlocal

/-- all steps: any number of rejected calls, anywhere in the history, before or after the objects they could have
disturbed -/
theorem history_without_rejected_calls (n : Nat) (ops : List Op) (hv : ∀ op ∈ ops, op.lf < n)
    (hrej : ∀ op ∈ ops, op.rejected = true → op.isOrigin = false)
    (hdisj : ∀ a ∈ ops, ∀ b ∈ ops, a.key = b.key → a.lf = b.lf) :
    (run (World.init n) ops).items = (run (World.init n) (ops.filter fun o => !o.rejected)).items ∧
    (run (World.init n) ops).headerOrigin = (run (World.init n) (ops.filter fun o => !o.rejected)).headerOrigin ∧
    ∀ lf p, p ∈ setRecords (run (World.init n) ops) lf ↔
      p ∈ setRecords (run (World.init n) (ops.filter fun o => !o.rejected)) lf :=
  rejected_calls_invisible n ops hv hrej hdisj

/-- the provisos are met by a non-trivial history (two logical files, rejected calls of both kinds in between) -/
example :
    let ops : List Op := [.item 0 3 none [65] none .rejectLate, .origin 0 none [79] none .ok, .item 1 4 (some [83]) [66] none .rejectEarly,
      .item 0 3 none [65] none .ok, .origin 1 (some [84]) [80] (some 5) .ok, .item 1 4 (some [83]) [66] none .ok]
    (∀ op ∈ ops, op.lf < 2) ∧ (∀ op ∈ ops, op.rejected = true → op.isOrigin = false) ∧
      (∀ a ∈ ops, ∀ b ∈ ops, a.key = b.key → a.lf = b.lf) := by decide

/-- the first proviso cannot be dropped (known finding `rejected:trace:rejected-add_origin-created-its-set-first`):
a rejected `add_origin` that named a new set leaves that set in front of the one holding the intended defining
origin, so objects added later take another origin reference -/
theorem rejected_add_origin_is_visible :
    let ops : List Op := [.origin 0 (some [88]) [82] none .rejectLate, .origin 0 none [79] none .ok,
      .origin 0 (some [88]) [80] (some 7) .ok, .item 0 3 none [65] none .ok]
    (run (World.init 1) ops).items ≠ (run (World.init 1) (ops.filter fun o => !o.rejected)).items := by
  decide +kernel

/-- nor the second (known finding `rejected:changes-writability:set-of-another-logical-file`): a rejected call
through one logical file that names a set another logical file has objects in makes the write refuse -/
theorem rejected_call_on_foreign_set_is_visible :
    let ops : List Op := [.origin 0 none [79] none .ok, .origin 1 (some [84]) [80] none .ok,
      .item 0 3 none [65] none .ok, .item 1 3 none [66] none .rejectLate]
    writable (run (World.init 2) ops) = false ∧
      writable (run (World.init 2) (ops.filter fun o => !o.rejected)) = true := by
  decide +kernel

example : setRecords (run (World.init 1) [.origin 0 none [79] none .ok, .item 0 5 none [90] none .rejectLate]) 0 =
    setRecords (run (World.init 1) [.origin 0 none [79] none .ok]) 0 := by decide +kernel

/-- "dataset names … of objects added later are as if the call had never been made": the data set names given to
the accepted `add_channel` calls of any history are those the history gives without its rejected calls -/
theorem dataset_names_unaffected (taken : List PStr) (calls : List (PStr × Option PStr × Bool)) :
    ((datasetNames taken calls).zip calls).filterMap (fun p => if p.2.2.2 then some p.1 else none) =
      datasetNames taken (calls.filter fun c => c.2.2) := datasetNames_rejected_invisible taken calls

/-- and a name handed out is never one in use -/
theorem dataset_name_fresh {taken : List PStr} {name : PStr} {e : Option PStr} {d : PStr}
    (h : datasetName taken name e = .ok d) : d ∉ taken := datasetName_fresh h

example : datasetNames [] [([65], none, true), ([65], none, false), ([65], none, true), ([66], some [65], true)] =
    [.ok [65], .ok [65, 95, 95, 49], .ok [65, 95, 95, 49], .error .value] := by decide

end Dlis.C20
