/-
  C20 — A rejected call leaves no trace in later files.

  Proved, for the state machine of `LogicalFile.add_*` (Model/Api.lean): a rejected add_* call (before or after the
  object registered itself with its set) is the identity on the whole state — objects, origin references, copy
  numbers, header origins, the set registries of every logical file — so the state after ANY history is the state
  after the history without its rejected calls (`history_without_rejected_calls`), and with it everything a write
  derives from the state: writability and the set records of every logical file, in their order.
  (Until the repair recorded in KNOWN_FINDINGS.json — the set is registered with the logical file only once the
  object exists — two provisos were needed here, and their necessity was proved by two witnesses; those theorems are
  gone with the defect, and the harness histories that exhibited it now pass.)
  PARTIAL: the second half of the property (a write that raises leaves the specification able to produce the fresh
  file) is about values derived at write time and is checked by the streams `failed-write` / `refused-then-corrected`.
-/
import Dlismodel.Proofs.FrameIdx
import Dlismodel.Proofs.Api
import Dlismodel.Proofs.ApiSim
import Dlismodel.Proofs.Dataset
import Dlismodel.Proofs.Defaults
namespace Dlis.C20
open Dlis

/-- one step: nothing changes -/
theorem rejected_call_is_identity (w : World) (op : Op) (h : op.rejected = true) : step w op = w :=
  rejected_is_identity w op h

theorem rejected_leaves_objects (w : World) (op : Op) (h : op.rejected = true) :
    (step w op).items = w.items ∧ (step w op).headerOrigin = w.headerOrigin :=
  rejected_keeps_items w op h

theorem later_copy_numbers_unaffected (w : World) (op : Op) (h : op.rejected = true) (lf kind : Nat) (sn : Option PStr)
    (n : PStr) : copyNumber (step w op) lf kind sn n = copyNumber w lf kind sn n := by
  rw [rejected_is_identity w op h]

/-- all steps: any number of rejected calls, anywhere in the history, before or after the objects they could have
disturbed, through any logical file and naming any set: the state is that of the history without them -/
theorem history_without_rejected_calls (w : World) (ops : List Op) :
    run w ops = run w (ops.filter fun o => !o.rejected) :=
  rejected_calls_invisible w ops

/-- … hence so is everything a write takes from the state -/
theorem later_files_unaffected (n : Nat) (ops : List Op) :
    writable (run (World.init n) ops) = writable (run (World.init n) (ops.filter fun o => !o.rejected)) ∧
    ∀ lf, setRecords (run (World.init n) ops) lf = setRecords (run (World.init n) (ops.filter fun o => !o.rejected)) lf := by
  rw [← history_without_rejected_calls]
  exact ⟨rfl, fun _ => rfl⟩

/-- the histories that used to show a trace (a rejected add_origin naming a new set; a rejected call naming a set
another logical file has objects in) are non-trivial instances -/
example :
    let ops : List Op := [.origin 0 (some [88]) [82] none .rejectLate, .origin 0 none [79] none .ok,
      .origin 0 (some [88]) [80] (some 7) .ok, .item 0 3 none [65] none .ok]
    (run (World.init 1) ops).items = (run (World.init 1) (ops.filter fun o => !o.rejected)).items ∧
      (run (World.init 1) ops).items.length = 3 := by
  decide +kernel

example :
    let ops : List Op := [.origin 0 none [79] none .ok, .origin 1 (some [84]) [80] none .ok,
      .item 0 3 none [65] none .ok, .item 1 3 none [66] none .rejectLate]
    writable (run (World.init 2) ops) = true := by
  decide +kernel

/-- second half, for the values derived at write time that the model covers (`DimState`): a check that is refused —
also half-way, after an earlier attribute of a calibration measurement has fixed a dimension — leaves what the user
assigned, and the next check is the one a fresh specification gets -/
theorem refused_check_leaves_assignment (c : DimCheck) (s : DimState) (c' : DimCheck) :
    (c.run s).1.forget = s.forget ∧ c'.run (c.run s).1 = c'.run (DimState.assigned s.forget) :=
  ⟨DimCheck.run_user c s, by rw [DimCheck.run_fresh, DimCheck.run_user]⟩

/-- the refusal that used to leave a dimension behind: two attributes of a calibration measurement that disagree in
shape; corrected, the item is accepted -/
example :
    let a2 : PyVal := .list [.list [.int 1, .int 2], .list [.int 3, .int 4]]
    let a3 : PyVal := .list [.list [.int 1, .int 2, .int 3], .list [.int 4, .int 5, .int 6]]
    let r1 := calMeasCheckSt [a2, a3] none (DimState.assigned none)
    r1.2 = .error .runtime ∧ r1.1.held = some [2] ∧ r1.1.derived = true ∧
      (calMeasCheckSt [a3, a3] none r1.1).2 = .ok () ∧ (calMeasCheckSt [a3, a3] none r1.1).1.held = some [3] := by
  decide +kernel

/-- "dataset names … of objects added later are as if the call had never been made": the data set names given to
the accepted `add_channel` calls of any history are those the history gives without its rejected calls -/
theorem dataset_names_unaffected (taken : List PStr) (calls : List (PStr × Option PStr × Bool)) :
    ((datasetNames taken calls).zip calls).filterMap (fun p => if p.2.2.2 then some p.1 else none) =
      datasetNames taken (calls.filter fun c => c.2.2) := datasetNames_rejected_invisible taken calls

/-- and a name handed out is never one in use -/
theorem dataset_name_fresh {taken : List PStr} {name : PStr} {e : Option PStr} {d : PStr}
    (h : datasetName taken name e = .ok d) : d ∉ taken := datasetName_fresh h

example : datasetNames [] [([65], none, true), ([65], none, false), ([65], none, true), ([66], some [65], true)] =
    [.ok [65], .ok [65, 95, 95, 49], .ok [65, 95, 95, 49], .error .value] := by decide

/-- … and for the index attributes of a frame: a write refused while they are being derived (an unevenly spaced index in
high-compatibility mode, after INDEX-MIN / -MAX were assigned) leaves the user's assignments and nothing else -/
theorem refused_setup_leaves_assignment (hc indexed : Bool) (xs : List Int) (s : FrameIdx) (hc' indexed' : Bool)
    (xs' : List Int) :
    (frameSetup hc indexed xs s).1.forget = s.forget ∧
      frameSetup hc' indexed' xs' (frameSetup hc indexed xs s).1 = frameSetup hc' indexed' xs' s.forget :=
  ⟨frameSetup_user hc indexed xs s, by rw [frameSetup_fresh, frameSetup_user]⟩

example :
    let r1 := frameSetup true true [1000, 1001, 1004, 1009] (FrameIdx.user none none none none)
    r1.2 = .error .runtime ∧ r1.1.imax.held = some 1009 ∧ (frameSetup true true [4, 6, 8] r1.1).1.imax.held = some 8 := by
  decide +kernel

end Dlis.C20
