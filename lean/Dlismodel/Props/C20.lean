/-
  C20 — A rejected call leaves no trace in later files.

  Proved: a rejected add_* call (before or after the object registered itself) leaves all objects, origin
  references, copy numbers and the header's origin untouched, and the set records written right afterwards are
  those of the state before the call (the set it may have created is empty and empty sets are never written);
  copy numbers of later objects depend on the registered objects only.
  PARTIAL: (a) the effect of the extra empty set on the *order* of later sets and on origin defaults is covered
  by the history correspondence/oracle, not by a simulation theorem; (b) the second half of the property (a write
  that raises leaves the specification able to produce the fresh file) is about values derived at write time
  (known finding D6) and is checked by the oracle only.
-/
import Dlismodel.Proofs.Api
namespace Dlis.C20
open Dlis

theorem rejected_leaves_objects (w : World) (op : Op) (h : op.rejected = true) :
    (step w op).items = w.items ∧ (step w op).headerOrigin = w.headerOrigin :=
  rejected_keeps_items w op h

theorem later_copy_numbers_unaffected (w : World) (op : Op) (h : op.rejected = true) (k : Key) (n : PStr) :
    copyNumber (step w op) k n = copyNumber w k n :=
  copyNumber_items _ _ (rejected_keeps_items w op h).1 k n

/-- the records of a file written right after a rejected call are unchanged.  `hlocal`: the set the call names
is not one that only *other* logical files have put objects into (that is the shared-set configuration, which
C18 shows is rejected at write anyway). -/
theorem records_unchanged_item (w : World) (lf kind : Nat) (sn : Option PStr) (name : PStr) (oref : Option Int)
    (out : Outcome) (hout : out ≠ .ok) (hlf : lf < w.keys.length)
    (hlocal : (kind, sn) ∉ lfKeys w lf → itemsOfKey w (kind, sn) = []) (l : Nat) :
    setRecords (step w (.item lf kind sn name oref out)) l = setRecords w l := by
  simp only [step]
  split
  · rfl
  · have : addItem w lf kind sn name oref out = touchKey w lf (kind, sn) := by
      unfold addItem; cases out <;> simp_all
    rw [this]
    exact setRecords_touch_empty w l lf (kind, sn) hlf hlocal

theorem records_unchanged_origin (w : World) (lf : Nat) (sn : Option PStr) (name : PStr) (oref : Option Int)
    (out : Outcome) (hout : out ≠ .ok) (hlf : lf < w.keys.length)
    (hlocal : (0, sn) ∉ lfKeys w lf → itemsOfKey w (0, sn) = []) (l : Nat) :
    setRecords (step w (.origin lf sn name oref out)) l = setRecords w l := by
  have : (addOrigin w lf sn name oref out).1 = touchKey w lf (0, sn) := by
    unfold addOrigin
    simp only
    split
    · rfl
    · cases out <;> simp_all
  simp only [step, this]
  exact setRecords_touch_empty w l lf (0, sn) hlf hlocal

example : setRecords (run (World.init 1) [.origin 0 none [79] none .ok, .item 0 5 none [90] none .rejectLate]) 0 =
    setRecords (run (World.init 1) [.origin 0 none [79] none .ok]) 0 := by decide +kernel

end Dlis.C20
