/-
  L4 — the integer casts on the data path (`utils/source_data_wrappers.py`: a chunk is copied into the structured row
  array whose field types are the channels' cast dtypes, `chunk[name] = data[...]`, numpy "unsafe" casting): between
  the six integer types the library supports a value is reduced modulo 2^bits and read as two's complement.

  An integer cast to float64 is `float(i)` (`intToF64R`, exact for all the supported integer types); to float32 it is
  that double rounded to the nearest single (`f64ToF32`) — one rounding, since the first step is exact.
  (Casts FROM floating point are numpy's / the C compiler's and stay outside the model.)
-/
import Dlismodel.Model.Prim
import Dlismodel.Model.Eflr
import Dlismodel.Model.Convert
namespace Dlis

structure IntTy where
  bytes : Nat          -- 1, 2 or 4
  signed : Bool
  deriving Repr, DecidableEq

/-- the values the type holds -/
def IntTy.holds (t : IntTy) (v : Int) : Prop :=
  if t.signed then -((256 : Int) ^ t.bytes / 2) ≤ v ∧ v < (256 : Int) ^ t.bytes / 2
  else 0 ≤ v ∧ v < (256 : Int) ^ t.bytes

instance (t : IntTy) (v : Int) : Decidable (t.holds v) := by unfold IntTy.holds; exact inferInstance

/-- `numpy.ndarray.astype(t)` / assignment into an array of type `t`, for an integer value -/
def castInt (t : IntTy) (v : Int) : Int :=
  let r := v % (256 : Int) ^ t.bytes
  if t.signed && decide ((256 : Int) ^ t.bytes / 2 ≤ r) then r - (256 : Int) ^ t.bytes else r

/-- the bytes of the slot element: the channel's representation code is the one of its cast type -/
def encInt (t : IntTy) (v : Int) : Except Err Bytes := if t.signed then encS t.bytes v else encU t.bytes v
def decInt (t : IntTy) (bs : Bytes) : Option (Int × Bytes) := if t.signed then decS t.bytes bs else decU t.bytes bs

/-- `astype(float64)` of an integer: bit pattern of the double -/
def castIntToF64 (v : Int) : Option Nat := intToF64R v

/-- `astype(float32)` of an integer: bit pattern of the single -/
def castIntToF32 (v : Int) : Option Nat :=
  match intToF64R v with
  | some b => (match f64ToF32 b with | .ok s => some s | .error _ => none)
  | none => none

end Dlis
