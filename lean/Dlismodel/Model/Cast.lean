/-
  L4 — the integer casts on the data path (`utils/source_data_wrappers.py`: a chunk is copied into the structured row
  array whose field types are the channels' cast dtypes, `chunk[name] = data[...]`, numpy "unsafe" casting): between
  the six integer types the library supports a value is reduced modulo 2^bits and read as two's complement.

  (Casts from and to floating point are numpy's / the C compiler's and stay outside the model.)
-/
import Dlismodel.Model.Prim
namespace Dlis

structure IntTy where
  bytes : Nat          -- 1, 2 or 4
  signed : Bool
  deriving Repr, DecidableEq

/-- the values the type holds -/
def IntTy.holds (t : IntTy) (v : Int) : Prop :=
  if t.signed then -((256 : Int) ^ t.bytes / 2) ≤ v ∧ v < (256 : Int) ^ t.bytes / 2
  else 0 ≤ v ∧ v < (256 : Int) ^ t.bytes

instance (t : IntTy) (v : Int) : Decidable (t.holds v) := by unfold IntTy.holds; exact inferInstance

/-- `numpy.ndarray.astype(t)` / assignment into an array of type `t`, for an integer value -/
def castInt (t : IntTy) (v : Int) : Int :=
  let r := v % (256 : Int) ^ t.bytes
  if t.signed && decide ((256 : Int) ^ t.bytes / 2 ≤ r) then r - (256 : Int) ^ t.bytes else r

/-- the bytes of the slot element: the channel's representation code is the one of its cast type -/
def encInt (t : IntTy) (v : Int) : Except Err Bytes := if t.signed then encS t.bytes v else encU t.bytes v
def decInt (t : IntTy) (bs : Bytes) : Option (Int × Bytes) := if t.signed then decS t.bytes bs else decU t.bytes bs

end Dlis
