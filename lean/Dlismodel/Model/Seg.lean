/-
  L1 — logical-record segmentation, visible-record framing, storage unit label
  (`logical_record_bytes.py`, `segment_attributes.py`, `file/writer.py`, `storage_unit_label.py`,
  `converters.get_ascii_bytes`).
-/
import Dlismodel.Model.Prim
namespace Dlis

/-- a logical record before framing -/
structure Rec where
  isEflr : Bool
  type : Nat
  body : Bytes
  deriving Repr, DecidableEq

/-- one logical record segment, abstractly: flags + the payload bytes it carries -/
structure PSeg where
  eflr : Bool
  type : Nat
  pred : Bool      -- has predecessor
  succ : Bool      -- has successor
  payload : Bytes
  deriving Repr, DecidableEq

/-! ### the splitting loop of `make_segments` -/

/-- body size of the next segment: one iteration of the `while` loop -/
def stepSize (cap rem : Nat) : Nat :=
  let n := min rem cap
  let fut := rem - n
  if 0 < fut ∧ fut < 12 then n - (12 - fut) else n

/-- the sizes of all segment bodies (fuel = number of remaining bytes is always enough, see
`splitSizes_sum`) -/
def splitSizes (cap : Nat) : Nat → Nat → List Nat
  | 0, _ => []
  | fuel + 1, rem =>
    if rem = 0 then [] else
      let n := stepSize cap rem
      n :: splitSizes cap fuel (rem - n)

/-- cut a body into consecutive chunks of the given sizes -/
def cut : List Nat → Bytes → List Bytes
  | [], _ => []
  | n :: ns, b => b.take n :: cut ns (b.drop n)

/-- flag the chunks: only the first lacks `pred`, only the last lacks `succ` -/
def flagChunks (eflr : Bool) (ty : Nat) : Bool → List Bytes → List PSeg
  | _, [] => []
  | first, [c] => [{ eflr := eflr, type := ty, pred := !first, succ := false, payload := c }]
  | first, c :: cs => { eflr := eflr, type := ty, pred := !first, succ := true, payload := c } ::
      flagChunks eflr ty false cs

/-- `LogicalRecordBytes.make_segments(cap)` as a list of abstract segments -/
def segsOf (cap : Nat) (r : Rec) : List PSeg :=
  flagChunks r.isEflr r.type true (cut (splitSizes cap r.body.length r.body.length) r.body)

/-! ### bytes of a segment (`make_segment`) and of a visible record -/

/-- number of pad bytes: fill up to the 12-byte minimum body, then to even length -/
def padLen (n : Nat) : Nat :=
  let p := 12 - n
  if (n + p) % 2 = 1 then p + 1 else p

def attrByte (s : PSeg) (pad : Bool) : Nat :=
  (if s.eflr then 128 else 0) + (if s.pred then 64 else 0) + (if s.succ then 32 else 0) + (if pad then 1 else 0)

def encSeg (s : PSeg) : Bytes :=
  let p := padLen s.payload.length
  beN 2 (s.payload.length + p + 4) ++ [b8 (attrByte s (p != 0)), b8 s.type] ++ s.payload ++ List.replicate p (b8 p)

/-- `_make_visible_record`: 2-byte length, 0xFF 0x01, body -/
def encVR (body : Bytes) : Bytes := beN 2 (body.length + 4) ++ [0xFF, 0x01] ++ body

/-! ### storage unit label -/

def digitsAux : Nat → Nat → List Nat → List Nat
  | 0, _, acc => acc
  | fuel + 1, n, acc => if n < 10 then (48 + n) :: acc else digitsAux fuel (n / 10) ((48 + n % 10) :: acc)

/-- `str(n)` for a natural number -/
def natStr (n : Nat) : PStr := digitsAux (n + 1) n []

/-- `str(i)` for a Python int -/
def intStr (i : Int) : PStr := if i < 0 then 45 :: natStr i.natAbs else natStr i.toNat

/-- `get_ascii_bytes(value, required_length, justify_left)` -/
def justify (s : PStr) (len : Nat) (left : Bool) : Except Err Bytes :=
  if s.length > len then .error .value else
    let pad := List.replicate (len - s.length) 32
    asciiBytes (if left then s ++ pad else pad ++ s)

structure Cfg where
  vrl : Int         -- max_record_length as passed
  seq : PStr        -- str(sequence_number)
  setId : PStr
  deriving Repr, DecidableEq

def sV100 : PStr := [86, 49, 46, 48, 48]           -- "V1.00"
def sRECORD : PStr := [82, 69, 67, 79, 82, 68]     -- "RECORD"

/-- `StorageUnitLabel.represent_as_bytes` -/
def sulBytes (c : Cfg) : Except Err Bytes := do
  let a ← justify c.seq 4 false
  let b ← justify sV100 5 true
  let d ← justify sRECORD 6 false
  let e ← justify (intStr c.vrl) 5 false
  let f ← justify c.setId 60 true
  pure (a ++ b ++ d ++ e ++ f)

/-- `DLISWriter._check_visible_record_length` (for an `int`) -/
def vrlValid (vrl : Int) : Bool := 20 ≤ vrl ∧ vrl ≤ 16384 ∧ vrl % 2 = 0

/-- all segments of all records, one visible record per segment (`write_logical_records`) -/
def frameRecs (vrl : Nat) (recs : List Rec) : Bytes :=
  ((recs.flatMap (segsOf (vrl - 8))).map (fun s => encVR (encSeg s))).flatten

/-- the whole file: SUL then visible records.  Errors: invalid record length, SUL fields that do
not fit / are not ASCII. -/
def frameFile (c : Cfg) (recs : List Rec) : Except Err Bytes :=
  if !vrlValid c.vrl then .error .value else do
    let sul ← sulBytes c
    pure (sul ++ frameRecs c.vrl.toNat recs)

end Dlis
