/-
  Line-protocol driver: one request per line on stdin, one reply per line on stdout.
  The harness (Python, calling the real dliswriter in-process) sends the same inputs and diffs.
-/
import Dlismodel.Model.Prim
import Dlismodel.Model.Seg
import Dlismodel.Model.Parse
import Dlismodel.Model.Eflr
import Dlismodel.Model.ParseEflr
import Dlismodel.Model.Iflr
import Dlismodel.Model.Api
import Dlismodel.Model.Checks
import Dlismodel.Model.Cast
import Dlismodel.Model.Output
import Dlismodel.Model.Index
import Dlismodel.Model.FrameIdx
import Dlismodel.Model.Hc
import Dlismodel.Model.File
import Dlismodel.Model.DriverConv
namespace Dlis

def hexDigit (n : Nat) : Char := if n < 10 then Char.ofNat (48 + n) else Char.ofNat (87 + n)

def hexOfBytes (bs : Bytes) : String :=
  String.ofList (bs.foldr (fun b acc => hexDigit (b.toNat / 16) :: hexDigit (b.toNat % 16) :: acc) [])

def hexVal (c : Char) : Option Nat :=
  if '0' ≤ c ∧ c ≤ '9' then some (c.toNat - 48)
  else if 'a' ≤ c ∧ c ≤ 'f' then some (c.toNat - 87)
  else if 'A' ≤ c ∧ c ≤ 'F' then some (c.toNat - 55)
  else none

partial def bytesOfHexAux : List Char → List UInt8 → Option Bytes
  | [], acc => some acc.reverse
  | a :: b :: rest, acc =>
    match hexVal a, hexVal b with
    | some x, some y => bytesOfHexAux rest (UInt8.ofNat (x * 16 + y) :: acc)
    | _, _ => none
  | _, _ => none

/-- "-" is the empty byte string -/
def bytesOfHex (s : String) : Option Bytes :=
  if s == "-" then some [] else bytesOfHexAux s.toList []

def hexOrDash (bs : Bytes) : String := if bs.isEmpty then "-" else hexOfBytes bs

/-- code points: "-" (empty) or comma separated decimals -/
def parseCps (s : String) : Option PStr :=
  if s == "-" then some [] else (s.splitOn ",").mapM (·.toNat?)

def showRes (r : Except Err Bytes) : String :=
  match r with
  | .ok b => "ok " ++ hexOrDash b
  | .error e => "err " ++ e.name

def showBool (b : Bool) : String := if b then "1" else "0"

def parseRecs : List String → Option (List Rec)
  | [] => some []
  | e :: t :: h :: rest => do
    let ty ← t.toNat?
    let b ← bytesOfHex h
    let rs ← parseRecs rest
    pure ({ isEflr := e == "1", type := ty, body := b } :: rs)
  | _ => none

def showRec (r : Rec) : String := s!"{showBool r.isEflr}:{r.type}:{hexOrDash r.body}"
def showSeg (s : PSeg) : String :=
  s!"{showBool s.eflr}:{s.type}:{showBool s.pred}:{showBool s.succ}:{hexOrDash s.payload}"

/-! ### tokens of an EFLR set description -/

def optCps (s : String) : Option (Option PStr) :=
  if s == "~" then some none else (parseCps s).map some

def parseAVal (s : String) : Option AVal :=
  match s.splitOn ":" with
  | ["i", v] => v.toInt?.map AVal.int
  | ["b", v] => some (AVal.bool (v == "1"))
  | ["d", v] => v.toNat?.map AVal.f64
  | ["s", v] => v.toNat?.map AVal.f32
  | ["t", v] => (parseCps v).map AVal.str
  | ["T", v] =>
    match (v.splitOn ",").map String.toInt? with
    | [some y, some mo, some d, some h, some mi, some se, some us] =>
      some (AVal.dtime { year := y, month := mo.toNat, day := d.toNat, hour := h.toNat, minute := mi.toNat,
                         second := se.toNat, micro := us.toNat })
    | _ => none
  | ["o", st, o, c, n] =>
    match parseCps st, o.toInt?, c.toInt?, parseCps n with
    | some st, some o, some c, some n => some (AVal.obj st { origin := o, copy := c, name := n })
    | _, _, _, _ => none
  | _ => none

def takeVals : Nat → List String → Option (List AVal × List String)
  | 0, ts => some ([], ts)
  | n + 1, t :: ts => do
    let v ← parseAVal t
    let (vs, r) ← takeVals n ts
    pure (v :: vs, r)
  | _, _ => none

def takeAttr : List String → Option (Option AttrSt × List String)
  | "~" :: ts => some (none, ts)
  | "A" :: rc :: u :: il :: n :: ts => do
    let rc ← if rc == "~" then some none else rc.toNat?.map some
    let u ← optCps u
    let n ← n.toNat?
    let (vs, r) ← takeVals n ts
    pure (some { rc := rc, units := u, isList := il == "1", vals := vs }, r)
  | _ => none

def takeAttrs : Nat → List String → Option (List (Option AttrSt) × List String)
  | 0, ts => some ([], ts)
  | n + 1, ts => do
    let (a, r) ← takeAttr ts
    let (as, r') ← takeAttrs n r
    pure (a :: as, r')

def takeObjs : Nat → List String → Option (List ObjDesc × List String)
  | 0, ts => some ([], ts)
  | n + 1, o :: c :: nm :: na :: ts => do
    let o ← o.toInt?
    let c ← c.toInt?
    let nm ← parseCps nm
    let na ← na.toNat?
    let (as, r) ← takeAttrs na ts
    let (os, r') ← takeObjs n r
    pure ({ name := { origin := o, copy := c, name := nm }, attrs := as } :: os, r')
  | _, _ => none

def takeLabels : Nat → List String → Option (List PStr × List String)
  | 0, ts => some ([], ts)
  | n + 1, t :: ts => do
    let l ← parseCps t
    let (ls, r) ← takeLabels n ts
    pure (l :: ls, r)
  | _, _ => none

/-- a set description at the head of the token list -/
def takeSetDesc (ts : List String) : Option (SetDesc × List String) :=
  match ts with
  | ty :: nm :: nl :: rest => do
    let ty ← parseCps ty
    let nm ← optCps nm
    let nl ← nl.toNat?
    let (ls, r) ← takeLabels nl rest
    match r with
    | no :: r' => do
      let no ← no.toNat?
      let (os, r'') ← takeObjs no r'
      pure ({ type := ty, name := nm, labels := ls, objects := os }, r'')
    | [] => none
  | _ => none

def parseSetDesc (ts : List String) : Option SetDesc :=
  match ts with
  | ty :: nm :: nl :: rest => do
    let ty ← parseCps ty
    let nm ← optCps nm
    let nl ← nl.toNat?
    let (ls, r) ← takeLabels nl rest
    match r with
    | no :: r' => do
      let no ← no.toNat?
      let (os, r'') ← takeObjs no r'
      if r''.isEmpty then pure { type := ty, name := nm, labels := ls, objects := os } else none
    | [] => none
  | _ => none

def showDAttr : Option DAttr → String
  | none => "~"
  | some a => s!"{a.count}:{a.rc}:{hexOrDash a.units}:" ++ (if a.vals.isEmpty then "-" else ",".intercalate (a.vals.map hexOrDash))

def showDSet (d : DSet) : String :=
  let nm := match d.name with | some n => hexOrDash n | none => "~"
  let t := " ".intercalate (d.template.map fun t => s!"{hexOrDash t.label}:{t.count}:{t.rc}:{hexOrDash t.units}")
  let os := " ".intercalate (d.objects.map fun o =>
    s!"O{o.name.origin},{o.name.copy},{hexOrDash o.name.name}|" ++ ";".intercalate (o.attrs.map showDAttr))
  s!"ok type={hexOrDash d.type} name={nm} T[{t}] {os}"

/-- canonical form of one decoded value (no spaces, commas, colons or semicolons inside) -/
def showVal (rc : Nat) (b : Bytes) : String :=
  let int (r : Option (Int × Bytes)) := match r with | some (v, []) => s!"i{v}" | _ => "?"
  match rc with
  | 12 => int (decS 1 b) | 13 => int (decS 2 b) | 14 => int (decS 4 b)
  | 15 => int (decU 1 b) | 16 => int (decU 2 b) | 17 => int (decU 4 b)
  | 18 => match decUvari b with | some (v, []) => s!"i{v}" | _ => "?"
  | 26 => match decStatus b with | some (v, []) => s!"i{v}" | _ => "?"
  | 2 => match rdN 4 b with | some (v, []) => s!"s{v}" | _ => "?"
  | 7 => match rdN 8 b with | some (v, []) => s!"d{v}" | _ => "?"
  | 19 => match decIdent b with | some (t, []) => s!"t{hexOrDash t}" | _ => "?"
  | 27 => match decIdent b with | some (t, []) => s!"t{hexOrDash t}" | _ => "?"
  | 20 => match decAscii b with | some (t, []) => s!"t{hexOrDash t}" | _ => "?"
  | 21 => match decDtime b with
    | some (v, []) => s!"T{v.y}.{v.tz}.{v.month}.{v.day}.{v.hour}.{v.minute}.{v.second}.{v.ms}" | _ => "?"
  | 23 => match decObname b with | some (v, []) => s!"o{v.origin}.{v.copy}.{hexOrDash v.name}" | _ => "?"
  | 24 => match decObjref b with
    | some ((t, v), []) => s!"r{hexOrDash t}.{v.origin}.{v.copy}.{hexOrDash v.name}" | _ => "?"
  | _ => "x" ++ hexOrDash b

def showDAttrV : Option DAttr → String
  | none => "~"
  | some a => s!"{a.count}:{a.rc}:{hexOrDash a.units}:" ++
      (if a.vals.isEmpty then "-" else ",".intercalate (a.vals.map (showVal a.rc)))

def showDSetV (d : DSet) : String :=
  let nm := match d.name with | some n => hexOrDash n | none => "~"
  let t := " ".intercalate (d.template.map fun t => s!"{hexOrDash t.label}:{t.count}:{t.rc}:{hexOrDash t.units}")
  let os := " ".intercalate (d.objects.map fun o =>
    s!"O{o.name.origin},{o.name.copy},{hexOrDash o.name.name}|" ++ ";".intercalate (o.attrs.map showDAttrV))
  s!"type={hexOrDash d.type} name={nm} T[{t}] {os}"

/-- whole-file dump: every logical record, explicitly formatted ones decoded under the component grammar -/
def dumpRecs (recs : List Rec) : String :=
  " | ".intercalate (recs.map fun r =>
    if r.isEflr then
      match parseEflr r.body with
      | some d => s!"E{r.type} " ++ showDSetV d
      | none => s!"E{r.type} UNDECODABLE {hexOrDash r.body}"
    else s!"I{r.type} {hexOrDash r.body}")

/-! ### API histories -/

def showCps (s : PStr) : String := if s.isEmpty then "-" else ",".intercalate (s.map toString)
def showOptCps : Option PStr → String | none => "~" | some s => showCps s
def showOptInt : Option Int → String | none => "~" | some i => toString i
def showKey (k : Key) : String := s!"{k.1}:{showOptCps k.2}"
def showItem (it : Item) : String := s!"{showCps it.name}/{showOptInt it.origin}/{it.copy}/{it.lf}"

def parseOutcome : String → Option Outcome
  | "ok" => some .ok | "early" => some .rejectEarly | "late" => some .rejectLate | _ => none

def parseOp (t : String) : Option Op :=
  match t.splitOn "|" with
  | ["I", lf, kind, sn, name, oref, out] => do
    let lf ← lf.toNat?; let kind ← kind.toNat?; let sn ← optCps sn; let name ← parseCps name
    let oref ← (if oref == "~" then some none else oref.toInt?.map some); let out ← parseOutcome out
    pure (Op.item lf kind sn name oref out)
  | ["O", lf, sn, name, oref, out] => do
    let lf ← lf.toNat?; let sn ← optCps sn; let name ← parseCps name
    let oref ← (if oref == "~" then some none else oref.toInt?.map some); let out ← parseOutcome out
    pure (Op.origin lf sn name oref out)
  | _ => none

def showWorld (w : World) : String :=
  let lfs := (List.range w.keys.length).map fun lf =>
    s!"hdr={showOptInt ((w.headerOrigin.getD lf none))} K=" ++ ",".intercalate ((lfKeys w lf).map showKey) ++ " R=" ++
      ";".intercalate ((setRecords w lf).map fun (k, its) => showKey k ++ "=" ++ "+".intercalate (its.map showItem))
  s!"W{if writable w then 1 else 0} items=" ++ "+".intercalate (w.items.map showItem) ++ " # " ++ " # ".intercalate lfs

/-! ### write-time object checks: `chk <n_lf> <chanK> <frameK> <fid bits> <edges> <ops…>` -/

def parseEdges (s : String) : Option (List Edge) :=
  if s == "-" then some [] else (s.splitOn ",").mapM fun (t : String) =>
    match t.splitOn ":" with
    | [a, b, v] => match a.toNat?, b.toNat? with
      | some a, some b => some { holder := a, target := b, viaChannels := v == "1" }
      | _, _ => none
    | _ => none

def showCheckErr : CheckErr → String
  | .noOrigin => "no-origin" | .noChannels => "no-channels" | .noFrames => "no-frames"
  | .channelNotRegistered => "channel-not-registered" | .channelFrameCount => "channel-frame-count" | .fileIdMismatch => "file-id"
  | .foreignReference => "foreign-reference" | .sharedSet => "shared-set"

def handleChk (hc : Bool) : List String → String
  | n :: c :: f :: fid :: es :: ops =>
    match n.toNat?, c.toNat?, f.toNat?, parseEdges es, ops.mapM parseOp with
    | some n, some c, some f, some es, some ops =>
      let bits := fid.toList
      match acceptWriteHc hc (run (World.init n) ops) c f es (fun lf => bits.getD lf '1' == '1') with
      | .ok _ => "ok"
      | .error e => "err " ++ showCheckErr e
    | _, _, _, _, _ => "bad"
  | _ => "bad"

/-! ### a whole write: `wfile …` -/

def parseSlots (slots : String) : Option (List Slot) :=
  if slots == "-" then some [] else (slots.splitOn ";").mapM fun (t : String) =>
    match t.splitOn "x" with
    | [a, es] => match a.toNat?, (if es == "" then some [] else (es.splitOn ",").mapM String.toNat?) with
      | some a, some es => some { size := a, elems := es } | _, _ => none
    | _ => none

def takeSets : Nat → List String → Option (List (Nat × SetDesc) × List String)
  | 0, ts => some ([], ts)
  | n + 1, ty :: ts => do
    let ty ← ty.toNat?
    let (sd, r) ← takeSetDesc ts
    let (rest, r') ← takeSets n r
    pure ((ty, sd) :: rest, r')
  | _, _ => none

def takeNoFormats : Nat → List String → Option (List (ObName × Bytes) × List String)
  | 0, ts => some ([], ts)
  | n + 1, o :: c :: nm :: h :: ts => do
    let o ← o.toInt?
    let c ← c.toInt?
    let nm ← parseCps nm
    let b ← bytesOfHex h
    let (rest, r) ← takeNoFormats n ts
    pure (({ origin := o, copy := c, name := nm }, b) :: rest, r)
  | _, _ => none

def takeRowsW : Nat → List String → Option (List (List Slot) × List String)
  | 0, ts => some ([], ts)
  | n + 1, t :: ts => do
    let sl ← parseSlots t
    let (rest, r) ← takeRowsW n ts
    pure (sl :: rest, r)
  | _, _ => none

def takeFrames : Nat → List String → Option (List FrameSpec × List String)
  | 0, ts => some ([], ts)
  | n + 1, o :: c :: nm :: nr :: ts => do
    let o ← o.toInt?
    let c ← c.toInt?
    let nm ← parseCps nm
    let nr ← nr.toNat?
    let (rows, r) ← takeRowsW nr ts
    let (rest, r') ← takeFrames n r
    pure ({ frame := { origin := o, copy := c, name := nm }, rows := rows } :: rest, r')
  | _, _ => none

def takeLfs : Nat → List String → Option (List LfSpec × List String)
  | 0, ts => some ([], ts)
  | n + 1, ho :: hc :: hn :: sq :: hid :: ns :: ts => do
    let ho ← ho.toInt?
    let hc ← hc.toInt?
    let hn ← parseCps hn
    let sq ← sq.toInt?
    let hid ← parseCps hid
    let ns ← ns.toNat?
    let (sets, r) ← takeSets ns ts
    match r with
    | nn :: r1 => do
      let nn ← nn.toNat?
      let (nfs, r2) ← takeNoFormats nn r1
      match r2 with
      | nf :: r3 => do
        let nf ← nf.toNat?
        let (frs, r4) ← takeFrames nf r3
        let (rest, r5) ← takeLfs n r4
        pure ({ headerName := { origin := ho, copy := hc, name := hn }, seqNo := sq, headerId := hid, sets := sets,
                noformat := nfs, frames := frs } :: rest, r5)
      | [] => none
    | [] => none
  | _, _ => none

def handleWfile : List String → String
  | vrl :: seq :: sid :: fr :: to :: ch :: n :: rest =>
    match vrl.toInt?, parseCps seq, parseCps sid, fr.toNat?, (if to == "~" then some none else to.toNat?.map some),
          (if ch == "~" then some none else ch.toNat?.map some), n.toNat? with
    | some vrl, some seq, some sid, some fr, some to, some ch, some n =>
      match takeLfs n rest with
      | some (lfs, []) => showRes (modelWrite { vrl := vrl, seq := seq, setId := sid } { fromIdx := fr, toIdx := to, chunk := ch } lfs)
      | _ => "bad"
    | _, _, _, _, _, _, _ => "bad"
  | _ => "bad"

/-- `fidx <min> <max> <spacing*2> <inc|dec|~> <steps…>`: successive setups of ONE frame; a step is
`S <hc> <indexed> <rows> <min> <max> <spacing*2> <direction>`, the last four being `=` or a value the user assigns
before the write; reply per step `ok|err min max spacing*2 direction`, joined by `;` -/
def pOptInt (t : String) : Option (Option Int) := if t == "~" then some none else t.toInt?.map some
def pOptDir (t : String) : Option (Option Bool) :=
  if t == "~" then some none else if t == "inc" then some (some true) else if t == "dec" then some (some false) else none
def showPartInt (p : IdxPart Int) : String := match p.held with | none => "~" | some v => toString v
def showPartDir (p : IdxPart Bool) : String := match p.held with | none => "~" | some true => "inc" | some false => "dec"

partial def runFidxSteps (s : FrameIdx) (acc : List String) : List String → String
  | [] => ";".intercalate acc.reverse
  | "S" :: hc :: indexed :: rows :: amn :: amx :: asp :: adi :: rest =>
    match (if rows == "-" then some [] else (rows.splitOn ",").mapM String.toInt?) with
    | some xs =>
      let upd {α : Type} (t : String) (f : String → Option (Option α)) (p : IdxPart α) : Option (IdxPart α) :=
        if t == "=" then some p else (f t).map IdxPart.user
      match upd amn pOptInt s.imin, upd amx pOptInt s.imax, upd asp pOptInt s.spacing, upd adi pOptDir s.direction with
      | some a, some b, some c, some d =>
        let s0 : FrameIdx := { imin := a, imax := b, spacing := c, direction := d }
        let (s1, r) := frameSetup (hc == "1") (indexed == "1") xs s0
        let line := (match r with | .ok _ => "ok" | .error _ => "err") ++ " " ++ showPartInt s1.imin ++ " " ++
          showPartInt s1.imax ++ " " ++ showPartInt s1.spacing ++ " " ++ showPartDir s1.direction
        runFidxSteps s1 (line :: acc) rest
      | _, _, _, _ => "bad"
    | none => "bad"
  | _ => "bad"

def handleFidx : List String → String
  | mn :: mx :: sp :: di :: steps =>
    match pOptInt mn, pOptInt mx, pOptInt sp, pOptDir di with
    | some a, some b, some c, some d => runFidxSteps (FrameIdx.user a b c d) [] steps
    | _, _, _, _ => "bad"
  | _ => "bad"

def handle (ws : List String) : String :=
  match ws with
  | ["U", k, v] => match k.toNat?, v.toInt? with
    | some k, some v => showRes (encU k v) | _, _ => "bad"
  | ["S", k, v] => match k.toNat?, v.toInt? with
    | some k, some v => showRes (encS k v) | _, _ => "bad"
  | ["uvari", v] => match v.toInt? with
    | some v => showRes (encUvari v) | _ => "bad"
  | ["status", v] => match v.toInt? with
    | some v => showRes (encStatus v) | _ => "bad"
  | ["ascii", s] => match parseCps s with
    | some s => showRes (encAscii s) | _ => "bad"
  | ["ident", s] => match parseCps s with
    | some s => showRes (encIdent s) | _ => "bad"
  | ["dtime", y, mo, d, h, mi, s, us] =>
    match y.toInt?, mo.toNat?, d.toNat?, h.toNat?, mi.toNat?, s.toNat?, us.toNat? with
    | some y, some mo, some d, some h, some mi, some s, some us =>
      showRes (encDtime { year := y, month := mo, day := d, hour := h, minute := mi, second := s, micro := us })
    | _, _, _, _, _, _, _ => "bad"
  | ["obname", o, c, n] => match o.toInt?, c.toInt?, parseCps n with
    | some o, some c, some n => showRes (encObname { origin := o, copy := c, name := n })
    | _, _, _ => "bad"
  | ["objref", t, o, c, n] => match parseCps t, o.toInt?, c.toInt?, parseCps n with
    | some t, some o, some c, some n => showRes (encObjref t { origin := o, copy := c, name := n })
    | _, _, _, _ => "bad"
  | "eflr" :: rest => match parseSetDesc rest with
    | some sd => showRes (setBody sd) | none => "bad"
  | ["fh", o, c, n, sq, hid] => match o.toInt?, c.toInt?, parseCps n, sq.toInt?, parseCps hid with
    | some o, some c, some n, some sq, some hid => showRes (fileHeaderBody { origin := o, copy := c, name := n } sq hid)
    | _, _, _, _, _ => "bad"
  | ["peflr", h] => match bytesOfHex h with
    | some bs => match parseEflr bs with | some d => showDSet d | none => "none"
    | none => "bad"
  | ["val", rc, v] => match rc.toNat?, parseAVal v with
    | some rc, some v => showRes (encVal rc v) | _, _ => "bad"
  | ["bits", k, v] => match k.toNat?, v.toNat? with
    | some k, some v => if v < 256 ^ k then "ok " ++ hexOrDash (beN k v) else "err struct" | _, _ => "bad"
  | ["ms", us] => match us.toNat? with
    | some us => toString (msOfMicro us) | _ => "bad"
  -- decoders: reply "ok <canonical value> <rest hex>" or "none"
  | ["dec", kind, h] =>
    match bytesOfHex h with
    | none => "bad"
    | some bs =>
      match kind with
      | "uvari" => match decUvari bs with
        | some (n, r) => s!"ok {n} {hexOrDash r}" | none => "none"
      | "ascii" => match decAscii bs with
        | some (s, r) => s!"ok {hexOrDash s} {hexOrDash r}" | none => "none"
      | "ident" => match decIdent bs with
        | some (s, r) => s!"ok {hexOrDash s} {hexOrDash r}" | none => "none"
      | "dtime" => match decDtime bs with
        | some (v, r) => s!"ok {v.y},{v.tz},{v.month},{v.day},{v.hour},{v.minute},{v.second},{v.ms} {hexOrDash r}"
        | none => "none"
      | "obname" => match decObname bs with
        | some (v, r) => s!"ok {v.origin},{v.copy},{hexOrDash v.name} {hexOrDash r}" | none => "none"
      | "objref" => match decObjref bs with
        | some ((t, v), r) => s!"ok {hexOrDash t},{v.origin},{v.copy},{hexOrDash v.name} {hexOrDash r}"
        | none => "none"
      | "status" => match decStatus bs with
        | some (v, r) => s!"ok {v} {hexOrDash r}" | none => "none"
      | "U1" => match decU 1 bs with | some (v, r) => s!"ok {v} {hexOrDash r}" | none => "none"
      | "U2" => match decU 2 bs with | some (v, r) => s!"ok {v} {hexOrDash r}" | none => "none"
      | "U4" => match decU 4 bs with | some (v, r) => s!"ok {v} {hexOrDash r}" | none => "none"
      | "S1" => match decS 1 bs with | some (v, r) => s!"ok {v} {hexOrDash r}" | none => "none"
      | "S2" => match decS 2 bs with | some (v, r) => s!"ok {v} {hexOrDash r}" | none => "none"
      | "S4" => match decS 4 bs with | some (v, r) => s!"ok {v} {hexOrDash r}" | none => "none"
      | _ => "bad"
  -- segmentation of one record body with a given capacity: the encoded segments
  | ["segs", cap, e, t, h] =>
    match cap.toInt?, t.toNat?, bytesOfHex h with
    | some cap, some t, some b =>
      if cap < 12 then "err value" else
      "ok " ++ ",".intercalate ((segsOf cap.toNat { isEflr := e == "1", type := t, body := b }).map
        (fun s => hexOfBytes (encSeg s)))
    | _, _, _ => "bad"
  | "file" :: vrl :: seq :: sid :: recs =>
    match vrl.toInt?, parseCps seq, parseCps sid, parseRecs recs with
    | some vrl, some seq, some sid, some recs => showRes (frameFile { vrl := vrl, seq := seq, setId := sid } recs)
    | _, _, _, _ => "bad"
  | ["sul", vrl, seq, sid] =>
    match vrl.toInt?, parseCps seq, parseCps sid with
    | some vrl, some seq, some sid => showRes (sulBytes { vrl := vrl, seq := seq, setId := sid })
    | _, _, _ => "bad"
  | ["read", vrl, seq, sid, h] =>
    match vrl.toInt?, parseCps seq, parseCps sid, bytesOfHex h with
    | some vrl, some seq, some sid, some bs =>
      match readFile { vrl := vrl, seq := seq, setId := sid } bs with
      | some recs => "ok " ++ (if recs.isEmpty then "-" else ";".intercalate (recs.map showRec))
      | none => "none"
    | _, _, _, _ => "bad"
  | ["dump", vrl, seq, sid, h] =>
    match vrl.toInt?, parseCps seq, parseCps sid, bytesOfHex h with
    | some vrl, some seq, some sid, some bs =>
      match readFile { vrl := vrl, seq := seq, setId := sid } bs with
      | some recs => "ok " ++ dumpRecs recs
      | none => "none"
    | _, _, _, _ => "bad"
  -- frame data: layout "size x count , ..." then the record body
  | ["fdata", lay, h] =>
    let lay? : Option (List (Nat × Nat)) := (lay.splitOn ",").mapM fun t =>
      match t.splitOn "x" with
      | [a, b] => match a.toNat?, b.toNat? with | some a, some b => some (a, b) | _, _ => none
      | _ => none
    match lay?, bytesOfHex h with
    | some lay, some bs =>
      match decFrameData lay bs with
      | some (o, n, ss) => s!"ok {o.origin}.{o.copy}.{hexOrDash o.name} {n} " ++
          ";".intercalate (ss.map fun es => ",".intercalate (es.map toString))
      | none => "none"
    | _, _ => "bad"
  | ["nofmt", h] => match bytesOfHex h with
    | some bs => match decNoFormat bs with
      | some (o, p) => s!"ok {o.origin}.{o.copy}.{hexOrDash o.name} {hexOrDash p}" | none => "none"
    | none => "bad"
  -- model side of the IFLR encoders
  | ["fbody", o, c, n, num, slots] =>
    let sl? : Option (List Slot) := (if slots == "-" then some [] else (slots.splitOn ";").mapM fun t =>
      match t.splitOn "x" with
      | [a, es] => match a.toNat?, (if es == "" then some [] else (es.splitOn ",").mapM String.toNat?) with
        | some a, some es => some { size := a, elems := es } | _, _ => none
      | _ => none)
    match o.toInt?, c.toInt?, parseCps n, num.toInt?, sl? with
    | some o, some c, some n, some num, some sl => showRes (frameDataBody { origin := o, copy := c, name := n } num sl)
    | _, _, _, _, _ => "bad"
  | ["nbody", o, c, n, h] => match o.toInt?, c.toInt?, parseCps n, bytesOfHex h with
    | some o, some c, some n, some p => showRes (noFormatBody { origin := o, copy := c, name := n } p)
    | _, _, _, _ => "bad"
  -- buffered output: capacity, label, visible records -> total and the physical writes
  | "out" :: cap :: sul :: vrs =>
    match cap.toNat?, bytesOfHex sul, vrs.mapM bytesOfHex with
    | some cap, some sul, some vrs =>
      let o := runOutput cap sul vrs
      s!"ok {o.total} " ++ ",".intercalate (o.writes.map fun w => toString w.length)
    | _, _, _ => "bad"
  -- index statistics of (scaled) integer index values
  | ["index", vals] =>
    match (if vals == "-" then some [] else (vals.splitOn ",").mapM String.toInt?) with
    | some xs =>
      let a := indexAttrs xs
      let sp := match a.spacing with | .absent => "none" | .exact d => s!"{2 * d}/2" | .median m => s!"{m}/2"
      let dir := match a.direction with | none => "none" | some true => "inc" | some false => "dec"
      s!"ok min={showOptInt a.imin} max={showOptInt a.imax} spacing={sp} direction={dir}"
    | none => "bad"
  -- high-compatibility context: initial flag, then e(nter) l(eave) o(ther); reply: flag after every op
  | ["hc", f0, ops] =>
    let go := ops.toList.foldl (fun (acc : HcState × List Bool) c =>
      let op := if c == 'e' then HcOp.enter else if c == 'l' then HcOp.leave else HcOp.other
      let s' := hcStep acc.1 op
      (s', acc.2 ++ [s'.flag])) ({ flag := f0 == "1", saved := [] }, [])
    "ok " ++ String.ofList (go.2.map fun b => if b then '1' else '0') ++ s!" depth={go.1.saved.length}"
  | "wfile" :: rest => handleWfile rest
  | "asg" :: rest => handleAsg rest
  | "convof" :: rest => handleConvOf rest
  | "dflt" :: rest => handleDflt rest
  | "fidx" :: rest => handleFidx rest
  | "dsn" :: rest => handleDsn rest
  | ["hcstr", s] => match parseCps s with
    | some s => if hcString s then "1" else "0" | none => "bad"
  | "chk" :: rest => handleChk false rest
  | "chkhc" :: rest => handleChk true rest
  | ["castf", w, vs] =>
    match (vs.splitOn ",").mapM String.toInt? with
    | some vs => "ok " ++ ",".intercalate (vs.map fun v =>
        match (if w == "8" then castIntToF64 v else castIntToF32 v) with | some b => toString b | none => "!")
    | none => "bad"
  | ["cast", nb, sg, vs] =>
    match nb.toNat?, (vs.splitOn ",").mapM String.toInt? with
    | some nb, some vs =>
      let t : IntTy := { bytes := nb, signed := sg == "1" }
      "ok " ++ ",".intercalate (vs.map fun v => toString (castInt t v)) ++ " " ++
        String.join (vs.map fun v => match encInt t (castInt t v) with | .ok b => hexOfBytes b | .error _ => "!")
    | _, _ => "bad"
  | "hist" :: n :: ops =>
    match n.toNat?, ops.mapM parseOp with
    | some n, some ops => "ok " ++ showWorld (run (World.init n) ops)
    | _, _ => "bad"
  | ["peflrv", h] => match bytesOfHex h with
    | some bs => match parseEflr bs with | some d => "ok " ++ showDSetV d | none => "none"
    | none => "bad"
  | ["readsegs", vrl, seq, sid, h] =>
    match vrl.toInt?, parseCps seq, parseCps sid, bytesOfHex h with
    | some vrl, some seq, some sid, some bs =>
      match readSegs { vrl := vrl, seq := seq, setId := sid } bs with
      | some segs => "ok " ++ (if segs.isEmpty then "-" else ";".intercalate (segs.map showSeg))
      | none => "none"
    | _, _, _, _ => "bad"
  | _ => "bad"

partial def loop (hin : IO.FS.Stream) (hout : IO.FS.Stream) : IO Unit := do
  let line ← hin.getLine
  if line.isEmpty then return ()
  let ws := (line.trimAscii.toString.splitOn " ").filter (· ≠ "")
  hout.putStrLn (handle ws)
  loop hin hout

def driverMain (_args : List String) : IO Unit := do
  let hin ← IO.getStdin
  let hout ← IO.getStdout
  loop hin hout
  hout.flush

end Dlis
