/-
  L2a — from what the user assigns to what the attribute holds: `Attribute.value` setter, `convert_value`,
  the `converter` wrapper (multivalued / multidimensional routing), the converters of the attribute subtypes
  (`core/attribute/subtypes.py`), `convert_maybe_numeric`/`validate_string` (`utils/internal/value_checkers.py`),
  `ValidatorEnum.make_converter` (`utils/internal/validator_enum.py`), the representation code inferred from the
  held value (`Attribute._guess_repr_code`, `ReprCodeConverter.determine_repr_code_from_value`), `count`, and the
  `units` setter.

  Python values are modelled by `PyVal`; three Python builtins applied to strings — `int(s)`, `float(s)` and
  `datetime.strptime(s, fmt)` for the two accepted formats — are *parameters*: their results travel with the
  string (`StrParse`), so every theorem holds for whatever those builtins return (trusted base: the harness
  computes them with the builtins themselves, never with dliswriter code).
-/
import Dlismodel.Model.Eflr
import Dlismodel.Model.Hc
namespace Dlis

/-- what `int(s)`, `float(s)` (IEEE bits) and `strptime(s, either format)` return for a string (`none` = ValueError) -/
structure StrParse where
  asInt : Option Int
  asFloat : Option Nat
  asDtime : Option DTime
  deriving Repr, DecidableEq

/-- a Python value handed to an attribute -/
inductive PyVal
  | none
  | bool (b : Bool)
  | int (i : Int)
  | float (bits : Nat)                                  -- IEEE-754 double, bit pattern
  | str (s : PStr) (enumCls : Option String) (p : StrParse)   -- a `str`; `enumCls = some C`: a member of ValidatorEnum C
  | dtime (t : DTime)                                   -- a `datetime` (components in UTC)
  | obj (setType : PStr) (o : ObName)                   -- an EFLR item of the given set type
  | list (l : List PyVal)                               -- list or tuple
  | other                                               -- `object()`: not a number, str, datetime, item or sequence
  deriving Repr

/-! ### IEEE-754 double helpers on bit patterns -/

def f64Sign (b : Nat) : Bool := b / 2 ^ 63 % 2 = 1
def f64Exp (b : Nat) : Nat := b / 2 ^ 52 % 2048
def f64Man (b : Nat) : Nat := b % 2 ^ 52

/-- finite (not inf / NaN) -/
def f64Finite (b : Nat) : Bool := f64Exp b ≠ 2047

/-- the exact integer a finite double with integral value stands for; `none` for non-integral, inf, NaN -/
def f64ToInt (b : Nat) : Option Int :=
  let e := f64Exp b
  let m := f64Man b
  if e = 2047 then none
  else if e = 0 then (if m = 0 then some 0 else none)          -- ±0; subnormals are not integral
  else
    let sig := 2 ^ 52 + m                                       -- value = sig * 2^(e - 1075)
    let mag : Option Nat :=
      if e ≥ 1075 then some (sig * 2 ^ (e - 1075))
      else if sig % 2 ^ (1075 - e) = 0 then some (sig / 2 ^ (1075 - e)) else none
    mag.map fun a => if f64Sign b then -(a : Int) else (a : Int)

/-- `float(i)`: round to nearest, ties to even; `none` = OverflowError -/
def intToF64R (i : Int) : Option Nat :=
  if i = 0 then some 0 else
  let a := i.natAbs
  let k := Nat.log2 a                                           -- 2^k ≤ a < 2^(k+1)
  let s := if i < 0 then 2 ^ 63 else 0
  if k ≤ 52 then some (s + (k + 1023) * 2 ^ 52 + (a * 2 ^ (52 - k) - 2 ^ 52))
  else
    let sh := k - 52
    let q := a / 2 ^ sh
    let r := a % 2 ^ sh
    let half := 2 ^ (sh - 1)
    let q' := if r > half ∨ (r = half ∧ q % 2 = 1) then q + 1 else q
    let (q'', k') := if q' = 2 ^ 53 then (2 ^ 52, k + 1) else (q', k)
    if k' > 1023 then none else some (s + (k' + 1023) * 2 ^ 52 + (q'' - 2 ^ 52))

/-! ### converters -/

/-- the converter attached to an attribute (pinned per set type and label in `Standard.convs`, tied to the live
package by `Obligations.convs_eq`) -/
inductive Conv
  | ident                                          -- no converter
  | text                                           -- TextAttribute._check_string
  | validateString                                 -- value_checkers.validate_string
  | maybeNumeric                                   -- value_checkers.convert_maybe_numeric
  | status                                         -- StatusAttribute.convert_status
  | enum (cls : String) (soft allowNone : Bool)    -- ValidatorEnum.make_converter
  | eflr (cls : Option String)                     -- EFLRAttribute._convert_value (`none`: any item)
  | eflrOrText (cls : Option String)               -- EFLROrTextAttribute._convert_value
  | dtime (allowFloat : Bool)                      -- DTimeAttribute._convert_value
  | numeric (intOnly : Bool)                       -- NumericAttribute._convert_number
  | custom (name : String)                         -- bound methods of single item classes: outside the model
  deriving Repr, DecidableEq

/-- declaration of one attribute -/
structure AttrSpec where
  conv : Conv
  rc : Option Nat                -- `_representation_code` (explicit or class default)
  multivalued : Bool
  multidim : Bool
  unitsSettable : Bool
  validRcs : List Nat            -- `_valid_repr_codes`
  deriving Repr, DecidableEq

def isNumber : PyVal → Bool
  | .bool _ | .int _ | .float _ => true
  | _ => false

/-- `float(v)` for a `Number` -/
def toFloat : PyVal → Except Err PyVal
  | .bool b => .ok (.float (if b then 0x3FF0000000000000 else 0))
  | .int i => match intToF64R i with | some f => .ok (.float f) | none => .error .overflow
  | .float f => .ok (.float f)
  | _ => .error .type

/-- `NumericAttribute._int_parser` -/
def intParser : PyVal → Except Err PyVal
  | .bool b => .ok (.int (if b then 1 else 0))
  | .int i => match intToF64R i with | some _ => .ok (.int i) | none => .error .overflow   -- float(value).is_integer()
  | .float f => match f64ToInt f with | some i => .ok (.int i) | none => .error .value
  | _ => .error .type

def floatParser (v : PyVal) : Except Err PyVal := if isNumber v then toFloat v else .error .type

def intCodes : List Nat := [12, 13, 14, 15, 16, 17, 18]
def numericCodes : List Nat := [1, 2, 3, 4, 5, 6, 7, 8, 9, 10, 11] ++ intCodes

def setTypeStr (t : PStr) : String := String.ofList (t.map fun c => Char.ofNat c)

/-- `self._int_only or self.representation_code in ReprCodeConverter.int_codes` -/
def usesIntParser (intOnly : Bool) (curRc : Option Nat) : Bool :=
  intOnly || (match curRc with | some r => intCodes.contains r | none => false)

/-- one converter applied to one value (`curRc`: the outcome of reading the attribute's `representation_code`
*before* the assignment, which only `NumericAttribute` consults, lazily; `members`: the values of the enumeration) -/
def applyConv (c : Conv) (hc : Bool) (curRc : Except Err (Option Nat)) (members : List PStr) (v : PyVal) :
    Except Err PyVal :=
  match c with
  | .ident => .ok v
  | .text => match v with | .str .. => .ok v | _ => .error .type
  | .validateString => match v with
    | .str s _ _ => if !hc then .ok v else if hcString s then .ok v else .error .value
    | _ => .error .type
  | .maybeNumeric => match v with
    | .bool _ | .int _ | .float _ => .ok v
    | .str s _ p =>
      if s.contains 46 then (match p.asFloat with | some f => .ok (.float f) | none => .ok v)
      else (match p.asInt with | some i => .ok (.int i) | none => .ok v)
    | _ => .error .type
  | .status => match v with
    | .bool b => .ok (.int (if b then 1 else 0))
    | .int i => if i = 0 ∨ i = 1 then .ok (.int i) else .error .value
    | .float f => match f64ToInt f with
      | some i => if i = 0 ∨ i = 1 then .ok (.int i) else .error .value
      | none => .error .value                      -- `val % 1` is non-zero or NaN, or int(inf)
    | .str _ _ p => match p.asInt with
      | some i => if i = 0 ∨ i = 1 then .ok (.int i) else .error .value
      | none => .error .value
    | _ => .error .type
  | .enum cls soft allowNone => match v with
    | .none => if allowNone then .ok .none else .error .type
    | .str s ec p =>
      if ec = some cls then .ok (.str s none p)        -- a member: its value (a plain str)
      else if members.contains s then .ok v
      else if soft && !hc then .ok v else .error .value
    | _ => .error .type
  | .eflr cls => match v with
    | .obj t _ => (match cls with
      | none => .ok v
      | some c => if setTypeStr t = c then .ok v else .error .type)
    | _ => .error .type
  | .eflrOrText cls => match v with
    | .obj t _ => (match cls with
      | none => .ok v
      | some c => if setTypeStr t = c then .ok v else .error .type)
    | .str .. => .ok v
    | _ => .error .type
  | .dtime allowFloat => match v with
    | .dtime _ => .ok v
    | .bool _ | .int _ | .float _ => if allowFloat then toFloat v else .error .type
    | .str _ _ p => match p.asDtime with
      | some t => .ok (.dtime t)
      | none => if allowFloat then (match p.asFloat with | some f => .ok (.float f) | none => .error .value)
                else .error .value
    | _ => .error .type
  | .numeric intOnly =>
    -- `self._int_only or self.representation_code in int_codes`: the property is read (and may raise) only when
    -- a value actually reaches the converter of an attribute that is not int-only
    if intOnly then intParser v else
    match curRc with
    | .error e => .error e
    | .ok rc => if usesIntParser false rc then intParser v else floatParser v
  | .custom _ => .error .unmodelled

mutual
/-- the `wrapper` of `Attribute.converter`: recurse into sequences only for multidimensional attributes -/
def wrapConv (c : Conv) (hc : Bool) (curRc : Except Err (Option Nat)) (members : List PStr) (multidim : Bool) :
    PyVal → Except Err PyVal
  | .list l => if multidim then (wrapConvs c hc curRc members multidim l).map .list
               else applyConv c hc curRc members (.list l)
  | v => applyConv c hc curRc members v
def wrapConvs (c : Conv) (hc : Bool) (curRc : Except Err (Option Nat)) (members : List PStr) (multidim : Bool) :
    List PyVal → Except Err (List PyVal)
  | [] => .ok []
  | v :: vs => do
    let r ← wrapConv c hc curRc members multidim v
    let rs ← wrapConvs c hc curRc members multidim vs
    pure (r :: rs)
end

/-- `if not isinstance(value, (list, tuple)): value = [value]` -/
def itemsOf : PyVal → List PyVal
  | .list l => l
  | x => [x]

/-- `Attribute.convert_value` -/
def convertValue (a : AttrSpec) (hc : Bool) (curRc : Except Err (Option Nat)) (members : List PStr) (v : PyVal) :
    Except Err PyVal :=
  if a.multivalued then
    (wrapConvs a.conv hc curRc members a.multidim (itemsOf v)).map .list
  else wrapConv a.conv hc curRc members a.multidim v

/-! ### what the attribute reports at write time -/

mutual
/-- `Attribute.flatten_list` (applied to a sequence) -/
def flattenL : List PyVal → List PyVal
  | [] => []
  | v :: vs => flattenV v ++ flattenL vs
def flattenV : PyVal → List PyVal
  | .list l => flattenL l
  | v => [v]
end

/-- `_determine_repr_code_single` for built-in types (`generic_types`); numpy scalars are outside the model -/
def rcSingle : PyVal → Option Nat
  | .int _ => some 14
  | .float _ => some 7
  | .str _ none _ => some 20
  | .dtime _ => some 21
  | _ => none                              -- bool, enum member, item, None, list, object: ReprCodeError

/-- outcome of `_determine_repr_code_multiple`: a code, "cannot determine" (ReprCodeError -> warning -> None),
or the `ValueError` of `max([])` on an empty sequence -/
inductive RcGuess
  | code (r : Nat) | undetermined | emptyError
  deriving Repr, DecidableEq

def rcMultiple (vs : List PyVal) : RcGuess :=
  match vs.mapM rcSingle with
  | none => .undetermined
  | some [] => .emptyError
  | some (r :: rs) =>
    if rs.all (· == r) then .code r
    else if !(r :: rs).all numericCodes.contains then .undetermined
    else if (r :: rs).any (· ≤ 11) then .code 7
    else .code ((r :: rs).foldl max 0)     -- only SLONG can be here for built-in types

/-- `Attribute._guess_repr_code` / `EFLROrTextAttribute._guess_repr_code` -/
def guessRc (a : AttrSpec) (value : PyVal) : Except Err (Option Nat) :=
  match a.conv with
  | .eflrOrText _ => match value with
    | .none => .ok none
    | .obj .. => .ok (some 23)
    | .str .. => .ok (some 20)
    | _ => .error .runtime
  | _ =>
    match value with
    | .none => .ok none
    | _ =>
      if a.multivalued && (match value with | .list [] => true | _ => false) then .ok none
      else
        let flat := if a.multidim then (match value with | .list l => PyVal.list (flattenL l) | v => v) else value
        match flat with
        | .list l => (match rcMultiple l with
          | .code r => .ok (some r) | .undetermined => .ok none | .emptyError => .error .value)
        | v => .ok (rcSingle v)

/-- `Attribute.representation_code`: the explicit/default code, else the inferred one, which must be valid for
the attribute class -/
def reprCode (a : AttrSpec) (value : PyVal) : Except Err (Option Nat) :=
  match a.rc with
  | some r => .ok (some r)
  | none => do
    let g ← guessRc a value
    match g with
    | some r => if a.validRcs.contains r then pure (some r) else .error .runtime
    | none => pure none

/-- `Attribute.count` -/
def pyCount (a : AttrSpec) (value : PyVal) : Option Nat :=
  match value with
  | .list l => some (flattenL l).length
  | .none => if a.multivalued then none else some 1
  | _ => some 1

/-- state of one attribute -/
structure AttrState where
  value : PyVal
  units : Option PStr
  deriving Repr

/-- the code `NumericAttribute._convert_number` consults: `self._int_only or self.representation_code in int_codes`
evaluates the property (explicit code, else inferred from the value held *before* the assignment) only for
attributes that are not int-only; no other converter looks at it -/
def curRcFor (a : AttrSpec) (value : PyVal) : Except Err (Option Nat) :=
  match a.conv with
  | .numeric false => reprCode a value
  | _ => .ok none

/-- the `value` setter -/
def setValue (a : AttrSpec) (hc : Bool) (members : List PStr) (st : AttrState) (v : PyVal) : Except Err AttrState := do
  let nv ← convertValue a hc (curRcFor a st.value) members v
  pure { st with value := nv }

/-- the `units` setter: refused for classes whose units are fixed; the unit enumeration is soft and allows None -/
def setUnits (a : AttrSpec) (hc : Bool) (unitMembers : List PStr) (st : AttrState) (u : PyVal) : Except Err AttrState :=
  if !a.unitsSettable then .error .runtime else
  match applyConv (.enum "Unit" true true) hc (.ok none) unitMembers u with
  | .error e => .error e
  | .ok _ => match u with
    | .none => .ok { st with units := none }
    | .str s _ _ => .ok { st with units := some s }
    | _ => .error .type

/-- one keyword of `EFLRItem.set_attributes`: a plain value, or the (key, value) pairs of a dict / `AttrSetup`
(`AttrSetup.items()` yields `value` then `units`, skipping `None`) applied in order; the first failure stops the
call and leaves what was assigned before it -/
inductive Part
  | value (v : PyVal) | units (u : PyVal) | badKey
  deriving Repr

def assignParts (a : AttrSpec) (hc : Bool) (members unitMembers : List PStr) (st : AttrState) :
    List Part → AttrState × Option Err
  | [] => (st, none)
  | .badKey :: _ => (st, some .value)
  | .value v :: ps => match setValue a hc members st v with
    | .ok st' => assignParts a hc members unitMembers st' ps
    | .error e => (st, some e)
  | .units u :: ps => match setUnits a hc unitMembers st u with
    | .ok st' => assignParts a hc members unitMembers st' ps
    | .error e => (st, some e)

/-- a converted leaf as `write_struct` sees it -/
def leafAVal : PyVal → Option AVal
  | .bool b => some (.bool b)
  | .int i => some (.int i)
  | .float f => some (.f64 f)
  | .str s _ _ => some (.str s)
  | .dtime t => some (.dtime t)
  | .obj t o => some (.obj t o)
  | _ => none                    -- None / object() inside a value list: `write_struct` behaviour not modelled

/-- the attribute as `_write_for_body` sees it: `none` = unset (absent-attribute component) -/
def toAttrSt (a : AttrSpec) (st : AttrState) : Except Err (Option AttrSt) :=
  match st.value with
  | .none => .ok none
  | v => do
    let rc ← reprCode a v
    let leaves := flattenV v
    match leaves.mapM leafAVal with
    | none => .error .unmodelled
    | some vals =>
      pure (some { rc := rc, units := st.units, isList := (match v with | .list _ => true | _ => false), vals := vals })

end Dlis
