/-
  L5 — what `DLISFile.write` checks before the first byte is written (`file/file.py`): for every logical file, in
  order, `LogicalFile.check_objects` — `_check_completeness` (a defining origin, a channel, a frame),
  `_check_channels_assigned_to_frames` (every channel of every frame is among the logical file's channels),
  `_check_defining_origin_params` (the origin's FILE-ID against the header's ID), `_check_references` (every object
  held by an attribute of an object of the logical file is in a set the logical file has registered) — and then, in
  `generate_logical_records`, an origin in every logical file and no non-empty set registered by two of them.

  The state is the `World` of `Model/Api.lean` plus the reference edges: which object (index into `w.items`) holds
  which object in one of its attributes, and whether that attribute is a frame's CHANNELS.  Set types are numbers;
  the numbers of CHANNEL and FRAME are parameters.
-/
import Dlismodel.Model.Api
namespace Dlis

structure Edge where
  holder : Nat            -- index into `w.items` of the object whose attribute holds the reference
  target : Nat            -- index of the object referred to
  viaChannels : Bool      -- the attribute is FRAME.CHANNELS
  deriving Repr, DecidableEq

inductive CheckErr
  | noOrigin | noChannels | noFrames | channelNotRegistered | channelFrameCount | fileIdMismatch | foreignReference
  | sharedSet
  deriving Repr, DecidableEq

/-- `EFLRSetsDict.get_all_items_for_set_type` on the registry of a logical file: the objects of every set of that
type the logical file has registered, set by set -/
def itemsOfKind (w : World) (lf kind : Nat) : List Item :=
  ((lfKeys w lf).filter (fun k => k.1 = kind)).flatMap (itemsOfKey w)

/-- the object with this index is in a set that the logical file has registered -/
def inLf (w : World) (lf i : Nat) : Bool :=
  match w.items[i]? with
  | some it => decide (it.key ∈ lfKeys w lf)
  | none => false

def checkCompleteness (w : World) (lf chanK frameK : Nat) : Except CheckErr Unit :=
  if (originsOfLf w lf).isEmpty then .error .noOrigin
  else if (itemsOfKind w lf chanK).isEmpty then .error .noChannels
  else if (itemsOfKind w lf frameK).isEmpty then .error .noFrames
  else .ok ()

/-- `ch not in counts`, `counts` keyed by the objects of the logical file's CHANNEL sets: for every frame of the
logical file, every object its CHANNELS attribute holds -/
def checkFrameChannels (w : World) (lf chanK frameK : Nat) (es : List Edge) : Except CheckErr Unit :=
  if es.all (fun e => !(e.viaChannels && inLf w lf e.holder && decide ((w.items[e.holder]?.map (·.kind)) = some frameK))
      || (inLf w lf e.target && decide ((w.items[e.target]?.map (·.kind)) = some chanK)))
  then .ok () else .error .channelNotRegistered

/-- how often the object with index `i` is listed by the CHANNELS of the frames of the logical file (`counts[ch] += 1`) -/
def channelUses (w : World) (lf frameK : Nat) (es : List Edge) (i : Nat) : Nat :=
  (es.filter fun e => e.viaChannels && e.target == i && inLf w lf e.holder &&
      decide ((w.items[e.holder]?.map (·.kind)) = some frameK)).length

/-- second half of `_check_channels_assigned_to_frames`: a channel of the logical file listed by no frame or by several
is reported through `raise_or_warn` — refused in high-compatibility mode, a warning otherwise -/
def checkChannelCounts (hc : Bool) (w : World) (lf chanK frameK : Nat) (es : List Edge) : Except CheckErr Unit :=
  if !hc || (List.range w.items.length).all (fun i =>
      !(inLf w lf i && decide ((w.items[i]?.map (·.kind)) = some chanK)) || channelUses w lf frameK es i == 1)
  then .ok () else .error .channelFrameCount

/-- `_check_references`: `id(v.parent) in own_sets` for every object `v` held by an object of a set of the logical file -/
def checkReferences (w : World) (lf : Nat) (es : List Edge) : Except CheckErr Unit :=
  if es.all (fun e => !(inLf w lf e.holder) || inLf w lf e.target) then .ok () else .error .foreignReference

def checkObjects (w : World) (lf chanK frameK : Nat) (es : List Edge) (fileIdOk : Nat → Bool) : Except CheckErr Unit := do
  checkCompleteness w lf chanK frameK
  checkFrameChannels w lf chanK frameK es
  if fileIdOk lf then pure () else .error .fileIdMismatch
  checkReferences w lf es

/-- `check_objects` in or outside high-compatibility mode: the channel counts come right after the registration of the
frames' channels (both are `_check_channels_assigned_to_frames`) -/
def checkObjectsHc (hc : Bool) (w : World) (lf chanK frameK : Nat) (es : List Edge) (fileIdOk : Nat → Bool) :
    Except CheckErr Unit := do
  checkCompleteness w lf chanK frameK
  checkFrameChannels w lf chanK frameK es
  checkChannelCounts hc w lf chanK frameK es
  if fileIdOk lf then pure () else .error .fileIdMismatch
  checkReferences w lf es

def checkAllHc (hc : Bool) (w : World) (chanK frameK : Nat) (es : List Edge) (fileIdOk : Nat → Bool) :
    List Nat → Except CheckErr Unit
  | [] => .ok ()
  | lf :: rest => do
    checkObjectsHc hc w lf chanK frameK es fileIdOk
    checkAllHc hc w chanK frameK es fileIdOk rest

def acceptWriteHc (hc : Bool) (w : World) (chanK frameK : Nat) (es : List Edge) (fileIdOk : Nat → Bool) :
    Except CheckErr Unit := do
  checkAllHc hc w chanK frameK es fileIdOk (List.range w.keys.length)
  if (List.range w.keys.length).all (fun lf => !(originsOfLf w lf).isEmpty) then pure () else .error .noOrigin
  if sharedSet w then .error .sharedSet else pure ()

def checkAll (w : World) (chanK frameK : Nat) (es : List Edge) (fileIdOk : Nat → Bool) : List Nat → Except CheckErr Unit
  | [] => .ok ()
  | lf :: rest => do
    checkObjects w lf chanK frameK es fileIdOk
    checkAll w chanK frameK es fileIdOk rest

/-- everything `write` checks at this layer before it makes the first record -/
def acceptWrite (w : World) (chanK frameK : Nat) (es : List Edge) (fileIdOk : Nat → Bool) : Except CheckErr Unit := do
  checkAll w chanK frameK es fileIdOk (List.range w.keys.length)
  if (List.range w.keys.length).all (fun lf => !(originsOfLf w lf).isEmpty) then pure () else .error .noOrigin
  if sharedSet w then .error .sharedSet else pure ()

end Dlis
