/-
  Ownership / alias model of the data path (`source_data_wrappers.py`, `frame_data.py`, `file.py`,
  `frame.py`): which buffers the pipeline reads and which it writes.  Buffers are either the caller's (arrays
  handed in inline, as dict values, as a structured array; the dict itself; the HDF5 file) or freshly
  allocated by the library.  The heap maps buffers to contents; only a `write` effect changes it.
-/
namespace Dlis

inductive Buf
  | caller (i : Nat)
  | fresh (j : Nat)
  deriving Repr, DecidableEq

inductive Effect
  | read (b : Buf)                       -- element access, slicing (a view), min/max/diff inputs, tobytes
  | alloc (j : Nat)                      -- np.zeros / new dict / astype copy / asarray copy
  | write (b : Buf) (v : Nat)            -- assignment into a buffer
  deriving Repr, DecidableEq

abbrev Heap := Buf → Nat

def exec (h : Heap) : Effect → Heap
  | .read _ => h
  | .alloc j => fun b => if b = .fresh j then 0 else h b
  | .write b v => fun b' => if b' = b then v else h b'

def execAll (h : Heap) (es : List Effect) : Heap := es.foldl exec h

/-- source kinds and options that select a path through the code -/
inductive SrcKind | inline | dict | struct | hdf5
  deriving Repr, DecidableEq

/-- effects of writing one frame of `n` channels with `rows` rows in chunks, for a given source kind; `fast` =
the structured-array no-copy path applies; `cast` = a channel has a cast dtype.  Caller buffers: 0 = the data
container (dict / structured array / file), 1 + k = the k-th channel's array. -/
def pipeline (kind : SrcKind) (fast cast : Bool) (n rows : Nat) : List Effect :=
  -- LogicalFile._make_multi_frame_data: `self._data_dict | data` builds a new dict (inline / dict kinds)
  (match kind with
   | .inline | .dict => [Effect.read (.caller 0), .alloc 0, .write (.fresh 0) 1]
   | _ => [Effect.read (.caller 0)]) ++
  -- determine_dtypes: first row of every dataset; setup_from_data: shapes, dtype, min / max / diff of the index
  (List.range n).flatMap (fun k => [Effect.read (.caller (1 + k))]) ++
  [Effect.read (.caller 1), .alloc 1, .write (.fresh 1) 2] ++
  -- per chunk
  (if fast ∧ kind = .struct then
     -- a view of the caller's structured array flows into FrameData; slots are read, converted copies written out
     (List.range rows).flatMap (fun _ => (List.range n).flatMap fun k =>
        [Effect.read (.caller (1 + k)), .alloc 3, .write (.fresh 3) 4, .read (.fresh 3)])
   else
     -- np.zeros chunk, field-wise copy (with cast), then per row: read slot of the chunk, convert, tobytes
     [Effect.alloc 2] ++ (List.range n).flatMap (fun k => [Effect.read (.caller (1 + k)), .write (.fresh 2) (if cast then 5 else 6)]) ++
     (List.range rows).flatMap (fun _ => (List.range n).flatMap fun _ =>
        [Effect.read (.fresh 2), .alloc 3, .write (.fresh 3) 4, .read (.fresh 3)]))

def writesCaller : Effect → Bool
  | .write (.caller _) _ => true
  | _ => false

end Dlis
