/-
  Frame index statistics (`eflr_types/frame.py`: `_setup_frame_params_from_data`,
  `_compute_spacing_and_direction`) over exact arithmetic.  Index values are integers: integer dtypes as they
  are, float data scaled by a common power of two (the correspondence only feeds float data whose values and
  differences are exactly representable), so that differences, the median and the tolerance test are exact.
-/
namespace Dlis

def diffs : List Int → List Int
  | a :: b :: rest => (b - a) :: diffs (b :: rest)
  | _ => []

/-- sorted copy (insertion sort: the lists are short and the definition must be transparent for proofs) -/
def insertSorted (x : Int) : List Int → List Int
  | [] => [x]
  | y :: ys => if x ≤ y then x :: y :: ys else y :: insertSorted x ys

def sortInts (l : List Int) : List Int := l.foldr insertSorted []

/-- twice the median (`np.median`: middle element, or the mean of the two middle ones) -/
def median2 (ds : List Int) : Int :=
  let s := sortInts ds
  let n := s.length
  if n % 2 = 1 then 2 * s.getD (n / 2) 0 else s.getD (n / 2 - 1) 0 + s.getD (n / 2) 0

/-- direction: `none` if all differences are 0 or of mixed sign, else increasing / decreasing -/
def direction (ds : List Int) : Option Bool :=
  if ds.all (· == 0) then none
  else if ds.all (0 ≤ ·) then some true
  else if ds.all (· ≤ 0) then some false
  else none

inductive Spacing
  | absent                     -- not uniform enough (or no differences at all)
  | exact (d : Int)            -- all differences equal
  | median (twice : Int)       -- within tolerance: twice the median difference
  deriving Repr, DecidableEq

/-- `(1 - d/median)^2 < 0.001` for every distinct difference, in integers: 1000 (m2 - 2d)^2 < m2^2 -/
def withinTol (ds : List Int) (m2 : Int) : Bool := ds.all fun d => 1000 * (m2 - 2 * d) ^ 2 < m2 ^ 2

def spacingOf (ds : List Int) : Spacing :=
  match ds with
  | [] => .absent                                   -- a single row: nothing to measure
  | d :: rest =>
    if rest.all (· == d) then .exact d
    else
      let m2 := median2 ds
      if m2 = 0 then .absent
      else if withinTol ds m2 then .median m2 else .absent

def listMin : List Int → Option Int
  | [] => none
  | x :: xs => some (xs.foldl min x)

def listMax : List Int → Option Int
  | [] => none
  | x :: xs => some (xs.foldl max x)

/-- `assign_if_none`: a value supplied by the user is kept -/
def assignIfNone {α : Type} (cur : Option α) (v : Option α) : Option α :=
  match cur with
  | some u => some u
  | none => v

/-- the index attributes of a frame with an index type: (INDEX-MIN, INDEX-MAX, SPACING, DIRECTION) -/
structure IndexAttrs where
  imin : Option Int
  imax : Option Int
  spacing : Spacing
  direction : Option Bool          -- written only when there is no spacing
  deriving Repr, DecidableEq

def indexAttrs (xs : List Int) : IndexAttrs :=
  let ds := diffs xs
  let sp := spacingOf ds
  { imin := listMin xs, imax := listMax xs, spacing := sp,
    direction := match sp with | .absent => direction ds | _ => none }

end Dlis
