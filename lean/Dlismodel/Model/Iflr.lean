/-
  L3 — indirectly formatted logical records: frame data (`iflr_types/frame_data.py`) and no-format data
  (`iflr_types/no_format_frame_data.py`), with their strict decoders.
-/
import Dlismodel.Model.Prim
namespace Dlis

/-- one channel's part of a row: element size in bytes (from the dtype) and the elements' bit patterns -/
structure Slot where
  size : Nat
  elems : List Nat
  deriving Repr, DecidableEq

def slotBytes (s : Slot) : Bytes := s.elems.flatMap (beN s.size)

/-- `FrameData._make_body_bytes`: frame OBNAME, UVARI frame number, then every slot big-endian -/
def frameDataBody (frame : ObName) (num : Int) (slots : List Slot) : Except Err Bytes := do
  let o ← encObname frame
  let n ← encUvari num
  pure (o ++ n ++ slots.flatMap slotBytes)

/-- `NoFormatFrameData._make_body_bytes`: NO-FORMAT OBNAME then the payload, nothing else -/
def noFormatBody (nf : ObName) (payload : Bytes) : Except Err Bytes := do
  let o ← encObname nf
  pure (o ++ payload)

/-! ### strict decoders -/

def rdElems (size : Nat) : Nat → Bytes → Option (List Nat × Bytes)
  | 0, bs => some ([], bs)
  | n + 1, bs =>
    match rdN size bs with
    | some (v, r) =>
      match rdElems size n r with
      | some (vs, r') => some (v :: vs, r')
      | none => none
    | none => none

/-- layout = per channel (element size, number of elements per row) as declared by CHANNEL objects -/
def rdSlots : List (Nat × Nat) → Bytes → Option (List (List Nat) × Bytes)
  | [], bs => some ([], bs)
  | (size, cnt) :: ls, bs =>
    match rdElems size cnt bs with
    | some (es, r) =>
      match rdSlots ls r with
      | some (ss, r') => some (es :: ss, r')
      | none => none
    | none => none

/-- a frame-data record decodes to (frame reference, frame number, slots) with nothing left over -/
def decFrameData (layout : List (Nat × Nat)) (bs : Bytes) : Option (ObNameVal × Nat × List (List Nat)) :=
  match decObname bs with
  | some (o, r1) =>
    match decUvari r1 with
    | some (n, r2) =>
      match rdSlots layout r2 with
      | some (ss, []) => some (o, n, ss)
      | _ => none
    | none => none
  | none => none

def decNoFormat (bs : Bytes) : Option (ObNameVal × Bytes) := decObname bs

/-- the byte length a reader computes from the CHANNEL descriptors alone -/
def layoutBytes (layout : List (Nat × Nat)) : Nat := (layout.map fun (s, c) => s * c).sum

end Dlis
