/-
  Memoised state that could leak between writes (`write_struct` lru_cache, typed, zeros bypassed — after the
  repair; `obname` per item).  The cache is an association list searched with Python's key equality.
-/
import Dlismodel.Model.Eflr
namespace Dlis

/-- IEEE-754 double: NaN (never equal to anything) and zero of either sign -/
def f64IsNaN (b : Nat) : Bool := b / 2 ^ 52 % 2048 = 2047 ∧ b % 2 ^ 52 ≠ 0
def f64IsZero (b : Nat) : Bool := b % 2 ^ 63 = 0
def f32IsNaN (b : Nat) : Bool := b / 2 ^ 23 % 256 = 255 ∧ b % 2 ^ 23 ≠ 0
def f32IsZero (b : Nat) : Bool := b % 2 ^ 31 = 0

/-- `==` (and equal hash) between two values of the SAME Python type, as the typed lru_cache compares keys;
values of different types never share an entry -/
def pyEq : AVal → AVal → Bool
  | .int a, .int b => a = b
  | .bool a, .bool b => a = b
  | .f64 a, .f64 b => (a = b ∧ !f64IsNaN a) ∨ (f64IsZero a ∧ f64IsZero b)
  | .f32 a, .f32 b => (a = b ∧ !f32IsNaN a) ∨ (f32IsZero a ∧ f32IsZero b)
  | .str a, .str b => a = b
  | .dtime a, .dtime b => a = b
  | .obj ta a, .obj tb b => ta = tb ∧ a = b        -- items are compared by identity; identity fixes type and name
  | _, _ => false

/-- numeric zeros are kept out of the cache (0.0 == -0.0 but they are written differently) -/
def bypass : AVal → Bool
  | .int a => a = 0
  | .bool a => a = false
  | .f64 a => f64IsZero a
  | .f32 a => f32IsZero a
  | _ => false

abbrev Cache := List ((Nat × AVal) × Except Err Bytes)

def cacheFind (c : Cache) (rc : Nat) (v : AVal) : Option (Except Err Bytes) :=
  match c with
  | [] => none
  | ((r, k), b) :: rest => if r = rc ∧ pyEq k v then some b else cacheFind rest rc v

/-- `write_struct`: zeros uncached; otherwise first matching entry, else compute and remember (errors are not
remembered by lru_cache, successful results are) -/
def cachedWrite (c : Cache) (rc : Nat) (v : AVal) : Cache × Except Err Bytes :=
  if bypass v then (c, encVal rc v) else
  match cacheFind c rc v with
  | some b => (c, b)
  | none =>
    match encVal rc v with
    | .ok b => (((rc, v), .ok b) :: c, .ok b)
    | .error e => (c, .error e)

/-- eviction: the real cache may drop any entries at any time -/
def evict (c : Cache) (keep : List Bool) : Cache :=
  (c.zip keep).filterMap fun (e, k) => if k then some e else none

end Dlis
