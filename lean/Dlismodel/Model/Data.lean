/-
  L4 — data sources: row window, chunked loading, one frame-data record per row
  (`utils/source_data_wrappers.py`, `file/multi_frame_data.py`).
-/
import Dlismodel.Model.Iflr
namespace Dlis

/-- `SourceDataWrapper.load_chunk(start, stop)` on the windowed rows: rows[start:stop] -/
def loadChunk {α : Type} (rows : List α) (a b : Nat) : List α := (rows.drop a).take (b - a)

/-- the chunk boundaries of `make_chunked_generator(chunk_rows = c)`: `divmod(n, c)` full chunks, then the
remainder if there is one -/
def chunkBounds (n c : Nat) : List (Nat × Nat) :=
  (List.range (n / c)).map (fun i => (i * c, (i + 1) * c)) ++ (if n % c ≠ 0 then [(n / c * c, n)] else [])

/-- rows in the order the generator yields them; `none` = everything as one chunk -/
def chunkedRows {α : Type} (rows : List α) : Option Nat → List α
  | none => loadChunk rows 0 rows.length
  | some c => (chunkBounds rows.length c).flatMap fun (a, b) => loadChunk rows a b

/-- `SourceDataWrapper.__getitem__` / the window: rows [from, to) -/
def window {α : Type} (rows : List α) (fromIdx : Nat) (toIdx : Option Nat) : List α :=
  (rows.take (toIdx.getD rows.length)).drop fromIdx

/-- `MultiFrameData.__next__`: frame number k+1, k+2, ... in the order rows arrive -/
def frameRecordsFrom (frame : ObName) : Nat → List (List Slot) → Except Err (List Bytes)
  | _, [] => .ok []
  | k, r :: rs => do
    let b ← frameDataBody frame ((k : Int) + 1) r
    let bs ← frameRecordsFrom frame (k + 1) rs
    pure (b :: bs)

/-- all frame-data records of one frame for a write with the given window and input chunk size -/
def frameRecords (frame : ObName) (rows : List (List Slot)) (fromIdx : Nat) (toIdx : Option Nat)
    (chunk : Option Nat) : Except Err (List Bytes) :=
  frameRecordsFrom frame 0 (chunkedRows (window rows fromIdx toIdx) chunk)

end Dlis

namespace Dlis

/-! ### data sources: datasets by name -/

/-- what every source kind denotes: named datasets, each a list of rows (one slot per row) -/
abbrev DataSrc := List (PStr × List Slot)

def lookupDs (src : DataSrc) (name : PStr) : Option (List Slot) :=
  match src with
  | [] => none
  | (k, v) :: rest => if k = name then some v else lookupDs rest name

/-- `HDF5DataWrapper`: a leading slash is added to dataset paths that lack one -/
def normPath (p : PStr) : PStr := match p with | 47 :: _ => p | _ => 47 :: p

/-- rows of a frame: one slot per channel in the frame's channel order (`mapping` = dataset name per channel);
the number of rows is that of the first dataset (as in `SourceDataWrapper.__init__`) -/
def frameRowsOf (src : DataSrc) (mapping : List PStr) : Except Err (List (List Slot)) :=
  match mapping.mapM (lookupDs src) with
  | none => .error .value                       -- "No dataset ... found in the source data"
  | some cols =>
    match cols with
    | [] => .ok []
    | c0 :: _ =>
      if cols.all (fun c => c.length == c0.length) then
        .ok ((List.range c0.length).map fun i => cols.filterMap (fun c => c[i]?))
      else .error .value                        -- datasets of different length

end Dlis
