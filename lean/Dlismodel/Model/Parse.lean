/-
  The strict RP66 V1 reader for the physical layer: storage unit label, visible records,
  logical record segments, reassembly.  This is the specification the framing theorems are
  relative to (RP66 V1 §2.2.2 segments, §2.3.6 visible records / SUL).
-/
import Dlismodel.Model.Seg
namespace Dlis

/-- decode one segment from the front of a visible-record body -/
def parseSeg (bs : Bytes) : Option (PSeg × Bytes) :=
  match bs with
  | l1 :: l0 :: a :: t :: rest =>
    let len := l1.toNat * 256 + l0.toNat
    let av := a.toNat
    -- declared length: even, at least 16, within what is there
    if len < 16 ∨ len % 2 = 1 ∨ rest.length + 4 < len then none else
    -- encryption, encryption packet, checksum, trailing length: not produced, not accepted
    if av / 2 % 16 ≠ 0 then none else
    let body := rest.take (len - 4)
    let rest' := rest.drop (len - 4)
    let hasPad := av % 2 = 1
    if hasPad then
      match body.getLast? with
      | some p =>
        if p.toNat = 0 ∨ p.toNat > body.length then none else
        some ({ eflr := av / 128 = 1, type := t.toNat, pred := av / 64 % 2 = 1, succ := av / 32 % 2 = 1,
                payload := body.take (body.length - p.toNat) }, rest')
      | none => none
    else
      some ({ eflr := av / 128 = 1, type := t.toNat, pred := av / 64 % 2 = 1, succ := av / 32 % 2 = 1,
              payload := body }, rest')
  | _ => none

/-- a visible-record body must be tiled exactly by segments (at least one) -/
def parseSegs : Nat → Bytes → Option (List PSeg)
  | 0, _ => none
  | fuel + 1, bs =>
    match parseSeg bs with
    | some (s, []) => some [s]
    | some (s, rest) => (parseSegs fuel rest).map (s :: ·)
    | none => none

/-- the visible records up to the end of the file -/
def parseVRs (vrl : Nat) : Nat → Bytes → Option (List PSeg)
  | _, [] => some []
  | 0, _ => none
  | fuel + 1, l1 :: l0 :: m1 :: m0 :: rest =>
    let len := l1.toNat * 256 + l0.toNat
    if len < 20 ∨ len % 2 = 1 ∨ len > vrl ∨ rest.length + 4 < len then none else
    if m1 ≠ 0xFF ∨ m0 ≠ 0x01 then none else
    match parseSegs (len - 4) (rest.take (len - 4)) with
    | some segs => (parseVRs vrl fuel (rest.drop (len - 4))).map (segs ++ ·)
    | none => none
  | _ + 1, _ => none

/-- put segments back together; strict about bracketing and constancy of flag/type -/
def assemble : Option Rec → List PSeg → Option (List Rec)
  | none, [] => some []
  | some _, [] => none                       -- file ends inside a record
  | none, s :: ss =>
    if s.pred then none else
    if s.succ then assemble (some { isEflr := s.eflr, type := s.type, body := s.payload }) ss
    else (assemble none ss).map ({ isEflr := s.eflr, type := s.type, body := s.payload } :: ·)
  | some r, s :: ss =>
    if !s.pred ∨ s.eflr ≠ r.isEflr ∨ s.type ≠ r.type then none else
    let r' := { r with body := r.body ++ s.payload }
    if s.succ then assemble (some r') ss else (assemble none ss).map (r' :: ·)

/-- strict SUL check against the configuration -/
def checkSul (c : Cfg) (sul : Bytes) : Bool :=
  match sulBytes c with
  | .ok e => sul == e && sul.length == 80
  | .error _ => false

/-- the strict physical reader: SUL as configured, then visible records to the end -/
def readFile (c : Cfg) (bs : Bytes) : Option (List Rec) :=
  if bs.length < 80 ∨ !checkSul c (bs.take 80) ∨ !vrlValid c.vrl then none else
  match parseVRs c.vrl.toNat bs.length (bs.drop 80) with
  | some segs => assemble none segs
  | none => none

/-- only the segments (for C01, which does not care about reassembly) -/
def readSegs (c : Cfg) (bs : Bytes) : Option (List PSeg) :=
  if bs.length < 80 ∨ !checkSul c (bs.take 80) ∨ !vrlValid c.vrl then none else
  parseVRs c.vrl.toNat bs.length (bs.drop 80)

end Dlis
