/-
  The whole write as one function: `DLISFile.generator` + `DLISWriter` on the model layers.
-/
import Dlismodel.Model.Seg
import Dlismodel.Model.Eflr
import Dlismodel.Model.Data
namespace Dlis

structure FrameSpec where
  frame : ObName
  rows : List (List Slot)
  deriving Repr, DecidableEq

structure LfSpec where
  headerName : ObName
  seqNo : Int
  headerId : PStr
  sets : List (Nat × SetDesc)        -- (logical record type, set) in generator order: origin sets first
  noformat : List (ObName × Bytes)
  frames : List FrameSpec
  deriving Repr, DecidableEq

structure WriteArgs where
  fromIdx : Nat
  toIdx : Option Nat
  chunk : Option Nat
  deriving Repr, DecidableEq

def setRec (p : Nat × SetDesc) : Except Err Rec := do
  let b ← setBody p.2
  pure { isEflr := true, type := p.1, body := b }

def noFormatRec (p : ObName × Bytes) : Except Err Rec := do
  let b ← noFormatBody p.1 p.2
  pure { isEflr := false, type := 1, body := b }

def lfFrameRecs (a : WriteArgs) (f : FrameSpec) : Except Err (List Rec) := do
  let bs ← frameRecords f.frame f.rows a.fromIdx a.toIdx a.chunk
  pure (bs.map fun b => { isEflr := false, type := 0, body := b })

/-- the logical records of one logical file, in the order `DLISFile.generator` yields them -/
def lfRecs (a : WriteArgs) (l : LfSpec) : Except Err (List Rec) := do
  let h ← fileHeaderBody l.headerName l.seqNo l.headerId
  let ss ← l.sets.mapM setRec
  let ns ← l.noformat.mapM noFormatRec
  let fs ← l.frames.mapM (lfFrameRecs a)
  pure ({ isEflr := true, type := 0, body := h } :: ss ++ ns ++ fs.flatten)

def modelWrite (c : Cfg) (a : WriteArgs) (lfs : List LfSpec) : Except Err Bytes := do
  let rs ← lfs.mapM (lfRecs a)
  frameFile c rs.flatten

end Dlis
