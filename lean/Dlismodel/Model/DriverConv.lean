/-
  Driver for the converter layer (`asg` requests): the attribute is looked up in the *pinned* tables
  (`Standard.attrs`, `Standard.convs`, `Standard.enums`), a sequence of `set_attributes` calls is applied to a
  fresh attribute, and the resulting state is reported together with the bytes `get_as_bytes()` must produce.
-/
import Dlismodel.Model.Convert
import Dlismodel.Model.Defaults
import Dlismodel.Model.Dataset
import Dlismodel.Standard
import Dlismodel.StandardConvs
namespace Dlis

def cpsOfStringC (s : String) : PStr := s.toList.map Char.toNat

def pCps (s : String) : Option PStr :=
  if s == "-" then some [] else (s.splitOn ",").mapM (·.toNat?)

def showCpsC (s : PStr) : String := if s.isEmpty then "-" else ",".intercalate (s.map toString)

def pDTime (v : String) : Option DTime :=
  match (v.splitOn ",").map String.toInt? with
  | [some y, some mo, some d, some h, some mi, some se, some us] =>
    some { year := y, month := mo.toNat, day := d.toNat, hour := h.toNat, minute := mi.toNat,
           second := se.toNat, micro := us.toNat }
  | _ => none

def showDTime (t : DTime) : String := s!"{t.year},{t.month},{t.day},{t.hour},{t.minute},{t.second},{t.micro}"

def pOpt {α} (f : String → Option α) (s : String) : Option (Option α) :=
  if s == "~" then some none else (f s).map some

/-- one Python value from the token stream; lists are bracketed by `[` and `]` -/
partial def takePyVal : List String → Option (PyVal × List String)
  | "N" :: r => some (.none, r)
  | "X" :: r => some (.other, r)
  | "[" :: r =>
    let rec go (r : List String) (acc : List PyVal) : Option (PyVal × List String) :=
      match r with
      | "]" :: r' => some (.list acc.reverse, r')
      | _ => match takePyVal r with
        | some (v, r') => go r' (v :: acc)
        | none => none
    go r []
  | t :: r =>
    match t.splitOn ":" with
    | ["b", v] => some (.bool (v == "1"), r)
    | ["i", v] => v.toInt?.map fun i => (.int i, r)
    | ["d", v] => v.toNat?.map fun b => (.float b, r)
    | ["t", s, ec, pi, pf, pt] =>
      match pCps s, pOpt String.toInt? pi, pOpt String.toNat? pf, pOpt pDTime pt with
      | some s, some pi, some pf, some pt =>
        some (.str s (if ec == "~" then none else some ec) { asInt := pi, asFloat := pf, asDtime := pt }, r)
      | _, _, _, _ => none
    | ["T", v] => (pDTime v).map fun t => (.dtime t, r)
    | ["o", st, o, c, n] =>
      match pCps st, o.toInt?, c.toInt?, pCps n with
      | some st, some o, some c, some n => some (.obj st { origin := o, copy := c, name := n }, r)
      | _, _, _, _ => none
    | _ => none
  | [] => none

/-- canonical rendering of a held value (string annotations are not state: only content and enum class) -/
partial def showPyVal : PyVal → String
  | .none => "N"
  | .other => "X"
  | .bool b => if b then "b:1" else "b:0"
  | .int i => s!"i:{i}"
  | .float b => s!"d:{b}"
  | .str s ec _ => s!"t:{showCpsC s}:{ec.getD "~"}"
  | .dtime t => s!"T:{showDTime t}"
  | .obj st o => s!"o:{showCpsC st}:{o.origin}:{o.copy}:{showCpsC o.name}"
  | .list l => "[ " ++ " ".intercalate (l.map showPyVal) ++ (if l.isEmpty then "]" else " ]")

/-- the parts of one call: up to the next `C` -/
partial def takeParts (ts : List String) (acc : List Part) : Option (List Part × List String) :=
  match ts with
  | [] => some (acc.reverse, [])
  | "C" :: _ => some (acc.reverse, ts)
  | "K" :: r => takeParts r (.badKey :: acc)
  | "V" :: r => match takePyVal r with | some (v, r') => takeParts r' (.value v :: acc) | none => none
  | "U" :: r => match takePyVal r with | some (v, r') => takeParts r' (.units v :: acc) | none => none
  | _ => none

/-- calls: each starts with `C` (a call may have no parts: `AttrSetup()` with nothing set) -/
partial def takeCalls (ts : List String) (acc : List (List Part)) : Option (List (List Part)) :=
  match ts with
  | [] => some acc.reverse
  | "C" :: r => match takeParts r [] with
    | some (ps, r') => takeCalls r' (ps :: acc)
    | none => none
  | _ => none

/-- the pinned declaration of an attribute -/
def specOf (setType label : String) : Option AttrSpec := do
  let rows ← (Standard.attrs.find? (·.1 == setType)).map (·.2)
  let (_, _, _, rc, mv, md, us, _) ← rows.find? (·.1 == label)
  let crow ← (Standard.convs.find? (·.1 == setType)).map (·.2)
  let (_, conv, valid) ← crow.find? (·.1 == label)
  pure { conv := conv, rc := if rc = 0 then none else some rc, multivalued := mv, multidim := md,
         unitsSettable := us, validRcs := valid }

def membersOf (cls : String) : List PStr :=
  match Standard.enums.find? (·.1 == cls) with
  | some (_, vs) => vs.map cpsOfStringC
  | none => []

def convMembers : Conv → List PStr
  | .enum cls _ _ => membersOf cls
  | _ => []

def showErrOr {α} (f : α → String) : Except Err α → String
  | .ok a => f a
  | .error e => "err:" ++ e.name

def hexOfBytes' (bs : Bytes) : String :=
  let hd (n : Nat) : Char := if n < 10 then Char.ofNat (48 + n) else Char.ofNat (87 + n)
  if bs.isEmpty then "-" else
  String.ofList (bs.foldr (fun b acc => hd (b.toNat / 16) :: hd (b.toNat % 16) :: acc) [])

/-- `convof SET LABEL`: the pinned converter of an attribute, for the harness's oracles -/
def handleConvOf : List String → String
  | [st, label] => match specOf st label with
    | some a => match a.conv with
      | .ident => "ident" | .text => "text" | .validateString => "validateString" | .maybeNumeric => "maybeNumeric"
      | .status => "status" | .enum cls soft an => s!"enum:{cls}:{if soft then 1 else 0}:{if an then 1 else 0}"
      | .eflr c => s!"eflr:{c.getD "*"}" | .eflrOrText c => s!"eflrOrText:{c.getD "*"}"
      | .dtime af => s!"dtime:{if af then 1 else 0}" | .numeric io => s!"numeric:{if io then 1 else 0}"
      | .custom n => s!"custom:{n}"
    | none => "unknown-attribute"
  | _ => "bad"

def handleAsg : List String → String
  | st :: label :: hc :: rest =>
    -- initial state (what the item constructor left in the attribute): value, units
    match takePyVal rest with
    | none => "bad"
    | some (_, []) => "bad"
    | some (v0, u0 :: rest) =>
    match specOf st label, takeCalls rest [], pOpt pCps u0 with
    | some a, some calls, some u0 =>
      let hc := hc == "1"
      let mem := convMembers a.conv
      let um := membersOf "Unit"
      let step (acc : AttrState × List String) (ps : List Part) : AttrState × List String :=
        let (s', e) := assignParts a hc mem um acc.1 ps
        (s', acc.2 ++ [match e with | none => "ok" | some e => e.name])
      let (fin, outs) := calls.foldl step ({ value := v0, units := u0 }, [])
      let rc := showErrOr (fun (r : Option Nat) => match r with | some r => toString r | none => "~") (reprCode a fin.value)
      let cnt := match pyCount a fin.value with | some n => toString n | none => "~"
      let bytes := match toAttrSt a fin with
        | .error e => "err:" ++ e.name
        | .ok none => "absent"
        | .ok (some s) => showErrOr hexOfBytes' (attrBody s)
      s!"{",".intercalate outs} v= {showPyVal fin.value} u={match fin.units with | some u => showCpsC u | none => "~"} rc={rc} cnt={cnt} bytes={bytes}"
    | none, _, _ => "unknown-attribute"
    | _, _, _ => "bad"
  | _ => "bad"

end Dlis

namespace Dlis

def pNatList (s : String) : Option (Option (List Nat)) :=
  if s == "~" then some none else if s == "-" then some (some [])
  else ((s.splitOn ",").mapM fun (t : String) => t.toNat?).map some

def pAxes (s : String) : Option (Option (List (Option Nat))) :=
  if s == "~" then some none else if s == "-" then some (some [])
  else ((s.splitOn ",").mapM fun (t : String) => if t == "n" then some (none : Option Nat) else t.toNat?.map some).map some

def showDim : Option (List Nat) → String
  | none => "~"
  | some [] => "-"
  | some l => ",".intercalate (l.map toString)

partial def takePyVals : Nat → List String → Option (List PyVal × List String)
  | 0, ts => some ([], ts)
  | n + 1, ts => match takePyVal ts with
    | some (v, r) => (takePyVals n r).map fun (vs, r') => (v :: vs, r')
    | none => none

/-- `dflt seq <dim0> <steps…>`: successive checks of ONE item, the values changing in between; a step is
`P <assign> <single> <value> <zones> <axes>` or `M <assign> <k> <values…> <axes>`, `<assign>` being `=` or a dimension
the user assigns before the step; reply: per step `ok <dimension held>` / `err:<kind> <dimension held>`, joined by `;` -/
partial def runDimSteps (s : DimState) (acc : List String) : List String → String
  | [] => ";".intercalate acc.reverse
  | "P" :: asg :: single :: rest =>
    match takePyVal rest with
    | some (v, zc :: axes :: rest') =>
      match (if asg == "=" then some none else (pNatList asg).map some), pOpt String.toNat? zc, pAxes axes with
      | some a, some zc, some axes =>
        let s0 := match a with | some d => DimState.assigned d | none => s
        let (s1, r) := paramCheckSt (single == "1") v zc axes s0
        runDimSteps s1 (((match r with | .ok _ => "ok " | .error e => "err:" ++ e.name ++ " ") ++ showDim s1.held) :: acc) rest'
      | _, _, _ => "bad"
    | _ => "bad"
  | "M" :: asg :: k :: rest =>
    match k.toNat? with
    | some k => match takePyVals k rest with
      | some (vs, axes :: rest') =>
        match (if asg == "=" then some none else (pNatList asg).map some), pAxes axes with
        | some a, some axes =>
          let s0 := match a with | some d => DimState.assigned d | none => s
          let (s1, r) := calMeasCheckSt vs axes s0
          runDimSteps s1 (((match r with | .ok _ => "ok " | .error e => "err:" ++ e.name ++ " ") ++ showDim s1.held) :: acc) rest'
        | _, _ => "bad"
      | _ => "bad"
    | none => "bad"
  | _ => "bad"

/-- `dflt …`: the write-time checks and defaults of `Model/Defaults.lean` -/
def handleDflt : List String → String
  | "seq" :: dim0 :: steps =>
    match pNatList dim0 with
    | some d => runDimSteps (DimState.assigned d) [] steps
    | none => "bad"
  | "param" :: single :: rest =>
    match takePyVal rest with
    | some (v, [zc, dim, axes]) =>
      match pOpt String.toNat? zc, pNatList dim, pAxes axes with
      | some zc, some dim, some axes => showErrOr (fun d => "ok " ++ showDim d) (paramDefaults (single == "1") v zc dim axes)
      | _, _, _ => "bad"
    | _ => "bad"
  | "calmeas" :: k :: rest =>
    match k.toNat? with
    | some k => match takePyVals k rest with
      | some (vs, [dim, axes]) => match pNatList dim, pAxes axes with
        | some dim, some axes => showErrOr (fun d => "ok " ++ showDim d) (calMeasDefaults vs dim axes)
        | _, _ => "bad"
      | _ => "bad"
    | none => "bad"
  | "calcoef" :: k :: rest =>
    match k.toNat? with
    | some k => match takePyVals k rest with
      | some (vs, []) => showErrOr (fun _ => "ok") (calCoefDefaults vs)
      | _ => "bad"
    | none => "bad"
  | ["chdata", dimension, limit, dim] =>
    match pNatList dimension, pNatList limit, pNatList dim with
    | some dimension, some limit, some (some dim) =>
      showErrOr (fun p => s!"ok {showDim p.1} {showDim p.2}") (channelFromData dimension limit dim)
    | _, _, _ => "bad"
  | "chdef" :: dimension :: limit :: axes :: rest =>
    match pNatList dimension, pNatList limit, pAxes axes, takePyVal rest with
    | some dimension, some limit, some axes, some (ln, []) =>
      showErrOr (fun p => s!"ok {showDim p.1} {showDim p.2.1} {if p.2.2 then 1 else 0}") (channelDefaults dimension limit axes ln)
    | _, _, _, _ => "bad"
  | _ => "bad"

/-- `dsn <name> <explicit|~> <1|0> …`: data set names of a sequence of add_channel calls -/
def handleDsn (ts : List String) : String :=
  let rec go (ts : List String) (acc : List (PStr × Option PStr × Bool)) : Option (List (PStr × Option PStr × Bool)) :=
    match ts with
    | [] => some acc.reverse
    | n :: e :: ok :: rest => match pCps n, pOpt pCps e with
      | some n, some e => go rest ((n, e, ok == "1") :: acc)
      | _, _ => none
    | _ => none
  match go ts [] with
  | some calls => " ".intercalate ((datasetNames [] calls).map fun r => match r with
      | .ok d => "ok:" ++ showCpsC d | .error e => "err:" ++ e.name)
  | none => "bad"

end Dlis
