/-
  L2b — what `_run_checks_and_set_defaults` (called for every item just before its bytes are made) and
  `ChannelItem._set_dimension_from_data` do: cross-attribute consistency checks (values / zones / dimension / axis /
  element limit), and the documented write-time defaults (dimension from the shape of the values, element limit
  from the dimension and vice versa, long name from the channel name, field name WILDCAT).
  (`core/eflr/eflr_item.py` DimensionedItem, `eflr_types/{parameter,computation,calibration_measurement,
  calibration_coefficient,channel,origin}.py`.)

  A default fills an attribute only when nothing (nothing truthy, where the code tests truthiness) was assigned.
-/
import Dlismodel.Model.Convert
namespace Dlis

mutual
/-- shape of `np.array(value)`: the regular nesting structure of a (possibly nested) sequence; `none` = ragged
(numpy raises ValueError: inhomogeneous shape) -/
def shapeV : PyVal → Option (List Nat)
  | .list l => match shapesL l with
    | none => none
    | some [] => some [0]
    | some (s :: rest) => if rest.all (· == s) then some (l.length :: s) else none
  | _ => some []
def shapesL : List PyVal → Option (List (List Nat))
  | [] => some []
  | v :: vs => match shapeV v, shapesL vs with
    | some s, some ss => some (s :: ss)
    | _, _ => none
end

/-- `list(arr.shape[1:]) or [1]` -/
def dimOfShape (sh : List Nat) : List Nat := if sh.tail.isEmpty then [1] else sh.tail

/-- `DimensionedItem._check_or_set_value_dimensionality` -/
def checkOrSetDim (dim : Option (List Nat)) (value : PyVal) : Except Err (Option (List Nat)) :=
  match value with
  | .none => .ok dim
  | v => match shapeV v with
    | none => .error .runtime
    | some sh => match dim with
      | some d => if dimOfShape sh ≠ d then .error .runtime else .ok dim
      | none => .ok (some (dimOfShape sh))

/-- `DimensionedItem._check_axis_vs_dimension`; an axis is represented by the number of its coordinates, if any -/
def checkAxes (axes : Option (List (Option Nat))) (dim : Option (List Nat)) : Except Err Unit :=
  match axes, dim with
  | some ax, some d =>
    if ax.length ≠ d.length then .error .runtime
    else if (ax.zip d).all (fun p => match p.1 with | some nc => nc == p.2 | none => true) then .ok ()
    else .error .runtime
  | _, _ => .ok ()

def topLen : PyVal → Nat
  | .list l => l.length
  | _ => 0

def truthyDim : Option (List Nat) → Bool
  | some (_ :: _) => true
  | _ => false

def truthyVal : PyVal → Bool
  | .none => false
  | .list [] => false
  | .str [] _ _ => false
  | .int 0 => false
  | .bool false => false
  | _ => true

/-- values against zones: as many values as zones; without zones a PARAMETER (`single`) takes one value -/
def zonesCheck (single : Bool) (values : PyVal) (zonesCount : Option Nat) : Except Err Unit :=
  match values with
  | .none => .ok ()
  | v => match zonesCount with
    | some nz => if topLen v ≠ nz then .error .runtime else .ok ()
    | none => if single && decide ((flattenV v).length > 1) && (match v with | .list _ => true | _ => false)
              then .error .value else .ok ()

/-- PARAMETER (`single = true`: without zones at most one value) and COMPUTATION -/
def paramDefaults (single : Bool) (values : PyVal) (zonesCount : Option Nat) (dim : Option (List Nat))
    (axes : Option (List (Option Nat))) : Except Err (Option (List Nat)) := do
  zonesCheck single values zonesCount
  checkAxes axes dim
  let d ← checkOrSetDim dim values
  pure (if truthyVal values && !truthyDim d then some [1] else d)

/-- `count_attributes`: the attributes that hold a value must all hold the same number of (top-level) values -/
def countsAgree (vals : List PyVal) : Bool :=
  match (vals.filter (fun v => match v with | .none => false | _ => true)).map topLen with
  | [] => true
  | n :: rest => rest.all (· == n)

/-- CALIBRATION-COEFFICIENT -/
def calCoefDefaults (controlled : List PyVal) : Except Err Unit :=
  if countsAgree controlled then .ok () else .error .runtime

/-- CALIBRATION-MEASUREMENT: axis check, equal counts, then every controlled attribute checks / sets the dimension in turn -/
def calMeasDefaults (controlled : List PyVal) (dim : Option (List Nat)) (axes : Option (List (Option Nat))) :
    Except Err (Option (List Nat)) := do
  checkAxes axes dim
  calCoefDefaults controlled
  controlled.foldlM checkOrSetDim dim

/-- `ChannelItem._compare_element_limit_vs_dimension` -/
def limitCovers (el dim : List Nat) : Bool :=
  el.length ≥ dim.length && (el.zip dim).all (fun p => p.1 ≥ p.2)

def dimFromData (dimension : Option (List Nat)) (dim : List Nat) : Except Err (Option (List Nat)) :=
  if dimension ≠ some dim then (if truthyDim dimension then .error .runtime else .ok (some dim)) else .ok dimension

def limitFromData (limit : Option (List Nat)) (dim : List Nat) : Except Err (Option (List Nat)) :=
  if limit ≠ some dim then
    (if truthyDim limit then (if limitCovers (limit.getD []) dim then .ok limit else .error .runtime) else .ok (some dim))
  else .ok limit

/-- `ChannelItem._set_dimension_from_data` (`dim` = per-row shape of the data, or [1]): -> (dimension, element limit) -/
def channelFromData (dimension limit : Option (List Nat)) (dim : List Nat) :
    Except Err (Option (List Nat) × Option (List Nat)) := do
  let d ← dimFromData dimension dim
  let l ← limitFromData limit dim
  pure (d, l)

/-- the mutual default of DIMENSION and ELEMENT-LIMIT, or their consistency -/
def dimAndLimit (dimension limit : Option (List Nat)) : Except Err (Option (List Nat) × Option (List Nat)) :=
  if !truthyDim limit && truthyDim dimension then .ok (dimension, dimension)
  else if !truthyDim dimension && truthyDim limit then .ok (limit, limit)
  else if limit ≠ dimension then
    (match limit, dimension with
     | some el, some dm => if limitCovers el dm then .ok (dimension, limit) else .error .runtime
     | _, _ => .error .type)          -- None against an empty list: `len(None)`
  else .ok (dimension, limit)

/-- `ChannelItem._run_checks_and_set_defaults`: -> (dimension, element limit, long name is the channel's name?) -/
def channelDefaults (dimension limit : Option (List Nat)) (axes : Option (List (Option Nat))) (longName : PyVal) :
    Except Err (Option (List Nat) × Option (List Nat) × Bool) := do
  let dl ← dimAndLimit dimension limit
  checkAxes axes dl.1
  pure (dl.1, dl.2, !truthyVal longName)

/-- `OriginItem._run_checks_and_set_defaults`: the field name is WILDCAT unless one was assigned -/
def originFieldName (assigned : Option PStr) : PStr :=
  match assigned with
  | some s => s
  | none => [87, 73, 76, 68, 67, 65, 84]

/-! ### the dimension between two checks (writes) -/

/-- the DIMENSION attribute of a parameter / computation / calibration measurement between two checks: what it holds,
and whether that was derived from the values at the latest check (`dimension.value is _dimension_from_value`) rather
than assigned by the user -/
structure DimState where
  held : Option (List Nat)
  derived : Bool
  deriving Repr, DecidableEq

/-- the user assigns a dimension (or none was ever assigned) -/
def DimState.assigned (d : Option (List Nat)) : DimState := { held := d, derived := false }

/-- `_forget_derived_dimension`: what the checks start from -/
def DimState.forget (s : DimState) : Option (List Nat) := if s.derived then none else s.held

/-- one `_run_checks_and_set_defaults` of a PARAMETER / COMPUTATION: -> (state afterwards, outcome) -/
def paramCheckSt (single : Bool) (values : PyVal) (zonesCount : Option Nat) (axes : Option (List (Option Nat)))
    (s : DimState) : DimState × Except Err Unit :=
  match paramDefaults single values zonesCount s.forget axes with
  | .ok d => ({ held := d, derived := s.forget.isNone && d.isSome }, .ok ())
  | .error e => ({ held := s.forget, derived := false }, .error e)

/-- the controlled attributes of a CALIBRATION-MEASUREMENT check / set the dimension in turn; a failure leaves what
the earlier ones set -/
def foldDimSt : List PyVal → DimState → DimState × Except Err Unit
  | [], s => (s, .ok ())
  | v :: vs, s =>
    match checkOrSetDim s.held v with
    | .ok d => foldDimSt vs { held := d, derived := s.derived || (s.held.isNone && d.isSome) }
    | .error e => (s, .error e)

def calMeasCheckSt (controlled : List PyVal) (axes : Option (List (Option Nat))) (s : DimState) :
    DimState × Except Err Unit :=
  match (do checkAxes axes s.forget; calCoefDefaults controlled : Except Err Unit) with
  | .error e => ({ held := s.forget, derived := false }, .error e)
  | .ok _ => foldDimSt controlled { held := s.forget, derived := false }

/-- a history of checks of one item, each with the values (zones, axes) the item holds at that moment; the user does
not assign a dimension in between -/
inductive DimCheck
  | param (single : Bool) (values : PyVal) (zonesCount : Option Nat) (axes : Option (List (Option Nat)))
  | calMeas (controlled : List PyVal) (axes : Option (List (Option Nat)))

def DimCheck.run : DimCheck → DimState → DimState × Except Err Unit
  | .param single v zc ax, s => paramCheckSt single v zc ax s
  | .calMeas vs ax, s => calMeasCheckSt vs ax s

def dimHistory : List DimCheck → DimState → DimState
  | [], s => s
  | c :: cs, s => dimHistory cs (c.run s).1

end Dlis
