/-
  L5 — the specification state machine behind `DLISFile` / `LogicalFile.add_*`
  (`file/file.py`, `file/eflr_sets_dict.py`, `core/eflr/eflr_item.py`): set registries of the physical file
  and of each logical file, identity triples (origin, copy number, name), origin numbering and back-filling,
  the record order of `DLISFile.generator`, and what a rejected call leaves behind (nothing).

  Set types are numbers (`kind`), kind 0 = ORIGIN.  Attribute values do not matter at this layer: a call is
  `ok`, rejected before the item registered itself (`rejectEarly`: bad name / parent) or after
  (`rejectLate`: a value the attribute converters refuse).
-/
import Dlismodel.Model.Prim
namespace Dlis

structure Item where
  lf : Nat                  -- the logical file through which it was added
  kind : Nat
  setName : Option PStr
  name : PStr
  origin : Option Int       -- origin_reference
  copy : Nat
  deriving Repr, DecidableEq

abbrev Key := Nat × Option PStr

def Item.key (it : Item) : Key := (it.kind, it.setName)

inductive Outcome | ok | rejectEarly | rejectLate
  deriving Repr, DecidableEq

structure World where
  items : List Item                  -- registration order, physical-file wide (sets are shared by key)
  keys : List (List Key)             -- per logical file: the set keys of its registry
  headerOrigin : List (Option Int)   -- per logical file: origin reference of the file-header object
  deriving Repr, DecidableEq

def World.init (nLf : Nat) : World :=
  { items := [], keys := List.replicate nLf [], headerOrigin := List.replicate nLf none }

/-- nested-dict order: kinds in first-insertion order, names within a kind in insertion order -/
def insertKey (ks : List Key) (k : Key) : List Key :=
  if k ∈ ks then ks else
    match ks.reverse.dropWhile (fun x => x.1 ≠ k.1) with
    | [] => ks ++ [k]                                        -- new kind: at the end
    | pre => pre.reverse ++ [k] ++ ks.drop pre.length        -- after the last key of the same kind

def itemsOfKey (w : World) (k : Key) : List Item := w.items.filter (fun it => it.key = k)

def lfKeys (w : World) (lf : Nat) : List Key := w.keys.getD lf []

/-- `LogicalFile.origins`: items of the logical file's ORIGIN sets, set by set -/
def originsOfLf (w : World) (lf : Nat) : List Item :=
  ((lfKeys w lf).filter (fun k => k.1 = 0)).flatMap (itemsOfKey w)

def defaultOrigin (w : World) (lf : Nat) : Option Int :=
  match originsOfLf w lf with
  | [] => none
  | o :: _ => o.origin

def touchKey (w : World) (lf : Nat) (k : Key) : World :=
  { w with keys := w.keys.modify lf (fun ks => insertKey ks k) }

/-- `origin_reference or default`: an explicit 0 is falsy -/
def pickOrigin (oref : Option Int) (dflt : Option Int) : Option Int :=
  match oref with
  | some r => if r ≠ 0 then some r else dflt
  | none => dflt

/-- `LogicalFile._register`: once the set of the new object is registered with the logical file, the object is numbered
among the objects of its type and name in ALL the sets of that type the logical file has (registered) -/
def copyNumber (w : World) (lf kind : Nat) (sn : Option PStr) (name : PStr) : Nat :=
  (w.items.filter (fun it => decide (it.kind = kind) && decide (it.key ∈ lfKeys (touchKey w lf (kind, sn)) lf))).countP
    (fun it => it.name = name)

def appendItem (w : World) (it : Item) : World := { w with items := w.items ++ [it] }

/-- `LogicalFile.add_<kind>` for every kind except ORIGIN: the set is taken from (or made in) the physical file's
registry, the object is made — with `origin_reference or self.default_origin_reference` — and only then is the set
registered with the logical file; a call that is rejected (before or after the object registered itself with its
set: it is unregistered again) leaves nothing behind -/
def addItem (w : World) (lf kind : Nat) (sn : Option PStr) (name : PStr) (oref : Option Int) (out : Outcome) : World :=
  match out with
  | .ok =>
    let w1 := touchKey w lf (kind, sn)
    appendItem w1 { lf := lf, kind := kind, setName := sn, name := name,
                    origin := pickOrigin oref (defaultOrigin w lf), copy := copyNumber w lf kind sn name }
  | _ => w

def nextFree (refs : List Int) : Nat → Int → Int
  | 0, n => n
  | fuel + 1, n => if n ∈ refs then nextFree refs fuel (n + 1) else n

/-- `next_available_origin_ref` -/
def newOriginRef (origins : List Item) (oref : Option Int) : Except Err Int :=
  let refs := origins.filterMap (·.origin)
  match oref with
  | some r =>
    if r ≠ 0 then (if r ∈ refs then .error .runtime else .ok r)
    else .ok (nextFree refs (refs.length + 1) origins.length)
  | none => .ok (nextFree refs (refs.length + 1) origins.length)

/-- first origin of a logical file: objects of this logical file created before it get its reference, and so
does the file header -/
def backfill (w : World) (lf : Nat) (r : Int) : World :=
  { w with items := w.items.map (fun i =>
              if i.origin.isNone ∧ i.key ∈ lfKeys w lf then { i with origin := some r } else i),
           headerOrigin := w.headerOrigin.set lf (some r) }

/-- `LogicalFile.add_origin`: the reference is chosen among the origins the logical file has so far, the object is
made, then its set is registered with the logical file -/
def addOrigin (w : World) (lf : Nat) (sn : Option PStr) (name : PStr) (oref : Option Int) (out : Outcome) :
    World × Bool :=
  match newOriginRef (originsOfLf w lf) oref with
  | .error _ => (w, false)
  | .ok r =>
    match out with
    | .ok =>
      let w1 := touchKey w lf (0, sn)
      let w2 := appendItem w1 { lf := lf, kind := 0, setName := sn, name := name, origin := some r,
                                copy := copyNumber w lf 0 sn name }
      (if (originsOfLf w2 lf).length = 1 then backfill w2 lf r else w2, true)
    | _ => (w, false)

inductive Op
  | item (lf kind : Nat) (sn : Option PStr) (name : PStr) (oref : Option Int) (out : Outcome)
  | origin (lf : Nat) (sn : Option PStr) (name : PStr) (oref : Option Int) (out : Outcome)
  deriving Repr, DecidableEq

/-- `EFLRSetsDict.get_or_make_set`: an empty set name is no name (such a set is written without one) -/
def normName : Option PStr → Option PStr
  | some [] => none
  | x => x

def step (w : World) : Op → World
  | .item lf kind sn name oref out => if kind = 0 then w else addItem w lf kind (normName sn) name oref out
  | .origin lf sn name oref out => (addOrigin w lf (normName sn) name oref out).1

def run (w : World) (ops : List Op) : World := ops.foldl step w

/-! ### what a write emits -/

/-- a non-empty set registered in two logical files (they would both emit it): rejected at write -/
def sharedSet (w : World) : Bool :=
  (List.range w.keys.length).any fun a => (List.range w.keys.length).any fun b =>
    a < b && (lfKeys w a).any fun k => (lfKeys w b).contains k && !(itemsOfKey w k).isEmpty

/-- `generate_logical_records` preconditions at this layer: every logical file has an origin; no shared set -/
def writable (w : World) : Bool :=
  (List.range w.keys.length).all (fun lf => !(originsOfLf w lf).isEmpty) && !sharedSet w

/-- the explicitly formatted records of one logical file after the file header, as (key, objects):
ORIGIN sets first, then every other set in registry order; empty sets produce no record -/
def setRecords (w : World) (lf : Nat) : List (Key × List Item) :=
  let ks := lfKeys w lf
  ((ks.filter (fun k => k.1 = 0)) ++ (ks.filter (fun k => k.1 ≠ 0))).filterMap fun k =>
    let its := itemsOfKey w k
    if its.isEmpty then none else some (k, its)

end Dlis
