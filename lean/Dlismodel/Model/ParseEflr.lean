/-
  The strict reader for explicitly formatted logical records (RP66 V1 §3.2: components, sets, templates,
  objects, attributes).  What it accepts is the grammar C04 speaks about.
-/
import Dlismodel.Model.Eflr
namespace Dlis

/-- split one value of representation code `rc` off the front: the bytes of the value and the rest.  Defined
codes only; variable-length codes are decoded with the strict C06 decoders. -/
def valSplit (rc : Nat) (bs : Bytes) : Option (Bytes × Bytes) :=
  let fixed (k : Nat) := takeN k bs
  let viaRest (r : Option Bytes) : Option (Bytes × Bytes) :=
    match r with
    | some rest => if rest.length ≤ bs.length then some (bs.take (bs.length - rest.length), rest) else none
    | none => none
  match rc with
  | 1 => fixed 2 | 2 => fixed 4 | 3 => fixed 8 | 4 => fixed 12 | 5 => fixed 4 | 6 => fixed 4
  | 7 => fixed 8 | 8 => fixed 16 | 9 => fixed 24 | 10 => fixed 8 | 11 => fixed 16
  | 12 => fixed 1 | 13 => fixed 2 | 14 => fixed 4 | 15 => fixed 1 | 16 => fixed 2 | 17 => fixed 4
  | 18 => viaRest ((decUvari bs).map (·.2))
  | 19 => viaRest ((decIdent bs).map (·.2))
  | 20 => viaRest ((decAscii bs).map (·.2))
  | 21 => fixed 8
  | 22 => viaRest ((decUvari bs).map (·.2))
  | 23 => viaRest ((decObname bs).map (·.2))
  | 24 => viaRest ((decObjref bs).map (·.2))
  | 26 => viaRest ((decStatus bs).map (·.2))
  | 27 => viaRest ((decIdent bs).map (·.2))
  | _ => none

def valsSplit (rc : Nat) : Nat → Bytes → Option (List Bytes × Bytes)
  | 0, bs => some ([], bs)
  | n + 1, bs =>
    match valSplit rc bs with
    | some (v, rest) =>
      match valsSplit rc n rest with
      | some (vs, rest') => some (v :: vs, rest')
      | none => none
    | none => none

/-- template entry: label and the defaults it establishes -/
structure TAttr where
  label : Bytes
  count : Nat := 1
  rc : Nat := 19
  units : Bytes := []
  deriving Repr, DecidableEq

/-- a decoded attribute of an object -/
structure DAttr where
  count : Nat
  rc : Nat
  units : Bytes
  vals : List Bytes          -- one entry per value: exactly the bytes of that value
  deriving Repr, DecidableEq

/-- the optional count / representation code / units fields announced by descriptor bits 8, 4, 2 -/
def parseCRU (d : Nat) (dflt : TAttr) (bs : Bytes) : Option ((Nat × Nat × Bytes) × Bytes) :=
  match (if d / 8 % 2 = 1 then decUvari bs else some (dflt.count, bs)) with
  | none => none
  | some (cnt, r1) =>
    match (if d / 4 % 2 = 1 then (match r1 with | c :: r => some (c.toNat, r) | [] => none) else some (dflt.rc, r1)) with
    | none => none
    | some (rc, r2) =>
      if rc = 0 ∨ rc > 27 then none else
      match (if d / 2 % 2 = 1 then decIdent r2 else some (dflt.units, r2)) with
      | none => none
      | some (u, r3) => some ((cnt, rc, u), r3)

/-- one template attribute component: role ATTRIB (001), label mandatory, no default value -/
def parseTAttr (bs : Bytes) : Option (TAttr × Bytes) :=
  match bs with
  | [] => none
  | d :: r0 =>
    let dn := d.toNat
    if dn / 32 ≠ 1 ∨ dn / 16 % 2 ≠ 1 ∨ dn % 2 = 1 then none else
    match decIdent r0 with
    | none => none
    | some (l, r1) =>
      if l.isEmpty then none else
      match parseCRU dn {label := l} r1 with
      | some ((c, rc, u), r2) => some ({ label := l, count := c, rc := rc, units := u }, r2)
      | none => none

/-- template: attribute components up to the first object component -/
def parseTemplate : Nat → Bytes → Option (List TAttr × Bytes)
  | 0, _ => none
  | fuel + 1, bs =>
    match bs with
    | [] => some ([], [])
    | d :: _ =>
      if d.toNat / 32 = 3 then some ([], bs) else
      match parseTAttr bs with
      | some (t, rest) => (parseTemplate fuel rest).map fun (ts, r) => (t :: ts, r)
      | none => none

/-- attribute components of one object, in template order; an object may stop early (trailing omitted) -/
def parseOAttrs : List TAttr → Bytes → Option (List (Option DAttr) × Bytes)
  | [], bs => some ([], bs)
  | t :: ts, bs =>
    match bs with
    | [] => some ([], [])
    | d :: r0 =>
      let dn := d.toNat
      if dn / 32 = 3 then some ([], bs)                        -- next object starts
      else if dn / 32 = 0 then                                 -- ABSATR
        if dn % 32 ≠ 0 then none else
        (parseOAttrs ts r0).map fun (as, r) => (none :: as, r)
      else if dn / 32 = 1 then
        if dn / 16 % 2 = 1 then none else                      -- no label inside an object
        match parseCRU dn t r0 with
        | none => none
        | some ((cnt, rc, u), r1) =>
          -- a value that is announced must be there, `count` times; a component without value is only acceptable
          -- with a count of 0 (an empty list): a value that is not there is an *absent attribute*, not a component
          -- announcing `count` values and carrying none
          match (if dn % 2 = 1 then valsSplit rc cnt r1 else (if cnt = 0 then some ([], r1) else none)) with
          | none => none
          | some (vs, r2) =>
            (parseOAttrs ts r2).map fun (as, r) => (some { count := cnt, rc := rc, units := u, vals := vs } :: as, r)
      else none

structure DObj where
  name : ObNameVal
  attrs : List (Option DAttr)
  deriving Repr, DecidableEq

def parseObjs (tmpl : List TAttr) : Nat → Bytes → Option (List DObj)
  | _, [] => some []
  | 0, _ => none
  | fuel + 1, d :: r0 =>
    if d.toNat ≠ 0x70 then none else            -- OBJECT component with a name
    match decObname r0 with
    | none => none
    | some (n, r1) =>
      match parseOAttrs tmpl r1 with
      | none => none
      | some (as, r2) =>
        -- what follows must be another object (or the end): no unconsumed attribute components
        match r2 with
        | [] => some [{ name := n, attrs := as }]
        | d' :: _ => if d'.toNat / 32 ≠ 3 then none else
                     (parseObjs tmpl fuel r2).map ({ name := n, attrs := as } :: ·)

structure DSet where
  type : Bytes
  name : Option Bytes
  template : List TAttr
  objects : List DObj
  deriving Repr, DecidableEq

/-- a whole EFLR body: SET component (type mandatory, name optional), template, at least one object -/
def parseEflr (bs : Bytes) : Option DSet :=
  match bs with
  | [] => none
  | d :: r0 =>
    let dn := d.toNat
    if dn / 32 ≠ 7 ∨ dn / 16 % 2 ≠ 1 ∨ dn % 8 ≠ 0 then none else
    match decIdent r0 with
    | none => none
    | some (ty, r1) =>
      if ty.isEmpty then none else
      match (if dn / 8 % 2 = 1 then (decIdent r1).map (fun (n, r) => (some n, r)) else some (none, r1)) with
      | none => none
      | some (nm, r2) =>
        match parseTemplate (r2.length + 1) r2 with
        | none => none
        | some (tmpl, r3) =>
          if !(tmpl.map (·.label)).Nodup then none else
          match parseObjs tmpl r3.length r3 with
          | some objs => if objs.isEmpty then none else some { type := ty, name := nm, template := tmpl, objects := objs }
          | none => none

end Dlis
