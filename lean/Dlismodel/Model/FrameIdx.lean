/-
  The index attributes of a frame between two writes (`FrameItem._setup_frame_params_from_data`, `_set_from_data`):
  what each holds, and whether it was derived from the data at the latest write or assigned by the user.  What is
  derived from the rows is `indexAttrs` (Model/Index.lean); this file is the life cycle around it.
-/
import Dlismodel.Model.Index
import Dlismodel.Model.Prim
namespace Dlis

/-- one part (value or units) of an index attribute of a frame between two writes: what it holds, and whether that
was put there by `assign_if_none` at the latest setup (`_set_from_data`) rather than by the user -/
structure IdxPart (α : Type) where
  held : Option α
  derived : Bool
  deriving Repr, DecidableEq

/-- what the setup starts from: parts derived at an earlier setup are reset -/
def IdxPart.forget {α : Type} (p : IdxPart α) : Option α := if p.derived then none else p.held
def IdxPart.user {α : Type} (v : Option α) : IdxPart α := { held := v, derived := false }
/-- `assign_if_none` on a reset part: a user value is kept; otherwise the derived value, recorded as derived -/
def IdxPart.assign {α : Type} (cur : Option α) (v : Option α) : IdxPart α :=
  match cur with
  | some u => { held := some u, derived := false }
  | none => { held := v, derived := v.isSome }

/-- INDEX-MIN, INDEX-MAX, SPACING (twice its value, as in `Spacing`), DIRECTION (true = increasing) -/
structure FrameIdx where
  imin : IdxPart Int
  imax : IdxPart Int
  spacing : IdxPart Int
  direction : IdxPart Bool
  deriving Repr, DecidableEq

def FrameIdx.user (mn mx sp : Option Int) (di : Option Bool) : FrameIdx :=
  { imin := .user mn, imax := .user mx, spacing := .user sp, direction := .user di }

/-- the user's part of a state -/
def FrameIdx.forget (s : FrameIdx) : FrameIdx :=
  FrameIdx.user s.imin.forget s.imax.forget s.spacing.forget s.direction.forget

/-- `FrameItem._setup_frame_params_from_data` on the rows `xs` of the index channel (`indexed` = the frame has an index
type; `hc` = high-compatibility mode, in which an unevenly spaced index is refused — after INDEX-MIN / -MAX were
assigned): -> (state afterwards, outcome) -/
def frameSetup (hc indexed : Bool) (xs : List Int) (s : FrameIdx) : FrameIdx × Except Err Unit :=
  let mn := s.imin.forget
  let mx := s.imax.forget
  let sp := s.spacing.forget
  let di := s.direction.forget
  if !indexed then
    ({ imin := .assign mn (some 1), imax := .assign mx (some (xs.length : Int)), spacing := .assign sp (some 2),
       direction := .user di }, .ok ())
  else
    let a := indexAttrs xs
    match a.spacing with
    | .absent =>
      if hc then ({ imin := .assign mn a.imin, imax := .assign mx a.imax, spacing := .user sp, direction := .user di },
                  .error .runtime)
      else ({ imin := .assign mn a.imin, imax := .assign mx a.imax, spacing := .user sp,
              direction := .assign di a.direction }, .ok ())
    | .exact d => ({ imin := .assign mn a.imin, imax := .assign mx a.imax, spacing := .assign sp (some (2 * d)),
                     direction := .user di }, .ok ())
    | .median m2 => ({ imin := .assign mn a.imin, imax := .assign mx a.imax, spacing := .assign sp (some m2),
                       direction := .user di }, .ok ())

/-- a history of writes of one frame: the mode, whether the frame has an index type (the user may change that), the
rows of the index channel -/
def frameHistory : List (Bool × Bool × List Int) → FrameIdx → FrameIdx
  | [], s => s
  | (hc, indexed, xs) :: rest, s => frameHistory rest (frameSetup hc indexed xs s).1

end Dlis
