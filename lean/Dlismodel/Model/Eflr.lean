/-
  L2 — explicitly formatted logical records: attribute components, templates, object components, set
  components (`core/attribute/attribute.py`, `core/eflr/eflr_item.py`, `core/eflr/eflr_set.py`,
  `eflr_types/file_header.py`), and the write_struct dispatch on dynamically typed values.
-/
import Dlismodel.Model.Prim
import Dlismodel.Model.Seg
namespace Dlis

/-- a value as it reaches `write_struct`, i.e. after the attribute's converter ran -/
inductive AVal
  | int (i : Int)                           -- Python int / numpy integer scalar
  | bool (b : Bool)
  | f64 (bits : Nat)                        -- Python float / numpy float64: IEEE bit pattern
  | f32 (bits : Nat)                        -- numpy float32 scalar
  | str (s : PStr)
  | dtime (t : DTime)                       -- already converted to UTC
  | obj (setType : PStr) (o : ObName)       -- an EFLR item (origin -1 stands for "None")
  deriving Repr, DecidableEq

def boolStr (b : Bool) : PStr := if b then [84, 114, 117, 101] else [70, 97, 108, 115, 101]   -- "True"/"False"

/-- `int -> float64` bits for |i| < 2^53 (exact); larger magnitudes are outside the model -/
def intToF64 (i : Int) : Option Nat :=
  if i = 0 then some 0 else
  let a := i.natAbs
  if a ≥ 2 ^ 53 then none else
  let e := Nat.log2 a
  let mant := a * 2 ^ (52 - e) - 2 ^ 52
  some ((if i < 0 then 2 ^ 63 else 0) + (e + 1023) * 2 ^ 52 + mant)

/-- `float32 -> float64` (exact widening) on bit patterns, finite normal / zero / inf; NaN and subnormals are
outside the model -/
def f32ToF64 (b : Nat) : Option Nat :=
  let s := b / 2 ^ 31
  let e := b / 2 ^ 23 % 256
  let m := b % 2 ^ 23
  if e = 0 then (if m = 0 then some (s * 2 ^ 63) else none)
  else if e = 255 then (if m = 0 then some (s * 2 ^ 63 + 2047 * 2 ^ 52) else none)
  else some (s * 2 ^ 63 + (e + 896) * 2 ^ 52 + m * 2 ^ 29)

/-! `float64 -> float32` as `struct.pack('>f', x)` does it: the C cast `(float) x` under the default rounding mode
(round to nearest, ties to even), on bit patterns.  A double of exponent field `e'` (1 for subnormals) and
significand `sig` (with the implicit bit) is worth `sig * 2^(e' - 1075)`; the single keeps `53 - shift` bits. -/

/-- how many low bits of the significand a single cannot hold (29 for normal singles, more as it gets subnormal) -/
def f32Shift (e' : Nat) : Nat := if e' ≥ 897 then 29 else 926 - e'
/-- the exponent part of the single's magnitude bits, less one unit that the significand's leading bit brings -/
def f32Base (e' : Nat) : Nat := if e' ≥ 897 then (e' - 897) * 2 ^ 23 else 0
def roundUp (sig shift : Nat) : Nat :=
  if sig % 2 ^ shift > 2 ^ (shift - 1) ∨ (sig % 2 ^ shift = 2 ^ (shift - 1) ∧ sig / 2 ^ shift % 2 = 1) then 1 else 0
/-- magnitude bits (exponent and fraction fields) of the rounded single; a carry out of the fraction runs into the
exponent, as it should -/
def roundMag (sig e' : Nat) : Nat := f32Base e' + sig / 2 ^ f32Shift e' + roundUp sig (f32Shift e')

/-- `struct.pack('>f', x)` of a Python float given by its bit pattern -> bit pattern of the single.  A finite
double that rounds beyond the largest finite single raises OverflowError ("float too large to pack with f format");
a NaN keeps its sign and the upper 22 payload bits and comes out quiet (what the x86-64 / AArch64 conversion
instructions do; CPython 3.12 adds nothing to the C cast). -/
def f64ToF32 (b : Nat) : Except Err Nat :=
  let s := b / 2 ^ 63
  let e := b / 2 ^ 52 % 2048
  let m := b % 2 ^ 52
  if e = 2047 then
    if m = 0 then .ok (s * 2 ^ 31 + 255 * 2 ^ 23)
    else .ok (s * 2 ^ 31 + 255 * 2 ^ 23 + 2 ^ 22 + m / 2 ^ 29 % 2 ^ 22)
  else
    let mag := roundMag (if e = 0 then m else 2 ^ 52 + m) (if e = 0 then 1 else e)
    if mag ≥ 255 * 2 ^ 23 then .error .overflow else .ok (s * 2 ^ 31 + mag)

/-- `write_struct(representation_code, value)` -/
def encVal (rc : Nat) (v : AVal) : Except Err Bytes :=
  let asInt : Option Int := match v with
    | .int i => some i | .bool b => some (if b then 1 else 0) | _ => none
  match rc with
  | 12 => match asInt with | some i => encS 1 i | none => .error .struct
  | 13 => match asInt with | some i => encS 2 i | none => .error .struct
  | 14 => match asInt with | some i => encS 4 i | none => .error .struct
  | 15 => match asInt with | some i => encU 1 i | none => .error .struct
  | 16 => match asInt with | some i => encU 2 i | none => .error .struct
  | 17 => match asInt with | some i => encU 4 i | none => .error .struct
  | 18 => match asInt with | some i => encUvari i | none => .error .struct
  | 26 => match v with
    | .int i => encStatus i | .bool b => encStatus (if b then 1 else 0)
    | .f64 _ => .error .unmodelled | _ => .error .value
  | 7 => match v with
    | .f64 b => if b < 2 ^ 64 then .ok (beN 8 b) else .error .unmodelled
    | .f32 b => match f32ToF64 b with
      | some d => if d < 2 ^ 64 then .ok (beN 8 d) else .error .unmodelled | none => .error .unmodelled
    | .int i => match intToF64 i with
      | some d => if d < 2 ^ 64 then .ok (beN 8 d) else .error .unmodelled | none => .error .unmodelled
    | .bool b => .ok (beN 8 (if b then 0x3FF0000000000000 else 0))
    | _ => .error .struct
  | 2 => match v with
    | .f32 b => if b < 2 ^ 32 then .ok (beN 4 b) else .error .unmodelled
    | .f64 b => if b < 2 ^ 64 then (f64ToF32 b).map (beN 4) else .error .unmodelled
    | .int i => match intToF64 i with
      | some d => (f64ToF32 d).map (beN 4) | none => .error .unmodelled
    | .bool b => .ok (beN 4 (if b then 0x3F800000 else 0))
    | _ => .error .struct
  | 19 => match v with
    | .str s => encIdent s | .int i => encIdent (intStr i) | .bool b => encIdent (boolStr b)
    | .f64 _ => .error .unmodelled | .f32 _ => .error .unmodelled   -- repr(float) is outside the model
    | _ => .error .unmodelled
  | 20 => match v with
    | .str s => encAscii s | .int i => encAscii (intStr i) | .bool b => encAscii (boolStr b)
    | _ => .error .unmodelled
  | 21 => match v with | .dtime t => encDtime t | _ => .error .attr
  | 23 => match v with | .obj _ o => encObname o | _ => .error .type
  | 24 => match v with | .obj t o => encObjref t o | _ => .error .attr
  | _ => .error .unmodelled

/-- the state of one attribute of one item at write time -/
structure AttrSt where
  rc : Option Nat            -- `representation_code` (explicit or inferred), None if undetermined
  units : Option PStr        -- `_units`
  isList : Bool              -- the value is a list/tuple
  vals : List AVal           -- flattened values (a scalar value is a singleton)
  deriving Repr, DecidableEq

def AttrSt.count (a : AttrSt) : Nat := if a.isList then a.vals.length else 1

def encVals (rc : Nat) : List AVal → Except Err Bytes
  | [] => .ok []
  | v :: vs => do
    let b ← encVal rc v
    let bs ← encVals rc vs
    pure (b ++ bs)

/-- the values of an attribute: none to write, or all with the one representation code; without a code
(`None`) nothing can be written -/
def valsBody (a : AttrSt) : Except Err Bytes :=
  if a.vals.isEmpty then .ok [] else
  match a.rc with
  | some r => encVals r a.vals
  | none => .error .attr

def hasUnits (a : AttrSt) : Bool := match a.units with | some u => !u.isEmpty | none => false

/-- the count is written iff it is not the default 1 (also 0, for an empty list) -/
def cntBytes (a : AttrSt) : Except Err Bytes := if a.count ≠ 1 then encUvari a.count else .ok []

def rcBytes (a : AttrSt) : Bytes := match a.rc with | some r => [b8 r] | none => []

def unitsBytes (a : AttrSt) : Except Err Bytes := if hasUnits a then encIdent (a.units.getD []) else .ok []

/-- descriptor: role ATTRIB (001), no label, then count / representation code / units / value bits -/
def descByte (a : AttrSt) : Nat :=
  32 + (if a.count ≠ 1 then 8 else 0) + (if a.rc.isSome then 4 else 0) + (if hasUnits a then 2 else 0)
    + (if !a.vals.isEmpty then 1 else 0)

/-- `Attribute.get_as_bytes()` for an item's attribute whose value is not None -/
def attrBody (a : AttrSt) : Except Err Bytes := do
  let cnt ← cntBytes a
  let ub ← unitsBytes a
  let vb ← valsBody a
  pure (b8 (descByte a) :: (cnt ++ rcBytes a ++ ub ++ vb))

/-- `EFLRItem._make_attrs_bytes`: an unset attribute is the absent-attribute component -/
def attrsBody : List (Option AttrSt) → Except Err Bytes
  | [] => .ok []
  | none :: rest => do let r ← attrsBody rest; pure (0 :: r)
  | some a :: rest => do
    let b ← attrBody a
    let r ← attrsBody rest
    pure (b ++ r)

structure ObjDesc where
  name : ObName
  attrs : List (Option AttrSt)
  deriving Repr, DecidableEq

/-- `make_item_body_bytes`: b'p' + obname + attributes -/
def objBody (o : ObjDesc) : Except Err Bytes := do
  let n ← encObname o.name
  let a ← attrsBody o.attrs
  pure (0x70 :: (n ++ a))

def objsBody : List ObjDesc → Except Err Bytes
  | [] => .ok []
  | o :: os => do
    let b ← objBody o
    let r ← objsBody os
    pure (b ++ r)

/-- `Attribute.get_as_bytes(for_template=True)` for one label -/
def templOne (l : PStr) : Except Err Bytes :=
  if l.isEmpty then .ok [b8 0x20] else do let i ← encIdent l; pure (b8 0x30 :: i)

def templBody : List PStr → Except Err Bytes
  | [] => .ok []
  | l :: ls => do
    let b ← templOne l
    let r ← templBody ls
    pure (b ++ r)

structure SetDesc where
  type : PStr
  name : Option PStr
  labels : List PStr
  objects : List ObjDesc
  deriving Repr, DecidableEq

def hasName (s : SetDesc) : Bool := match s.name with | some n => !n.isEmpty | none => false

/-- `_make_set_component_bytes` -/
def setComp (s : SetDesc) : Except Err Bytes :=
  if hasName s then do
    let t ← encIdent s.type
    let n ← encIdent (s.name.getD [])
    pure (0xF8 :: (t ++ n))
  else do
    let t ← encIdent s.type
    pure (0xF0 :: t)

/-- `EFLRSet._make_body_bytes` (all set types except FILE-HEADER) -/
def setBody (s : SetDesc) : Except Err Bytes :=
  if s.objects.isEmpty then .ok [] else do
  let sc ← setComp s
  let tb ← templBody s.labels
  let ob ← objsBody s.objects
  pure (sc ++ tb ++ ob)

/-! ### FILE-HEADER: hand-written components -/

def sSEQ : PStr := [83, 69, 81, 85, 69, 78, 67, 69, 45, 78, 85, 77, 66, 69, 82]   -- "SEQUENCE-NUMBER"
def sID : PStr := [73, 68]
def sFILEHEADER : PStr := [70, 73, 76, 69, 45, 72, 69, 65, 68, 69, 82]

/-- `FileHeaderSet._make_body_bytes` for its single item -/
def fileHeaderBody (name : ObName) (seqNo : Int) (headerId : PStr) : Except Err Bytes := do
  let t ← encIdent sFILEHEADER
  let l1 ← encAscii sSEQ
  let l2 ← encAscii sID
  let n ← encObname name
  let s ← justify (intStr seqNo) 10 false
  let h ← justify headerId 65 true
  pure (0xF0 :: t ++ (0x34 :: l1 ++ [20]) ++ (0x34 :: l2 ++ [20]) ++ (0x70 :: n) ++ (0x21 :: 10 :: s) ++ (0x21 :: 65 :: h))

end Dlis
