/-
  High-compatibility mode (`utils/high_compatibility_mode.py`, `configuration.py`, `value_checkers.py`,
  `validator_enum.py`, `raise_or_warn`): a process-global flag with a save/restore context manager, and the
  checks that turn from warnings into errors when it is on.
-/
import Dlismodel.Model.Prim
namespace Dlis

/-- the flag and the stack of saved values of the active contexts -/
structure HcState where
  flag : Bool
  saved : List Bool
  deriving Repr, DecidableEq

inductive HcOp
  | enter                 -- `with high_compatibility_mode():` / decorated call: save the flag, switch it on
  | leave                 -- the `finally:` of the context manager, reached normally or by an exception
  | other                 -- any library call in between (it may fail; it never touches the flag)
  deriving Repr, DecidableEq

def hcStep (s : HcState) : HcOp → HcState
  | .enter => { flag := true, saved := s.flag :: s.saved }
  | .leave => match s.saved with
    | a :: rest => { flag := a, saved := rest }
    | [] => s
  | .other => s

def hcRun (s : HcState) (ops : List HcOp) : HcState := ops.foldl hcStep s

/-- well-bracketed sequences of context entries and exits around arbitrary calls -/
inductive Bracketed : List HcOp → Prop
  | nil : Bracketed []
  | other {s} : Bracketed s → Bracketed (HcOp.other :: s)
  | ctx {s t} : Bracketed s → Bracketed t → Bracketed (HcOp.enter :: s ++ HcOp.leave :: t)

/-- `HC_STRING_PATTERN.fullmatch`: `[A-Z0-9_-]+` -/
def hcChar (c : Nat) : Bool := (65 ≤ c && c ≤ 90) || (48 ≤ c && c ≤ 57) || c == 95 || c == 45

def hcString (s : PStr) : Bool := !s.isEmpty && s.all hcChar

/-- `validate_string` on a `str` -/
def validateString (hc : Bool) (s : PStr) : Except Err PStr :=
  if !hc then .ok s else if hcString s then .ok s else .error .value

/-- `ValidatorEnum.make_converter(soft=...)` on a `str`: a non-member is accepted (with a warning) only by a
soft converter outside the mode -/
def enumConvert (hc soft : Bool) (members : List PStr) (v : PStr) : Except Err PStr :=
  if members.contains v then .ok v else if soft && !hc then .ok v else .error .value

/-- `raise_or_warn` -/
def raiseOrWarn (hc : Bool) (violated : Bool) : Except Err Unit :=
  if violated && hc then .error .runtime else .ok ()

/-- `OriginItem.__init__` in the mode: a file set number that is not supplied is the origin's ordinal in its set -/
def hcFileSetNumber (hc : Bool) (supplied : Option Nat) (ordinal : Nat) (random : Nat) : Nat :=
  match supplied with
  | some n => n
  | none => if hc then ordinal else random

end Dlis
