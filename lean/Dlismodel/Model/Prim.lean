/-
  L0 — primitive encodings of RP66 V1 representation codes, as `dliswriter` produces them
  (`utils/internal/struct_writer.py`, `internal_enums.py`), and the *strict* decoders of the
  standard.  Import-free, executable; proofs live in `Proofs/Prim.lean`, property theorems in
  `Props/C06.lean`.
-/
namespace Dlis

abbrev Bytes := List UInt8

deriving instance DecidableEq for Except

/-- Exceptions, by Python class.  Only ok/error is compared with the implementation. -/
inductive Err
  | struct | value | type | runtime | overflow | unicode | attr | unmodelled
  deriving Repr, DecidableEq, Inhabited

def Err.name : Err → String
  | .struct => "struct" | .value => "value" | .type => "type" | .runtime => "runtime"
  | .overflow => "overflow" | .unicode => "unicode" | .attr => "attr" | .unmodelled => "unmodelled"

@[inline] def b8 (n : Nat) : UInt8 := UInt8.ofNat n

/-- big-endian, `k` bytes; the value is taken modulo `256^k` (callers guard the range). -/
def beN : Nat → Nat → Bytes
  | 0, _ => []
  | k+1, n => beN k (n / 256) ++ [b8 n]

/-- strict big-endian read of `k` bytes -/
def rdN : Nat → Bytes → Option (Nat × Bytes)
  | 0, bs => some (0, bs)
  | k+1, bs =>
    match rdN k bs with
    | some (hi, b :: rest) => some (hi * 256 + b.toNat, rest)
    | _ => none

/-- `struct.pack('>B'|'>H'|'>I', v)`: unsigned, `k` bytes, range-checked. -/
def encU (k : Nat) (v : Int) : Except Err Bytes :=
  if 0 ≤ v ∧ v < (256 : Int) ^ k then .ok (beN k v.toNat) else .error .struct

/-- `struct.pack('>b'|'>h'|'>i', v)`: two's complement, `k` bytes, range-checked. -/
def encS (k : Nat) (v : Int) : Except Err Bytes :=
  if -((256 : Int) ^ k / 2) ≤ v ∧ v < (256 : Int) ^ k / 2
  then .ok (beN k (v % (256 : Int) ^ k).toNat) else .error .struct

def decU (k : Nat) (bs : Bytes) : Option (Int × Bytes) :=
  (rdN k bs).map fun (n, r) => ((n : Int), r)

def decS (k : Nat) (bs : Bytes) : Option (Int × Bytes) :=
  (rdN k bs).map fun (n, r) =>
    (if n < 256 ^ k / 2 then (n : Int) else (n : Int) - (256 : Int) ^ k, r)

/-! ### UVARI -/

/-- `write_struct_uvari` -/
def encUvari (v : Int) : Except Err Bytes :=
  if v < 128 then encU 1 v
  else if v < 16384 then encU 2 (v + 32768)
  else encU 4 (v + 3221225472)

/-- strict UVARI decoder: the two high bits select the width; non-minimal forms are accepted by
the standard, so they are accepted here too (the round-trip theorem does not need them). -/
def decUvari (bs : Bytes) : Option (Nat × Bytes) :=
  match bs with
  | [] => none
  | b :: rest =>
    if b.toNat < 128 then some (b.toNat, rest)
    else if b.toNat < 192 then
      match rest with
      | c :: rest' => some ((b.toNat - 128) * 256 + c.toNat, rest')
      | _ => none
    else
      match rest with
      | c :: d :: e :: rest' =>
        some ((((b.toNat - 192) * 256 + c.toNat) * 256 + d.toNat) * 256 + e.toNat, rest')
      | _ => none

/-! ### text: IDENT (1-byte length) and ASCII (UVARI length) -/

/-- a Python `str` as code points -/
abbrev PStr := List Nat

def isAscii (s : PStr) : Bool := s.all (· < 128)

def asciiBytes (s : PStr) : Except Err Bytes :=
  if isAscii s then .ok (s.map b8) else .error .unicode

/-- `write_struct_ascii` on a `str`: UVARI length prefix + ASCII bytes -/
def encAscii (s : PStr) : Except Err Bytes := do
  let l ← encUvari s.length
  let b ← asciiBytes s
  pure (l ++ b)

/-- `write_struct_ident` (after the D11 repair): USHORT length prefix, at most 255 characters -/
def encIdent (s : PStr) : Except Err Bytes :=
  if s.length > 255 then .error .value else do
  let b ← asciiBytes s
  pure (b8 s.length :: b)

def takeN (n : Nat) (bs : Bytes) : Option (Bytes × Bytes) :=
  if n ≤ bs.length then some (bs.take n, bs.drop n) else none

def allAscii (bs : Bytes) : Bool := bs.all (·.toNat < 128)

def decAscii (bs : Bytes) : Option (Bytes × Bytes) :=
  match decUvari bs with
  | some (n, rest) =>
    match takeN n rest with
    | some (s, rest') => if allAscii s then some (s, rest') else none
    | none => none
  | none => none

def decIdent (bs : Bytes) : Option (Bytes × Bytes) :=
  match bs with
  | [] => none
  | l :: rest =>
    match takeN l.toNat rest with
    | some (s, rest') => if allAscii s then some (s, rest') else none
    | none => none

/-! ### DTIME -/

structure DTime where
  year : Int      -- calendar year
  month : Nat
  day : Nat
  hour : Nat
  minute : Nat
  second : Nat
  micro : Nat
  deriving Repr, DecidableEq

/-- `min(round(us / 1000), 999)` in integer arithmetic (Python rounds half to even) -/
def msOfMicro (us : Nat) : Nat :=
  let q := us / 1000
  let r := us % 1000
  let m := if r < 500 then q else if r > 500 then q + 1 else if q % 2 = 0 then q else q + 1
  min m 999

/-- `write_struct_dtime` on an already-UTC date-time -/
def encDtime (t : DTime) : Except Err Bytes := do
  let y ← encU 1 (t.year - 1900)
  let tzm ← encU 1 (32 + t.month)        -- int('0010' + 4-bit month, 2)
  let d ← encU 1 t.day
  let h ← encU 1 t.hour
  let mi ← encU 1 t.minute
  let s ← encU 1 t.second
  let ms ← encU 2 (msOfMicro t.micro)
  pure (y ++ tzm ++ d ++ h ++ mi ++ s ++ ms)

structure DTimeVal where
  y : Nat       -- years since 1900
  tz : Nat
  month : Nat
  day : Nat
  hour : Nat
  minute : Nat
  second : Nat
  ms : Nat
  deriving Repr, DecidableEq

/-- strict DTIME decoder: 8 bytes, fields within the standard's ranges -/
def decDtime (bs : Bytes) : Option (DTimeVal × Bytes) :=
  match bs with
  | y :: tzm :: d :: h :: mi :: s :: ms1 :: ms0 :: rest =>
    let v : DTimeVal := { y := y.toNat, tz := tzm.toNat / 16, month := tzm.toNat % 16, day := d.toNat,
                          hour := h.toNat, minute := mi.toNat, second := s.toNat,
                          ms := ms1.toNat * 256 + ms0.toNat }
    if v.tz ≤ 2 ∧ 1 ≤ v.month ∧ v.month ≤ 12 ∧ 1 ≤ v.day ∧ v.day ≤ 31 ∧ v.hour ≤ 23 ∧ v.minute ≤ 59
        ∧ v.second ≤ 59 ∧ v.ms ≤ 999
    then some (v, rest) else none
  | _ => none

/-! ### OBNAME / OBJREF -/

structure ObName where
  origin : Int
  copy : Int
  name : PStr
  deriving Repr, DecidableEq

/-- `write_struct_obname`: UVARI origin, USHORT copy, IDENT name -/
def encObname (o : ObName) : Except Err Bytes := do
  let a ← encUvari o.origin
  let c ← encU 1 o.copy
  let n ← encIdent o.name
  pure (a ++ c ++ n)

/-- `write_struct_objref`: IDENT set type + OBNAME -/
def encObjref (setType : PStr) (o : ObName) : Except Err Bytes := do
  let t ← encIdent setType
  let n ← encObname o
  pure (t ++ n)

structure ObNameVal where
  origin : Nat
  copy : Nat
  name : Bytes
  deriving Repr, DecidableEq

def decObname (bs : Bytes) : Option (ObNameVal × Bytes) :=
  match decUvari bs with
  | some (o, r1) =>
    match r1 with
    | c :: r2 =>
      match decIdent r2 with
      | some (n, r3) => some ({ origin := o, copy := c.toNat, name := n }, r3)
      | none => none
    | [] => none
  | none => none

def decObjref (bs : Bytes) : Option ((Bytes × ObNameVal) × Bytes) :=
  match decIdent bs with
  | some (t, r1) =>
    match decObname r1 with
    | some (o, r2) => some ((t, o), r2)
    | none => none
  | none => none

/-! ### STATUS -/

def encStatus (v : Int) : Except Err Bytes :=
  if v ≠ 0 ∧ v ≠ 1 then .error .value else encU 1 v

def decStatus (bs : Bytes) : Option (Nat × Bytes) :=
  match bs with
  | b :: rest => if b.toNat ≤ 1 then some (b.toNat, rest) else none
  | [] => none

end Dlis
