/-
  `BufferedOutput` / `ByteWriter` (`file/writer.py`): bytes are collected in a buffer of `cap` bytes; when the
  next visible record does not fit, the buffer is written to the file and restarted.  The first physical write
  (the storage unit label) replaces the target file ('wb'), all later ones append ('ab').
-/
import Dlismodel.Model.Seg
namespace Dlis

structure Out where
  cap : Nat
  buf : Bytes              -- filled part of the buffer
  writes : List Bytes      -- physical writes so far, in order
  total : Nat              -- ByteWriter.total_size
  deriving Repr, DecidableEq

/-- `ByteWriter.write_bytes` -/
def Out.flush (o : Out) : Out :=
  { o with writes := o.writes ++ [o.buf], total := o.total + o.buf.length, buf := [] }

/-- `BufferedOutput.add_bytes` -/
def Out.add (o : Out) (b : Bytes) : Out :=
  if o.buf.length + b.length > o.cap then { o.flush with buf := b } else { o with buf := o.buf ++ b }

/-- `write_storage_unit_label` then `write_logical_records`: the label is written directly, every visible record
goes through the buffer, the rest of the buffer is written at the end -/
def runOutput (cap : Nat) (sul : Bytes) (vrs : List Bytes) : Out :=
  (vrs.foldl Out.add { cap := cap, buf := [], writes := [sul], total := sul.length }).flush

/-- content of the target file after the first `k` physical writes: the first write replaces whatever was
there, the others append -/
def diskAfter (o : Out) (k : Nat) : Bytes := (o.writes.take k).flatten

/-- `_check_output_chunk_size` for an int or an integral float given as (numerator of value*1, isIntegral) -/
def chunkOk (chunk : Int) (integral : Bool) (vrl : Int) : Bool := integral && decide (vrl ≤ chunk)

end Dlis
