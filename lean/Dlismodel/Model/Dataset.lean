/-
  `LogicalFile._get_unique_dataset_name`: the key under which a channel's data is looked up — the name given
  explicitly (refused if taken), else the channel's name, else NAME__1, NAME__2, … (the first one free).  It is
  computed from the data set names of the channels *registered* at the moment of the call, so a rejected call
  (whose channel is unregistered again) leaves no trace in later names.
-/
import Dlismodel.Model.Seg
namespace Dlis

/-- `f"{name}__{i}"` -/
def suffixed (name : PStr) (i : Nat) : PStr := name ++ [95, 95] ++ natStr i

/-- the first `i` in `from .. from+fuel-1` with `name__i` free -/
def firstFree (taken : List PStr) (name : PStr) : Nat → Nat → Option PStr
  | 0, _ => none
  | fuel + 1, i => if taken.contains (suffixed name i) then firstFree taken name fuel (i + 1) else some (suffixed name i)

/-- `_get_unique_dataset_name(channel_name, dataset_name)`; `taken`: data set names of the registered channels -/
def datasetName (taken : List PStr) (name : PStr) (explicit : Option PStr) : Except Err PStr :=
  match explicit with
  | some d => if taken.contains d then .error .value else .ok d
  | none =>
    if !taken.contains name then .ok name
    else match firstFree taken name 999 1 with          -- range(1, 1000): suffixes 1..999, then RuntimeError
      | some n => .ok n
      | none => .error .runtime

/-- a sequence of `add_channel` calls: `(name, explicit data set name, accepted?)`; a rejected call does not register -/
def datasetNames : List PStr → List (PStr × Option PStr × Bool) → List (Except Err PStr)
  | _, [] => []
  | taken, (n, e, ok) :: rest =>
    match datasetName taken n e with
    | .ok d => .ok d :: datasetNames (if ok then taken ++ [d] else taken) rest
    | .error x => .error x :: datasetNames taken rest

end Dlis
