import Dlismodel.Model.Output
namespace Dlis

/-- state invariant after `n` visible records went through `add` -/
structure OutInv (sul : Bytes) (vrs : List Bytes) (o : Out) (n : Nat) : Prop where
  content : o.writes.flatten ++ o.buf = sul ++ (vrs.take n).flatten
  prefixes : ∀ k, 1 ≤ k → k ≤ o.writes.length → ∃ m, m ≤ n ∧ (o.writes.take k).flatten = sul ++ (vrs.take m).flatten
  total : o.total = o.writes.flatten.length
  nonempty : 1 ≤ o.writes.length

theorem OutInv_add (sul : Bytes) (vrs : List Bytes) (o : Out) (n : Nat) (hn : n < vrs.length)
    (h : OutInv sul vrs o n) : OutInv sul vrs (o.add vrs[n]) (n + 1) := by
  have htake : (vrs.take (n + 1)).flatten = (vrs.take n).flatten ++ vrs[n] := by
    rw [List.take_succ_eq_append_getElem hn, List.flatten_append]; simp
  unfold Out.add
  split
  · -- flush, then restart the buffer with the new record
    simp only [Out.flush]
    refine ⟨?_, ?_, ?_, by simp⟩
    · simp only [List.flatten_append, List.flatten_cons, List.flatten_nil, List.append_nil]
      rw [h.content, htake, List.append_assoc]
    · intro k hk1 hk
      simp only [List.length_append, List.length_singleton] at hk
      by_cases hle : k ≤ o.writes.length
      · obtain ⟨m, hm, he⟩ := h.prefixes k hk1 hle
        refine ⟨m, by omega, ?_⟩
        rw [List.take_append_of_le_length hle]; exact he
      · have : k = o.writes.length + 1 := by omega
        subst this
        refine ⟨n, by omega, ?_⟩
        have : (o.writes ++ [o.buf]).take (o.writes.length + 1) = o.writes ++ [o.buf] := by
          apply List.take_of_length_le; simp
        rw [this]
        simp only [List.flatten_append, List.flatten_cons, List.flatten_nil, List.append_nil]
        exact h.content
    · simp [h.total]
  · refine ⟨?_, ?_, h.total, h.nonempty⟩
    · simp only
      rw [← List.append_assoc, h.content, htake, List.append_assoc]
    · intro k hk1 hk
      obtain ⟨m, hm, he⟩ := h.prefixes k hk1 hk
      exact ⟨m, by omega, he⟩

theorem foldl_add_inv (sul : Bytes) (vrs : List Bytes) (cap : Nat) :
    ∀ (rest : List Bytes) (o : Out) (n : Nat), vrs = vrs.take n ++ rest → OutInv sul vrs o n →
      OutInv sul vrs (rest.foldl Out.add o) vrs.length := by
  intro rest
  induction rest with
  | nil =>
    intro o n hsplit h
    have : n ≥ vrs.length ∨ vrs.take n = vrs := by right; simpa using hsplit.symm
    have hn : vrs.take n = vrs.take vrs.length := by
      rcases this with h1 | h1
      · rw [List.take_of_length_le h1]; simp
      · rw [h1]; simp
    simp only [List.foldl_nil]
    exact ⟨by rw [h.content, hn], fun k hk1 hk => by
      obtain ⟨m, hm, he⟩ := h.prefixes k hk1 hk
      refine ⟨min m vrs.length, Nat.min_le_right _ _, ?_⟩
      rw [he]; congr 2
      rw [List.take_eq_take_iff]; simp [Nat.min_comm], h.total, h.nonempty⟩
  | cons r rest ih =>
    intro o n hsplit h
    have hlen : n < vrs.length := by
      have := congrArg List.length hsplit
      simp at this
      have hle : min n vrs.length ≤ n := Nat.min_le_left _ _
      omega
    have hr : vrs[n] = r := by
      have : vrs[n]? = some r := by
        conv => lhs; rw [hsplit]
        rw [List.getElem?_append_right (by simp; exact Nat.min_le_left _ _)]
        simp [Nat.min_eq_left (Nat.le_of_lt hlen)]
      rw [List.getElem?_eq_getElem hlen] at this
      exact Option.some.inj this
    simp only [List.foldl_cons]
    apply ih (o.add r) (n + 1)
    · rw [List.take_succ_eq_append_getElem hlen, hr, List.append_assoc]; exact hsplit
    · rw [← hr]; exact OutInv_add sul vrs o n hlen h

/-- C10 (output side): whatever the buffer size, the file is the label followed by the visible records; the
reported total is its size; after every physical write the file content is the label plus a whole number of
visible records, i.e. a prefix of the final file ending on a visible-record boundary -/
theorem runOutput_spec (cap : Nat) (sul : Bytes) (vrs : List Bytes) :
    let o := runOutput cap sul vrs
    o.writes.flatten = sul ++ vrs.flatten ∧ o.total = (sul ++ vrs.flatten).length ∧
      ∀ k, 1 ≤ k → k ≤ o.writes.length → ∃ m, m ≤ vrs.length ∧ diskAfter o k = sul ++ (vrs.take m).flatten := by
  intro o
  have h0 : OutInv sul vrs { cap := cap, buf := [], writes := [sul], total := sul.length } 0 := by
    refine ⟨by simp, ?_, by simp, by simp⟩
    intro k hk1 hk
    simp at hk
    have : k = 1 := by omega
    subst this
    exact ⟨0, by omega, by simp⟩
  have hf := foldl_add_inv sul vrs cap vrs _ 0 (by simp) h0
  generalize hfo : vrs.foldl Out.add { cap := cap, buf := [], writes := [sul], total := sul.length } = fo at hf
  have ho : o = fo.flush := by simp [o, runOutput, hfo]
  have hcontent : fo.writes.flatten ++ fo.buf = sul ++ vrs.flatten := by
    have := hf.content; simpa using this
  refine ⟨?_, ?_, ?_⟩
  · rw [ho]; simp [Out.flush, hcontent]
  · rw [ho]
    simp only [Out.flush, hf.total]
    rw [← hcontent]; simp
  · intro k hk1 hk
    rw [ho] at hk ⊢
    simp only [Out.flush, List.length_append, List.length_singleton] at hk
    unfold diskAfter
    simp only [Out.flush]
    by_cases hle : k ≤ fo.writes.length
    · obtain ⟨m, hm, he⟩ := hf.prefixes k hk1 hle
      refine ⟨m, hm, ?_⟩
      rw [List.take_append_of_le_length hle]; exact he
    · have : k = fo.writes.length + 1 := by omega
      subst this
      refine ⟨vrs.length, Nat.le_refl _, ?_⟩
      have : (fo.writes ++ [fo.buf]).take (fo.writes.length + 1) = fo.writes ++ [fo.buf] := by
        apply List.take_of_length_le; simp
      rw [this]
      simp [hcontent]

end Dlis
