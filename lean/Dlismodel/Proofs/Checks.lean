/-
  Lemmas about the write-time object checks (`Model/Checks.lean`).
-/
import Dlismodel.Model.Checks
import Dlismodel.Proofs.Api
import Dlismodel.Standard
namespace Dlis

/-- one check of `check_objects`, by the name of the method -/
def checkByName (w : World) (lf c f : Nat) (es : List Edge) (fid : Nat → Bool) : String → Except CheckErr Unit
  | "_check_completeness" => checkCompleteness w lf c f
  | "_check_channels_assigned_to_frames" => checkFrameChannels w lf c f es
  | "_check_defining_origin_params" => if fid lf then .ok () else .error .fileIdMismatch
  | "_check_references" => checkReferences w lf es
  | _ => .error .noOrigin

/-- a list of named checks, made one after the other; the first refusal ends it -/
def runChecks (g : String → Except CheckErr Unit) : List String → Except CheckErr Unit
  | [] => .ok ()
  | n :: ns => match g n with
    | .ok _ => runChecks g ns
    | .error e => .error e

/-- the model makes the checks of one logical file in the pinned order (which `checkOrder_eq` ties to the order of the
calls in the live `LogicalFile.check_objects`) -/
theorem checkObjects_follows_order (w : World) (lf c f : Nat) (es : List Edge) (fid : Nat → Bool) :
    checkObjects w lf c f es fid = runChecks (checkByName w lf c f es fid) Standard.checkOrder := by
  simp only [Standard.checkOrder, runChecks, checkByName, checkObjects, bind, Except.bind]
  cases checkCompleteness w lf c f with
  | error e => rfl
  | ok _ =>
    cases checkFrameChannels w lf c f es with
    | error e => rfl
    | ok _ =>
      cases fid lf with
      | false => rfl
      | true =>
        cases checkReferences w lf es with
        | error e => rfl
        | ok u => cases u; rfl

theorem checkAll_ok (w : World) (c f : Nat) (es : List Edge) (fid : Nat → Bool) (l : List Nat)
    (h : checkAll w c f es fid l = .ok ()) : ∀ lf ∈ l, checkObjects w lf c f es fid = .ok () := by
  induction l with
  | nil => intro lf hlf; cases hlf
  | cons a rest ih =>
    intro lf hlf
    simp only [checkAll, bind, Except.bind] at h
    cases hc : checkObjects w a c f es fid with
    | error e => rw [hc] at h; cases h
    | ok u =>
      rw [hc] at h
      rcases List.mem_cons.mp hlf with rfl | hr
      · cases u; exact hc
      · exact ih h lf hr

theorem checkAll_of_ok (w : World) (c f : Nat) (es : List Edge) (fid : Nat → Bool) (l : List Nat)
    (h : ∀ lf ∈ l, checkObjects w lf c f es fid = .ok ()) : checkAll w c f es fid l = .ok () := by
  induction l with
  | nil => rfl
  | cons a rest ih =>
    simp only [checkAll, bind, Except.bind]
    rw [h a (by simp)]
    exact ih (fun lf hlf => h lf (by simp [hlf]))

/-- what an accepted `check_objects` of one logical file says -/
theorem checkObjects_ok (w : World) (lf c f : Nat) (es : List Edge) (fid : Nat → Bool)
    (h : checkObjects w lf c f es fid = .ok ()) :
    checkCompleteness w lf c f = .ok () ∧ checkFrameChannels w lf c f es = .ok () ∧ fid lf = true ∧
      checkReferences w lf es = .ok () := by
  simp only [checkObjects, bind, Except.bind] at h
  cases h1 : checkCompleteness w lf c f with
  | error e => rw [h1] at h; cases h
  | ok u1 =>
    rw [h1] at h
    cases h2 : checkFrameChannels w lf c f es with
    | error e => rw [h2] at h; cases h
    | ok u2 =>
      rw [h2] at h
      cases h3 : fid lf with
      | false => rw [h3] at h; cases h
      | true =>
        rw [h3] at h
        simp only [if_true] at h
        cases u1; cases u2
        exact ⟨rfl, rfl, rfl, h⟩

theorem checkObjects_of (w : World) (lf c f : Nat) (es : List Edge) (fid : Nat → Bool)
    (h1 : checkCompleteness w lf c f = .ok ()) (h2 : checkFrameChannels w lf c f es = .ok ()) (h3 : fid lf = true)
    (h4 : checkReferences w lf es = .ok ()) : checkObjects w lf c f es fid = .ok () := by
  simp only [checkObjects, bind, Except.bind, h1, h2, h3, if_true, h4]

theorem acceptWrite_ok (w : World) (c f : Nat) (es : List Edge) (fid : Nat → Bool)
    (h : acceptWrite w c f es fid = .ok ()) :
    (∀ lf, lf < w.keys.length → checkObjects w lf c f es fid = .ok ()) ∧ writable w = true := by
  simp only [acceptWrite, bind, Except.bind] at h
  cases h1 : checkAll w c f es fid (List.range w.keys.length) with
  | error e => rw [h1] at h; cases h
  | ok u =>
    rw [h1] at h
    cases h2 : (List.range w.keys.length).all (fun lf => !(originsOfLf w lf).isEmpty) with
    | false => rw [h2] at h; cases h
    | true =>
      rw [h2] at h
      simp only [if_true, pure, Except.pure] at h
      cases h3 : sharedSet w with
      | true => rw [h3] at h; cases h
      | false =>
        refine ⟨fun lf hlf => checkAll_ok w c f es fid _ (by cases u; exact h1) lf (by simp [hlf]), ?_⟩
        unfold writable
        rw [h2, h3]; rfl

theorem acceptWrite_of (w : World) (c f : Nat) (es : List Edge) (fid : Nat → Bool)
    (h1 : ∀ lf, lf < w.keys.length → checkObjects w lf c f es fid = .ok ()) (h2 : writable w = true) :
    acceptWrite w c f es fid = .ok () := by
  unfold writable at h2
  simp only [Bool.and_eq_true, Bool.not_eq_eq_eq_not, Bool.not_true] at h2
  simp only [acceptWrite, bind, Except.bind]
  rw [checkAll_of_ok w c f es fid _ (fun lf hlf => h1 lf (by simpa using hlf))]
  simp only [h2.1, if_true, pure, Except.pure, h2.2]
  rfl

theorem inLf_iff (w : World) (lf i : Nat) :
    inLf w lf i = true ↔ ∃ h : i < w.items.length, w.items[i].key ∈ lfKeys w lf := by
  unfold inLf
  by_cases h : i < w.items.length
  · simp [h]
  · simp [h]

/-- under the registry invariant and without shared non-empty sets, an object is in a set registered by a logical
file exactly if it was added through that logical file -/
theorem inLf_iff_lf (w : World) (hr : RegInv w) (hns : NoShared w) (lf i : Nat) (hi : i < w.items.length) :
    inLf w lf i = true ↔ w.items[i].lf = lf := by
  rw [inLf_iff]
  constructor
  · rintro ⟨_, hk⟩
    have hmem : w.items[i] ∈ w.items := List.getElem_mem hi
    have hk2 := hr.itemKey _ hmem
    by_cases he : w.items[i].lf = lf
    · exact he
    · exfalso
      have hne : itemsOfKey w w.items[i].key ≠ [] := by
        apply List.ne_nil_of_mem (a := w.items[i]); simp [itemsOfKey, hmem]
      rcases Nat.lt_or_gt_of_ne he with hlt | hgt
      · exact hne (hns _ lf hlt (lfKeys_mem_lt w lf _ hk) _ hk2 hk)
      · exact hne (hns lf _ hgt (lfKeys_mem_lt w _ _ hk2) _ hk hk2)
  · intro he
    exact ⟨hi, he ▸ hr.itemKey _ (List.getElem_mem hi)⟩

theorem checkReferences_ok_iff (w : World) (lf : Nat) (es : List Edge) :
    checkReferences w lf es = .ok () ↔ ∀ e ∈ es, inLf w lf e.holder = true → inLf w lf e.target = true := by
  unfold checkReferences
  constructor
  · intro h e he hh
    split at h
    · rename_i hall
      have := List.all_eq_true.mp hall e he
      simpa [hh] using this
    · cases h
  · intro h
    rw [if_pos]
    apply List.all_eq_true.mpr
    intro e he
    cases hh : inLf w lf e.holder with
    | false => rfl
    | true => simp [h e he hh]

/-! ### the checks in high-compatibility mode -/

theorem checkChannelCounts_off (w : World) (lf c f : Nat) (es : List Edge) :
    checkChannelCounts false w lf c f es = .ok () := by simp [checkChannelCounts]

/-- outside the mode the checks are the ones above -/
theorem checkObjectsHc_false (w : World) (lf c f : Nat) (es : List Edge) (fid : Nat → Bool) :
    checkObjectsHc false w lf c f es fid = checkObjects w lf c f es fid := by
  simp only [checkObjectsHc, checkObjects, checkChannelCounts_off, bind, Except.bind]

theorem checkAllHc_false (w : World) (c f : Nat) (es : List Edge) (fid : Nat → Bool) (l : List Nat) :
    checkAllHc false w c f es fid l = checkAll w c f es fid l := by
  induction l with
  | nil => rfl
  | cons a rest ih => simp only [checkAllHc, checkAll, checkObjectsHc_false, ih]

theorem acceptWriteHc_false (w : World) (c f : Nat) (es : List Edge) (fid : Nat → Bool) :
    acceptWriteHc false w c f es fid = acceptWrite w c f es fid := by
  simp only [acceptWriteHc, acceptWrite, checkAllHc_false]

theorem checkAllHc_ok (hc : Bool) (w : World) (c f : Nat) (es : List Edge) (fid : Nat → Bool) (l : List Nat)
    (h : checkAllHc hc w c f es fid l = .ok ()) : ∀ lf ∈ l, checkObjectsHc hc w lf c f es fid = .ok () := by
  induction l with
  | nil => intro lf hlf; cases hlf
  | cons a rest ih =>
    intro lf hlf
    simp only [checkAllHc, bind, Except.bind] at h
    cases hcx : checkObjectsHc hc w a c f es fid with
    | error e => rw [hcx] at h; cases h
    | ok u =>
      rw [hcx] at h
      rcases List.mem_cons.mp hlf with rfl | hr
      · cases u; exact hcx
      · exact ih h lf hr

/-- what an accepted write in the mode says about one logical file: every channel of it is listed exactly once by
its frames -/
theorem acceptWriteHc_counts (w : World) (c f : Nat) (es : List Edge) (fid : Nat → Bool)
    (h : acceptWriteHc true w c f es fid = .ok ()) (lf : Nat) (hlf : lf < w.keys.length) :
    checkChannelCounts true w lf c f es = .ok () := by
  simp only [acceptWriteHc, bind, Except.bind] at h
  cases h1 : checkAllHc true w c f es fid (List.range w.keys.length) with
  | error e => rw [h1] at h; cases h
  | ok u =>
    have h2 := checkAllHc_ok true w c f es fid _ (by cases u; exact h1) lf (by simp [hlf])
    simp only [checkObjectsHc, bind, Except.bind] at h2
    cases h3 : checkCompleteness w lf c f with
    | error e => rw [h3] at h2; cases h2
    | ok _ =>
      rw [h3] at h2
      cases h4 : checkFrameChannels w lf c f es with
      | error e => rw [h4] at h2; cases h2
      | ok _ =>
        rw [h4] at h2
        cases h5 : checkChannelCounts true w lf c f es with
        | error e => rw [h5] at h2; cases h2
        | ok u5 => cases u5; rfl

end Dlis
