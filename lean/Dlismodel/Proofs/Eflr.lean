import Dlismodel.Model.Eflr
import Dlismodel.Model.ParseEflr
import Dlismodel.Proofs.Prim
import Dlismodel.Proofs.Seg
namespace Dlis

/-! ### splitting one encoded value off a byte string -/

theorem viaRest_ok (b rest : Bytes) :
    (if rest.length ≤ (b ++ rest).length then some ((b ++ rest).take ((b ++ rest).length - rest.length), rest) else none)
      = some (b, rest) := by
  have : (b ++ rest).length - rest.length = b.length := by simp
  rw [if_pos (by simp), this, List.take_left]

theorem valSplit_fixed (rc k : Nat) (b rest : Bytes) (hb : b.length = k)
    (hrc : (rc = 2 ∧ k = 4) ∨ (rc = 7 ∧ k = 8) ∨ (rc = 12 ∧ k = 1) ∨ (rc = 13 ∧ k = 2) ∨ (rc = 14 ∧ k = 4) ∨
      (rc = 15 ∧ k = 1) ∨ (rc = 16 ∧ k = 2) ∨ (rc = 17 ∧ k = 4) ∨ (rc = 21 ∧ k = 8)) :
    valSplit rc (b ++ rest) = some (b, rest) := by
  have h := takeN_append b rest
  rcases hrc with ⟨rfl, rfl⟩ | ⟨rfl, rfl⟩ | ⟨rfl, rfl⟩ | ⟨rfl, rfl⟩ | ⟨rfl, rfl⟩ | ⟨rfl, rfl⟩ | ⟨rfl, rfl⟩ | ⟨rfl, rfl⟩ | ⟨rfl, rfl⟩ <;>
    (rw [hb] at h; simp only [valSplit]; exact h)

theorem encS_length {k : Nat} {v : Int} {bs : Bytes} (h : encS k v = .ok bs) : bs.length = k := by
  unfold encS at h; split at h <;> simp at h; subst h; simp

theorem encStatus_len {v : Int} {bs : Bytes} (h : encStatus v = .ok bs) : bs.length = 1 := by
  unfold encStatus at h; split at h; · simp at h
  exact encU_length h

theorem encDtime_length {t : DTime} {bs : Bytes} (h : encDtime t = .ok bs) : bs.length = 8 := by
  simp only [encDtime, bind_ok, pure_ok] at h
  obtain ⟨y, hy, tzm, htzm, d, hd', hb, hhb, mi, hmi', s, hs', ms, hms, rfl⟩ := h
  simp [encU_length hy, encU_length htzm, encU_length hd', encU_length hhb, encU_length hmi', encU_length hs',
    encU_length hms]

/-- every value the writer can encode is split off exactly by the reader -/
theorem valSplit_encVal (rc : Nat) (v : AVal) (b rest : Bytes) (h : encVal rc v = .ok b) :
    valSplit rc (b ++ rest) = some (b, rest) := by
  unfold encVal at h
  simp only at h
  split at h
  -- 12, 13, 14 signed; 15, 16, 17 unsigned
  · split at h <;> first | exact valSplit_fixed 12 1 b rest (encS_length h) (by simp) | simp at h
  · split at h <;> first | exact valSplit_fixed 13 2 b rest (encS_length h) (by simp) | simp at h
  · split at h <;> first | exact valSplit_fixed 14 4 b rest (encS_length h) (by simp) | simp at h
  · split at h <;> first | exact valSplit_fixed 15 1 b rest (encU_length h) (by simp) | simp at h
  · split at h <;> first | exact valSplit_fixed 16 2 b rest (encU_length h) (by simp) | simp at h
  · split at h <;> first | exact valSplit_fixed 17 4 b rest (encU_length h) (by simp) | simp at h
  · -- UVARI
    split at h
    · simp only [valSplit, decUvari_encUvari h rest, Option.map_some]; exact viaRest_ok b rest
    · simp at h
  · -- STATUS
    have key : ∀ i, encStatus i = .ok b → valSplit 26 (b ++ rest) = some (b, rest) := by
      intro i hi
      simp only [valSplit, decStatus_encStatus hi rest, Option.map_some]; exact viaRest_ok b rest
    split at h
    · exact key _ h
    · exact key _ h
    · simp at h
    · simp at h
  · -- FDOUBL
    have key : ∀ n, (Except.ok (beN 8 n) : Except Err Bytes) = .ok b → valSplit 7 (b ++ rest) = some (b, rest) := by
      intro n hn; simp at hn; subst hn
      exact valSplit_fixed 7 8 _ rest (by simp) (by simp)
    split at h
    · split at h <;> first | exact key _ h | simp at h
    · split at h
      · split at h <;> first | exact key _ h | simp at h
      · simp at h
    · split at h
      · split at h <;> first | exact key _ h | simp at h
      · simp at h
    · exact key _ h
    · simp at h
  · -- FSINGL
    have key : ∀ n, (Except.ok (beN 4 n) : Except Err Bytes) = .ok b → valSplit 2 (b ++ rest) = some (b, rest) := by
      intro n hn; simp at hn; subst hn
      exact valSplit_fixed 2 4 _ rest (by simp) (by simp)
    have key' : ∀ x : Except Err Nat, (x.map (beN 4) : Except Err Bytes) = .ok b → valSplit 2 (b ++ rest) = some (b, rest) := by
      intro x hx
      cases x with
      | error e => simp [Except.map] at hx
      | ok r => exact key r (by simpa [Except.map] using hx)
    split at h
    · split at h <;> first | exact key _ h | simp at h
    · split at h
      · exact key' _ h
      · simp at h
    · split at h
      · exact key' _ h
      · simp at h
    · exact key _ h
    · simp at h
  · -- IDENT
    have key : ∀ s, encIdent s = .ok b → valSplit 19 (b ++ rest) = some (b, rest) := by
      intro s hs
      simp only [valSplit, decIdent_encIdent hs rest, Option.map_some]; exact viaRest_ok b rest
    cases v with
    | str s => exact key _ h
    | int i => exact key _ h
    | bool x => exact key _ h
    | f64 _ => exact absurd h (by simp)
    | f32 _ => exact absurd h (by simp)
    | dtime _ => exact absurd h (by simp)
    | obj _ _ => exact absurd h (by simp)
  · -- ASCII
    have key : ∀ s, encAscii s = .ok b → valSplit 20 (b ++ rest) = some (b, rest) := by
      intro s hs
      simp only [valSplit, decAscii_encAscii hs rest, Option.map_some]; exact viaRest_ok b rest
    cases v with
    | str s => exact key _ h
    | int i => exact key _ h
    | bool x => exact key _ h
    | f64 _ => exact absurd h (by simp)
    | f32 _ => exact absurd h (by simp)
    | dtime _ => exact absurd h (by simp)
    | obj _ _ => exact absurd h (by simp)
  · -- DTIME: needs the calendar ranges for the strict decoder; handled by `valSplit_dtime` below
    split at h
    · exact valSplit_fixed 21 8 b rest (encDtime_length h) (by simp)
    · simp at h
  · -- OBNAME
    split at h
    · simp only [valSplit, decObname_encObname h rest, Option.map_some]; exact viaRest_ok b rest
    · simp at h
  · -- OBJREF
    split at h
    · simp only [valSplit, decObjref_encObjref h rest, Option.map_some]; exact viaRest_ok b rest
    · simp at h
  · simp at h

end Dlis

namespace Dlis

/-! ### values of one attribute -/

def encValsL (rc : Nat) : List AVal → Except Err (List Bytes)
  | [] => .ok []
  | v :: vs => do
    let b ← encVal rc v
    let bs ← encValsL rc vs
    pure (b :: bs)

theorem encVals_flatten (rc : Nat) (vs : List AVal) (b : Bytes) (h : encVals rc vs = .ok b) :
    ∃ bl, encValsL rc vs = .ok bl ∧ b = bl.flatten ∧ bl.length = vs.length := by
  induction vs generalizing b with
  | nil => simp [encVals] at h; subst h; exact ⟨[], rfl, rfl, rfl⟩
  | cons v vs ih =>
    simp only [encVals, bind_ok, pure_ok] at h
    obtain ⟨b1, hb1, bs, hbs, rfl⟩ := h
    obtain ⟨bl, hbl, rfl, hlen⟩ := ih bs hbs
    refine ⟨b1 :: bl, ?_, by simp, by simp [hlen]⟩
    simp only [encValsL, bind_ok, pure_ok]
    exact ⟨b1, hb1, bl, hbl, rfl⟩

theorem valsSplit_encValsL (r : Nat) (vs : List AVal) (bl : List Bytes) (rest : Bytes)
    (h : encValsL r vs = .ok bl) : valsSplit r vs.length (bl.flatten ++ rest) = some (bl, rest) := by
  induction vs generalizing bl with
  | nil => simp [encValsL] at h; subst h; simp [valsSplit]
  | cons v vs ih =>
    simp only [encValsL, bind_ok, pure_ok] at h
    obtain ⟨b1, hb1, bs, hbs, rfl⟩ := h
    simp only [List.length_cons, valsSplit, List.flatten_cons, List.append_assoc]
    rw [valSplit_encVal r v b1 _ hb1]
    simp only [ih bs hbs]

/-! ### descriptor byte arithmetic -/

theorem desc_decode (c r u v : Bool) :
    let d := 32 + (if c then 8 else 0) + (if r then 4 else 0) + (if u then 2 else 0) + (if v then 1 else 0)
    d < 256 ∧ d / 32 = 1 ∧ d / 16 % 2 = 0 ∧ (d / 8 % 2 = 1 ↔ c = true) ∧ (d / 4 % 2 = 1 ↔ r = true) ∧
      (d / 2 % 2 = 1 ↔ u = true) ∧ (d % 2 = 1 ↔ v = true) := by
  cases c <;> cases r <;> cases u <;> cases v <;> decide

/-- side conditions on an attribute's state that the object model guarantees: a defined representation code,
and a scalar value is exactly one value -/
def AttrOk (a : AttrSt) : Prop :=
  (∀ r, a.rc = some r → 1 ≤ r ∧ r ≤ 27) ∧ (a.isList = false → a.vals.length = 1)

/-- what the reader must see for an attribute: explicit or default count, the code, the units, one entry per value -/
def attrContent (a : AttrSt) (bl : List Bytes) : DAttr :=
  { count := a.count, rc := a.rc.getD 19, units := if hasUnits a then (a.units.getD []).map b8 else [], vals := bl }

def plainT (t : TAttr) : Prop := t.count = 1 ∧ t.rc = 19 ∧ t.units = []

theorem parseCRU_attr (a : AttrSt) (t : TAttr) (ht : plainT t) (hok : AttrOk a)
    (cnt ub : Bytes) (tail : Bytes) (hcnt : cntBytes a = .ok cnt) (hub : unitsBytes a = .ok ub) :
    parseCRU (descByte a) t (cnt ++ rcBytes a ++ ub ++ tail) =
      some ((a.count, a.rc.getD 19, if hasUnits a then (a.units.getD []).map b8 else []), tail) := by
  have hd := desc_decode (decide (a.count ≠ 1)) a.rc.isSome (hasUnits a) (!a.vals.isEmpty)
  simp only [decide_eq_true_eq] at hd
  obtain ⟨_, _, _, hc, hr, hu, _⟩ := hd
  obtain ⟨t1, t2, t3⟩ := ht
  unfold cntBytes at hcnt
  unfold unitsBytes at hub
  have hdd : descByte a = 32 + (if a.count ≠ 1 then 8 else 0) + (if a.rc.isSome = true then 4 else 0) +
      (if hasUnits a = true then 2 else 0) + (if (!a.vals.isEmpty) = true then 1 else 0) := rfl
  rw [← hdd] at hc hr hu
  generalize descByte a = d at *
  unfold parseCRU
  -- count
  have e1 : (if d / 8 % 2 = 1 then decUvari (cnt ++ rcBytes a ++ ub ++ tail)
      else some (t.count, cnt ++ rcBytes a ++ ub ++ tail)) =
      some (a.count, rcBytes a ++ ub ++ tail) := by
    by_cases hcc : a.count ≠ 1
    · rw [if_pos (hc.mpr hcc)]
      rw [if_pos hcc] at hcnt
      have := decUvari_encUvari hcnt (rcBytes a ++ ub ++ tail)
      simp only [List.append_assoc] at this ⊢
      rw [this]; simp
    · rw [if_neg (fun h => hcc (hc.mp h))]
      rw [if_neg hcc] at hcnt
      simp at hcnt; subst hcnt
      have : a.count = 1 := by simpa using hcc
      simp [t1, this]
  rw [e1]
  simp only
  -- representation code
  unfold rcBytes
  cases hrc : a.rc with
  | none =>
    have : ¬ d / 4 % 2 = 1 := fun h => by have := hr.mp h; simp [hrc] at this
    simp only [this, ↓reduceIte, List.nil_append, t2]
    have e19 : ¬ ((19 : Nat) = 0 ∨ 19 > 27) := by omega
    rw [if_neg e19]
    by_cases hu' : hasUnits a = true
    · rw [if_pos (hu.mpr hu')]
      rw [if_pos hu'] at hub
      rw [decIdent_encIdent hub tail]
      simp [hu']
    · rw [if_neg (fun h => hu' (hu.mp h))]
      rw [if_neg hu'] at hub
      simp at hub; subst hub
      simp [hu', t3]
  | some r =>
    have hrr := hok.1 r hrc
    have : d / 4 % 2 = 1 := hr.mpr (by simp [hrc])
    simp only [this, ↓reduceIte, List.cons_append, List.nil_append, b8_toNat, List.append_assoc]
    have e256 : r % 256 = r := by omega
    rw [e256]
    have eok : ¬ (r = 0 ∨ r > 27) := by omega
    simp only [eok, ↓reduceIte, Option.getD_some]
    by_cases hu' : hasUnits a = true
    · rw [if_pos (hu.mpr hu')]
      rw [if_pos hu'] at hub
      rw [decIdent_encIdent hub tail]
      simp [hu']
    · rw [if_neg (fun h => hu' (hu.mp h))]
      rw [if_neg hu'] at hub
      simp at hub; subst hub
      simp [hu', t3]

end Dlis

namespace Dlis

/-! ### attribute components inside an object -/

/-- the encoded values of an attribute, one byte string per value -/
def attrValsL (a : AttrSt) : Except Err (List Bytes) :=
  if a.vals.isEmpty then .ok [] else
  match a.rc with
  | some r => encValsL r a.vals
  | none => .error .attr

theorem valsBody_flatten (a : AttrSt) (vb : Bytes) (h : valsBody a = .ok vb) :
    ∃ bl, attrValsL a = .ok bl ∧ vb = bl.flatten ∧ bl.length = a.vals.length := by
  unfold valsBody at h
  unfold attrValsL
  split at h
  · rename_i he
    simp at h; subst h
    simp only [he, ↓reduceIte]
    refine ⟨[], rfl, rfl, ?_⟩
    simp [List.isEmpty_iff.mp he]
  · rename_i he
    simp only [he, Bool.false_eq_true, ↓reduceIte]
    cases hrc : a.rc with
    | some r =>
      rw [hrc] at h
      obtain ⟨bl, h1, h2, h3⟩ := encVals_flatten r a.vals vb h
      exact ⟨bl, h1, h2, h3⟩
    | none => rw [hrc] at h; simp at h

/-- one assigned attribute, read back in template position `t`, followed by anything -/
theorem parseOAttrs_some (a : AttrSt) (t : TAttr) (ts : List TAttr) (ht : plainT t) (hok : AttrOk a)
    (body tail : Bytes) (h : attrBody a = .ok body) :
    ∃ bl, attrValsL a = .ok bl ∧
      parseOAttrs (t :: ts) (body ++ tail) =
        (parseOAttrs ts tail).map fun (as, r) => (some (attrContent a bl) :: as, r) := by
  simp only [attrBody, bind_ok, pure_ok] at h
  obtain ⟨cnt, hcnt, ub, hub, vb, hvb, rfl⟩ := h
  obtain ⟨bl, hbl, rfl, hlen⟩ := valsBody_flatten a vb hvb
  refine ⟨bl, hbl, ?_⟩
  have hd := desc_decode (decide (a.count ≠ 1)) a.rc.isSome (hasUnits a) (!a.vals.isEmpty)
  simp only [decide_eq_true_eq] at hd
  obtain ⟨hlt, h32, h16, _, _, _, hv⟩ := hd
  have hcru := parseCRU_attr a t ht hok cnt ub (bl.flatten ++ tail) hcnt hub
  have hdd : descByte a = 32 + (if a.count ≠ 1 then 8 else 0) + (if a.rc.isSome = true then 4 else 0) +
      (if hasUnits a = true then 2 else 0) + (if (!a.vals.isEmpty) = true then 1 else 0) := rfl
  rw [← hdd] at hlt h32 h16 hv
  generalize descByte a = d at *
  simp only [parseOAttrs, List.cons_append, b8_toNat, Nat.mod_eq_of_lt hlt]
  have n3 : ¬ d / 32 = 3 := by omega
  have n0 : ¬ d / 32 = 0 := by omega
  have n16 : ¬ d / 16 % 2 = 1 := by omega
  rw [if_neg n3, if_neg n0, if_pos h32, if_neg n16]
  have hassoc : cnt ++ rcBytes a ++ ub ++ bl.flatten ++ tail = cnt ++ rcBytes a ++ ub ++ (bl.flatten ++ tail) := by
    simp [List.append_assoc]
  rw [hassoc, hcru]
  simp only
  by_cases hemp : a.vals.isEmpty = true
  · have : ¬ d % 2 = 1 := fun hh => by have := hv.mp hh; simp [hemp] at this
    have hbl0 : bl = [] := by
      have : a.vals = [] := List.isEmpty_iff.mp hemp
      rw [this] at hlen; simpa using hlen
    subst hbl0
    -- no values: by `AttrOk` the value is a list (a scalar has exactly one value), so the count is 0
    have hv0 : a.vals = [] := List.isEmpty_iff.mp hemp
    have hc0 : a.count = 0 := by
      unfold AttrSt.count
      cases hil : a.isList
      · have := hok.2 hil; rw [hv0] at this; simp at this
      · simp [hv0]
    simp [this, attrContent, hc0]
  · have hd1 : d % 2 = 1 := hv.mpr (by simp [hemp])
    simp only [hd1, ↓reduceIte]
    -- with values there is a representation code, and count = number of values
    have hne : a.vals ≠ [] := fun hh => hemp (by simp [hh])
    unfold attrValsL at hbl
    simp only [hemp, Bool.false_eq_true, ↓reduceIte] at hbl
    cases hrc : a.rc with
    | none => rw [hrc] at hbl; simp at hbl
    | some r =>
      rw [hrc] at hbl
      simp only at hbl
      have hcount : a.count = a.vals.length := by
        unfold AttrSt.count
        cases hil : a.isList
        · simp [hok.2 hil]
        · simp
      simp only [Option.getD_some, hcount]
      rw [valsSplit_encValsL r a.vals bl tail hbl]
      simp [attrContent, hrc, hcount]

/-- all attributes of one object -/
theorem parseOAttrs_attrs (attrs : List (Option AttrSt)) (ts : List TAttr) (hlen : attrs.length = ts.length)
    (hts : ∀ t ∈ ts, plainT t) (hok : ∀ a, some a ∈ attrs → AttrOk a) (body tail : Bytes)
    (h : attrsBody attrs = .ok body) :
    ∃ cs : List (Option DAttr), cs.length = attrs.length ∧
      (∀ i (hi : i < attrs.length) (hi' : i < cs.length),
        match attrs[i], cs[i] with
        | none, none => True
        | some a, some c => ∃ bl, attrValsL a = .ok bl ∧ c = attrContent a bl
        | _, _ => False) ∧
      parseOAttrs ts (body ++ tail) = some (cs, tail) := by
  induction attrs generalizing ts body with
  | nil =>
    simp [attrsBody] at h; subst h
    have : ts = [] := by cases ts <;> simp_all
    subst this
    exact ⟨[], rfl, by intro i hi; simp at hi, by simp [parseOAttrs]⟩
  | cons a as ih =>
    cases ts with
    | nil => simp at hlen
    | cons t ts =>
      have hlen' : as.length = ts.length := by simpa using hlen
      have hts' : ∀ t' ∈ ts, plainT t' := fun t' ht' => hts t' (by simp [ht'])
      have hok' : ∀ a', some a' ∈ as → AttrOk a' := fun a' ha' => hok a' (by simp [ha'])
      cases a with
      | none =>
        simp only [attrsBody, bind_ok, pure_ok] at h
        obtain ⟨r, hr, rfl⟩ := h
        obtain ⟨cs, hcl, hcs, hp⟩ := ih ts hlen' hts' hok' r hr
        refine ⟨none :: cs, by simp [hcl], ?_, ?_⟩
        · intro i hi hi'
          cases i with
          | zero => simp
          | succ j => simpa using hcs j (by simpa using hi) (by simpa using hi')
        · simp only [List.cons_append, parseOAttrs]
          simp [hp]
      | some a =>
        simp only [attrsBody, bind_ok, pure_ok] at h
        obtain ⟨b, hb, r, hr, rfl⟩ := h
        obtain ⟨cs, hcl, hcs, hp⟩ := ih ts hlen' hts' hok' r hr
        obtain ⟨bl, hbl, hpa⟩ := parseOAttrs_some a t ts (hts t (by simp)) (hok a (by simp)) b (r ++ tail) hb
        refine ⟨some (attrContent a bl) :: cs, by simp [hcl], ?_, ?_⟩
        · intro i hi hi'
          cases i with
          | zero => exact ⟨bl, hbl, rfl⟩
          | succ j => simpa using hcs j (by simpa using hi) (by simpa using hi')
        · rw [List.append_assoc, hpa, hp]
          simp

end Dlis

namespace Dlis

/-! ### objects, template, set -/

/-- pointwise relation between two lists of equal length -/
inductive All2 {α β : Type} (R : α → β → Prop) : List α → List β → Prop
  | nil : All2 R [] []
  | cons {a b as bs} : R a b → All2 R as bs → All2 R (a :: as) (b :: bs)

def AttrMatches (a : Option AttrSt) (c : Option DAttr) : Prop :=
  match a, c with
  | none, none => True
  | some a, some c => ∃ bl, attrValsL a = .ok bl ∧ c = attrContent a bl
  | _, _ => False

def obnameVal (o : ObName) : ObNameVal := { origin := o.origin.toNat, copy := o.copy.toNat, name := o.name.map b8 }

/-- the reader's view of one object agrees with its description: same identity, one slot per template
attribute, unset ↔ absent, and every assigned attribute with its count, code, units and one entry per value -/
def ObjMatches (o : ObjDesc) (d : DObj) : Prop :=
  d.name = obnameVal o.name ∧ d.attrs.length = o.attrs.length ∧
    ∀ i (hi : i < o.attrs.length) (hi' : i < d.attrs.length), AttrMatches o.attrs[i] d.attrs[i]

def ObjOk (n : Nat) (o : ObjDesc) : Prop := o.attrs.length = n ∧ ∀ a, some a ∈ o.attrs → AttrOk a

theorem objsBody_head (os : List ObjDesc) (r : Bytes) (h : objsBody os = .ok r) :
    (os = [] ∧ r = []) ∨ (os ≠ [] ∧ ∃ r', r = 0x70 :: r') := by
  cases os with
  | nil => simp [objsBody] at h; exact Or.inl ⟨rfl, h⟩
  | cons o os =>
    simp only [objsBody, objBody, bind_ok, pure_ok] at h
    obtain ⟨b, ⟨n, _, a, _, rfl⟩, r2, _, rfl⟩ := h
    exact Or.inr ⟨by simp, _, rfl⟩

theorem parseObjs_objsBody (tmpl : List TAttr) (htm : ∀ t ∈ tmpl, plainT t) :
    ∀ (os : List ObjDesc) (body : Bytes) (fuel : Nat), (∀ o ∈ os, ObjOk tmpl.length o) → os.length ≤ fuel →
      objsBody os = .ok body →
      ∃ ds, parseObjs tmpl fuel body = some ds ∧ All2 ObjMatches os ds := by
  intro os
  induction os with
  | nil =>
    intro body fuel _ _ h
    simp [objsBody] at h; subst h
    exact ⟨[], by cases fuel <;> simp [parseObjs], All2.nil⟩
  | cons o os ih =>
    intro body fuel hok hf h
    obtain ⟨f, rfl⟩ : ∃ f, fuel = f + 1 := ⟨fuel - 1, by simp at hf; omega⟩
    simp only [objsBody, bind_ok, pure_ok] at h
    obtain ⟨b, hb, r, hr, rfl⟩ := h
    simp only [objBody, bind_ok, pure_ok] at hb
    obtain ⟨n, hn, a, ha, rfl⟩ := hb
    have hoo := hok o (by simp)
    obtain ⟨cs, hcl, hcs, hp⟩ := parseOAttrs_attrs o.attrs tmpl hoo.1 htm hoo.2 a r ha
    obtain ⟨ds, hds, hfa⟩ := ih r f (fun o' ho' => hok o' (by simp [ho'])) (by simp at hf; omega) hr
    have hname := decObname_encObname hn (a ++ r)
    have hm : ObjMatches o { name := obnameVal o.name, attrs := cs } := ⟨rfl, hcl, hcs⟩
    simp only [List.cons_append, List.append_assoc, parseObjs]
    have e70 : ¬ ((0x70 : UInt8).toNat ≠ 0x70) := by decide
    rw [if_neg e70, hname]
    simp only [hp]
    rcases objsBody_head os r hr with ⟨rfl, rfl⟩ | ⟨hne, r', rfl⟩
    · simp [objsBody] at hr
      have : ds = [] := by cases hfa; rfl
      subst this
      exact ⟨[_], rfl, All2.cons hm All2.nil⟩
    · have e3 : ¬ ((0x70 : UInt8).toNat / 32 ≠ 3) := by decide
      simp only [e3, ↓reduceIte, hds, Option.map_some]
      exact ⟨_, rfl, All2.cons hm hfa⟩

def tattrOf (l : PStr) : TAttr := { label := l.map b8 }

theorem plainT_tattrOf (l : PStr) : plainT (tattrOf l) := ⟨rfl, rfl, rfl⟩

theorem parseTAttr_templOne (l : PStr) (hl : l ≠ []) (b rest : Bytes) (h : templOne l = .ok b) :
    parseTAttr (b ++ rest) = some (tattrOf l, rest) := by
  unfold templOne at h
  rw [if_neg (by simp [hl])] at h
  simp only [bind_ok, pure_ok] at h
  obtain ⟨i, hi, rfl⟩ := h
  simp only [List.cons_append, parseTAttr, b8_toNat]
  have c1 : ¬ (0x30 % 256 / 32 ≠ 1 ∨ 0x30 % 256 / 16 % 2 ≠ 1 ∨ 0x30 % 256 % 2 = 1) := by decide
  rw [if_neg c1, decIdent_encIdent hi rest]
  have : (l.map b8).isEmpty = false := by cases l <;> simp_all
  simp only [this, Bool.false_eq_true, ↓reduceIte]
  simp [parseCRU, tattrOf]

theorem parseTemplate_templBody : ∀ (labels : List PStr) (body rest : Bytes) (fuel : Nat),
    (∀ l ∈ labels, l ≠ []) → labels.length < fuel → templBody labels = .ok body →
    parseTemplate fuel (body ++ 0x70 :: rest) = some (labels.map tattrOf, 0x70 :: rest) := by
  intro labels
  induction labels with
  | nil =>
    intro body rest fuel _ hf h
    simp [templBody] at h; subst h
    obtain ⟨f, rfl⟩ : ∃ f, fuel = f + 1 := ⟨fuel - 1, by simp at hf; omega⟩
    simp only [List.nil_append, parseTemplate, List.map_nil]
    have : (0x70 : UInt8).toNat / 32 = 3 := by decide
    rw [if_pos this]
  | cons l ls ih =>
    intro body rest fuel hne hf h
    obtain ⟨f, rfl⟩ : ∃ f, fuel = f + 1 := ⟨fuel - 1, by simp at hf; omega⟩
    simp only [templBody, bind_ok, pure_ok] at h
    obtain ⟨b, hb, r, hr, rfl⟩ := h
    have hl := hne l (by simp)
    have hpt := parseTAttr_templOne l hl b (r ++ 0x70 :: rest) hb
    have hb0 : ∃ b', b = 0x30 :: b' := by
      unfold templOne at hb
      rw [if_neg (by simp [hl])] at hb
      simp only [bind_ok, pure_ok] at hb
      obtain ⟨i, _, rfl⟩ := hb
      exact ⟨_, rfl⟩
    obtain ⟨b', rfl⟩ := hb0
    simp only [List.cons_append, List.append_assoc, parseTemplate] at hpt ⊢
    have : ¬ ((0x30 : UInt8).toNat / 32 = 3) := by decide
    rw [if_neg this, hpt]
    simp only [ih r rest f (fun l' hl' => hne l' (by simp [hl'])) (by simp at hf; omega) hr]
    simp

end Dlis

namespace Dlis

/-! ### the whole set -/

/-- what the object model guarantees about a set at write time -/
structure SetOk (s : SetDesc) : Prop where
  type_ne : s.type ≠ []
  labels_ne : ∀ l ∈ s.labels, l ≠ []
  labels_nodup : (s.labels.map (fun l => l.map b8)).Nodup
  objs : ∀ o ∈ s.objects, ObjOk s.labels.length o

/-- the reader's view agrees with the description -/
def SetMatches (s : SetDesc) (d : DSet) : Prop :=
  d.type = s.type.map b8 ∧ d.name = (if hasName s then some ((s.name.getD []).map b8) else none) ∧
    d.template = s.labels.map tattrOf ∧ All2 ObjMatches s.objects d.objects

theorem All2_length {α β : Type} {R : α → β → Prop} {as : List α} {bs : List β} (h : All2 R as bs) :
    as.length = bs.length := by
  induction h with
  | nil => rfl
  | cons _ _ ih => simp [ih]

theorem objsBody_length_ge (os : List ObjDesc) (r : Bytes) (h : objsBody os = .ok r) : os.length ≤ r.length := by
  induction os generalizing r with
  | nil => simp
  | cons o os ih =>
    simp only [objsBody, objBody, bind_ok, pure_ok] at h
    obtain ⟨b, ⟨n, _, a, _, rfl⟩, r2, hr2, rfl⟩ := h
    have := ih r2 hr2
    simp; omega

theorem templBody_length_ge (ls : List PStr) (r : Bytes) (h : templBody ls = .ok r) : ls.length ≤ r.length := by
  induction ls generalizing r with
  | nil => simp
  | cons l ls ih =>
    simp only [templBody, bind_ok, pure_ok] at h
    obtain ⟨b, hb, r2, hr2, rfl⟩ := h
    have := ih r2 hr2
    have : 1 ≤ b.length := by
      unfold templOne at hb
      split at hb
      · simp at hb; subst hb; simp
      · simp only [bind_ok, pure_ok] at hb
        obtain ⟨i, _, rfl⟩ := hb
        simp
    simp; omega

/-- C04 core: every non-empty set body the writer model produces is accepted by the strict EFLR reader, with
no bytes left over, and decodes to the set's description -/
theorem parseEflr_setBody (s : SetDesc) (b : Bytes) (hs : SetOk s) (hne : s.objects ≠ [])
    (h : setBody s = .ok b) : ∃ d, parseEflr b = some d ∧ SetMatches s d := by
  unfold setBody at h
  rw [if_neg (by simp [hne])] at h
  simp only [bind_ok, pure_ok] at h
  obtain ⟨sc, hsc, tb, htb, ob, hob, rfl⟩ := h
  -- the objects part starts with an OBJECT component
  obtain ⟨ob', rfl⟩ : ∃ ob', ob = 0x70 :: ob' := by
    rcases objsBody_head s.objects ob hob with ⟨h1, _⟩ | ⟨_, r', rfl⟩
    · exact absurd h1 hne
    · exact ⟨r', rfl⟩
  have htmpl := parseTemplate_templBody s.labels tb ob' ((tb ++ 0x70 :: ob').length + 1) hs.labels_ne
    (by have := templBody_length_ge _ _ htb; simp; omega) htb
  have hplain : ∀ t ∈ s.labels.map tattrOf, plainT t := by
    intro t ht
    simp only [List.mem_map] at ht
    obtain ⟨l, _, rfl⟩ := ht
    exact plainT_tattrOf l
  obtain ⟨ds, hds, hfa⟩ := parseObjs_objsBody (s.labels.map tattrOf) hplain s.objects (0x70 :: ob')
    (0x70 :: ob').length (by simpa using hs.objs) (objsBody_length_ge _ _ hob) hob
  have hnodup : ((s.labels.map tattrOf).map (·.label)).Nodup := by
    have : (s.labels.map tattrOf).map (·.label) = s.labels.map (fun l => l.map b8) := by
      simp [tattrOf, Function.comp_def]
    rw [this]; exact hs.labels_nodup
  have hdsne : ds.isEmpty = false := by
    have := All2_length hfa
    cases ds with
    | nil => simp at this; exact absurd this hne
    | cons _ _ => rfl
  have htype : (s.type.map b8).isEmpty = false := by
    have := hs.type_ne
    cases hst : s.type <;> simp_all
  unfold setComp at hsc
  by_cases hn : hasName s = true
  · rw [if_pos hn] at hsc
    simp only [bind_ok, pure_ok] at hsc
    obtain ⟨t, ht, n, hnn, rfl⟩ := hsc
    refine ⟨{ type := s.type.map b8, name := some ((s.name.getD []).map b8), template := s.labels.map tattrOf,
              objects := ds }, ?_, ⟨rfl, by simp [hn], rfl, hfa⟩⟩
    simp only [List.cons_append, List.append_assoc, parseEflr]
    have c1 : ¬ ((0xF8 : UInt8).toNat / 32 ≠ 7 ∨ (0xF8 : UInt8).toNat / 16 % 2 ≠ 1 ∨ (0xF8 : UInt8).toNat % 8 ≠ 0) := by decide
    rw [if_neg c1, decIdent_encIdent ht]
    simp only [htype, Bool.false_eq_true, ↓reduceIte]
    have c2 : (0xF8 : UInt8).toNat / 8 % 2 = 1 := by decide
    rw [if_pos c2, decIdent_encIdent hnn]
    simp only [Option.map_some]
    rw [htmpl]
    simp only [hnodup, decide_true, Bool.not_true, Bool.false_eq_true, ↓reduceIte, hds, hdsne]
  · rw [if_neg hn] at hsc
    simp only [bind_ok, pure_ok] at hsc
    obtain ⟨t, ht, rfl⟩ := hsc
    refine ⟨{ type := s.type.map b8, name := none, template := s.labels.map tattrOf, objects := ds }, ?_,
      ⟨rfl, by simp [hn], rfl, hfa⟩⟩
    simp only [List.cons_append, List.append_assoc, parseEflr]
    have c1 : ¬ ((0xF0 : UInt8).toNat / 32 ≠ 7 ∨ (0xF0 : UInt8).toNat / 16 % 2 ≠ 1 ∨ (0xF0 : UInt8).toNat % 8 ≠ 0) := by decide
    rw [if_neg c1, decIdent_encIdent ht]
    simp only [htype, Bool.false_eq_true, ↓reduceIte]
    have c2 : ¬ ((0xF0 : UInt8).toNat / 8 % 2 = 1) := by decide
    rw [if_neg c2]
    simp only
    rw [htmpl]
    simp only [hnodup, decide_true, Bool.not_true, Bool.false_eq_true, ↓reduceIte, hds, hdsne]

end Dlis
