import Dlismodel.Model.Seg
import Dlismodel.Model.Parse
import Dlismodel.Proofs.Prim
namespace Dlis

/-! ### the splitting arithmetic -/

theorem stepSize_bounds (cap rem : Nat) (hc : 12 ≤ cap) (hr : 0 < rem) :
    1 ≤ stepSize cap rem ∧ stepSize cap rem ≤ rem ∧ stepSize cap rem ≤ cap := by
  unfold stepSize
  simp only []
  split <;> omega

/-- what is left after a step is either nothing or at least 12 bytes: no later segment needs padding
up to the minimum unless the whole record is shorter than 12 bytes (and then it is the only one) -/
theorem stepSize_remainder (cap rem : Nat) (hc : 24 ≤ cap) (hr : 12 ≤ rem) :
    12 ≤ stepSize cap rem ∧ (rem - stepSize cap rem = 0 ∨ 12 ≤ rem - stepSize cap rem) := by
  unfold stepSize
  simp only []
  split <;> omega

theorem splitSizes_sum (cap : Nat) (hc : 12 ≤ cap) : ∀ fuel rem, rem ≤ fuel →
    (splitSizes cap fuel rem).sum = rem := by
  intro fuel
  induction fuel with
  | zero => intro rem h; simp [splitSizes]; omega
  | succ fuel ih =>
    intro rem h
    unfold splitSizes
    split
    · simp_all
    · rename_i hne
      have hb := stepSize_bounds cap rem hc (by omega)
      simp only [List.sum_cons]
      rw [ih (rem - stepSize cap rem) (by omega)]
      omega

theorem splitSizes_bounds (cap : Nat) (hc : 12 ≤ cap) : ∀ fuel rem, ∀ n ∈ splitSizes cap fuel rem, 1 ≤ n ∧ n ≤ cap := by
  intro fuel
  induction fuel with
  | zero => intro rem n h; simp [splitSizes] at h
  | succ fuel ih =>
    intro rem n h
    unfold splitSizes at h
    split at h
    · simp at h
    · rename_i hne
      have hb := stepSize_bounds cap rem hc (by omega)
      simp only [List.mem_cons] at h
      rcases h with rfl | h
      · omega
      · exact ih _ n h

theorem splitSizes_nil_iff (cap : Nat) (fuel rem : Nat) (h : rem ≤ fuel) :
    splitSizes cap fuel rem = [] ↔ rem = 0 := by
  cases fuel with
  | zero => simp [splitSizes]; omega
  | succ fuel => unfold splitSizes; split <;> simp_all

/-! ### cutting -/

theorem cut_flatten : ∀ (sizes : List Nat) (b : Bytes), sizes.sum = b.length → (cut sizes b).flatten = b := by
  intro sizes
  induction sizes with
  | nil => intro b h; simp at h; simp [cut]; exact (List.length_eq_zero_iff.mp h.symm)
  | cons n ns ih =>
    intro b h
    simp only [List.sum_cons] at h
    simp only [cut, List.flatten_cons]
    rw [ih (b.drop n) (by simp; omega)]
    exact List.take_append_drop n b

theorem cut_length (sizes : List Nat) (b : Bytes) : (cut sizes b).length = sizes.length := by
  induction sizes generalizing b with
  | nil => simp [cut]
  | cons n ns ih => simp [cut, ih]

theorem cut_lengths : ∀ (sizes : List Nat) (b : Bytes), sizes.sum = b.length →
    ∀ c ∈ cut sizes b, c.length ∈ sizes := by
  intro sizes
  induction sizes with
  | nil => intro b _ c hc; simp [cut] at hc
  | cons n ns ih =>
    intro b h c hc
    simp only [List.sum_cons] at h
    simp only [cut, List.mem_cons] at hc
    rcases hc with rfl | hc
    · simp; left; omega
    · have := ih (b.drop n) (by simp; omega) c hc
      simp [this]

/-! ### flags and reassembly -/

theorem flagChunks_payloads (e : Bool) (t : Nat) : ∀ (first : Bool) (cs : List Bytes),
    (flagChunks e t first cs).map (·.payload) = cs := by
  intro first cs
  induction cs generalizing first with
  | nil => simp [flagChunks]
  | cons c cs ih =>
    cases cs with
    | nil => simp [flagChunks]
    | cons c' cs' =>
      simp only [flagChunks, List.map_cons]
      rw [ih false]

theorem assemble_cont (e : Bool) (t : Nat) : ∀ (cs : List Bytes) (r : Rec) (rest : List PSeg),
    cs ≠ [] → r.isEflr = e → r.type = t →
    assemble (some r) (flagChunks e t false cs ++ rest) =
      (assemble none rest).map ({ r with body := r.body ++ cs.flatten } :: ·) := by
  intro cs
  induction cs with
  | nil => intro r rest h; exact absurd rfl h
  | cons c cs ih =>
    intro r rest _ he ht
    cases cs with
    | nil =>
      simp [flagChunks, assemble, he, ht]
    | cons c' cs' =>
      simp only [flagChunks, List.cons_append, assemble, Bool.not_false, Bool.not_true, he, ht]
      simp only [ne_eq, not_true_eq_false, Bool.false_eq_true, or_self, ↓reduceIte]
      have := ih { isEflr := e, type := t, body := r.body ++ c } rest (by simp) rfl rfl
      rw [this]
      simp [List.append_assoc]

theorem assemble_record (e : Bool) (t : Nat) (cs : List Bytes) (rest : List PSeg) (h : cs ≠ []) :
    assemble none (flagChunks e t true cs ++ rest) =
      (assemble none rest).map ({ isEflr := e, type := t, body := cs.flatten } :: ·) := by
  cases cs with
  | nil => exact absurd rfl h
  | cons c cs =>
    cases cs with
    | nil => simp [flagChunks, assemble]
    | cons c' cs' =>
      simp only [flagChunks, List.cons_append, assemble, Bool.not_true]
      simp only [Bool.false_eq_true, ↓reduceIte]
      rw [assemble_cont e t (c' :: cs') _ rest (by simp) rfl rfl]
      simp

theorem segsOf_chunks (cap : Nat) (hc : 12 ≤ cap) (r : Rec) :
    (cut (splitSizes cap r.body.length r.body.length) r.body).flatten = r.body :=
  cut_flatten _ _ (splitSizes_sum cap hc _ _ (Nat.le_refl _))

/-- reassembling the abstract segments of a list of records gives back the records with non-empty body -/
theorem assemble_segsOf (cap : Nat) (hc : 12 ≤ cap) (recs : List Rec) :
    assemble none (recs.flatMap (segsOf cap)) = some (recs.filter (fun r => !r.body.isEmpty)) := by
  induction recs with
  | nil => simp [assemble]
  | cons r rs ih =>
    simp only [List.flatMap_cons]
    by_cases hb : r.body = []
    · have : segsOf cap r = [] := by
        unfold segsOf; rw [hb]; simp [splitSizes, cut, flagChunks]
      rw [this, List.nil_append, ih]
      simp [hb]
    · have hne : cut (splitSizes cap r.body.length r.body.length) r.body ≠ [] := by
        intro h
        have := cut_length (splitSizes cap r.body.length r.body.length) r.body
        rw [h] at this
        simp at this
        have := (splitSizes_nil_iff cap _ _ (Nat.le_refl _)).mp (List.length_eq_zero_iff.mp this.symm)
        simp at this
        exact hb this
      have e1 : segsOf cap r = flagChunks r.isEflr r.type true
          (cut (splitSizes cap r.body.length r.body.length) r.body) := rfl
      rw [e1, assemble_record _ _ _ _ hne, ih, segsOf_chunks cap hc]
      simp [hb]

end Dlis

namespace Dlis

/-! ### bytes of one segment -/

theorem padLen_spec (n : Nat) :
    (n + padLen n) % 2 = 0 ∧ 12 ≤ n + padLen n ∧ padLen n ≤ 12 ∧ (12 ≤ n → padLen n = n % 2) ∧ (n + padLen n ≤ n + 1 ∨ n + padLen n = 12) := by
  unfold padLen
  simp only []
  split <;> omega

def segLen (s : PSeg) : Nat := s.payload.length + padLen s.payload.length + 4

theorem encSeg_length (s : PSeg) : (encSeg s).length = segLen s := by
  simp [encSeg, segLen]; omega

theorem beN2 (n : Nat) : beN 2 n = [b8 (n / 256), b8 n] := by simp [beN]

theorem attr_decode (e p s pad : Bool) :
    let av := (if e then 128 else 0) + (if p then 64 else 0) + (if s then 32 else 0) + (if pad then 1 else 0)
    av < 256 ∧ av / 2 % 16 = 0 ∧ (decide (av / 128 = 1) = e) ∧ (decide (av / 64 % 2 = 1) = p) ∧
      (decide (av / 32 % 2 = 1) = s) ∧ (decide (av % 2 = 1) = pad) := by
  cases e <;> cases p <;> cases s <;> cases pad <;> decide

theorem getLast?_append_replicate (l : Bytes) (p : Nat) (x : UInt8) (hp : 0 < p) :
    (l ++ List.replicate p x).getLast? = some x := by
  obtain ⟨q, rfl⟩ : ∃ q, p = q + 1 := ⟨p - 1, by omega⟩
  rw [List.replicate_succ', ← List.append_assoc, List.getLast?_append]
  simp

theorem parseSeg_encSeg (s : PSeg) (rest : Bytes) (h1 : 1 ≤ s.payload.length) (h2 : s.payload.length ≤ 65000)
    (ht : s.type < 256) : parseSeg (encSeg s ++ rest) = some (s, rest) := by
  obtain ⟨e, t, pr, su, payload⟩ := s
  simp only at h1 h2 ht
  have hp := padLen_spec payload.length
  generalize hpd : padLen payload.length = p at hp
  have hav := attr_decode e pr su (p != 0)
  simp only [encSeg, hpd, attrByte, beN2, List.cons_append, List.nil_append, List.append_assoc, parseSeg, b8_toNat]
  generalize hA : (if e = true then 128 else 0) + (if pr = true then 64 else 0) + (if su = true then 32 else 0)
      + (if (p != 0) = true then 1 else 0) = av at hav
  simp only at hav
  obtain ⟨ha0, ha1, ha2, ha3, ha4, ha5⟩ := hav
  have hL : (payload.length + p + 4) / 256 % 256 * 256 + (payload.length + p + 4) % 256 = payload.length + p + 4 := by omega
  rw [hL, Nat.mod_eq_of_lt ha0, Nat.mod_eq_of_lt ht]
  have c1 : ¬ (payload.length + p + 4 < 16 ∨ (payload.length + p + 4) % 2 = 1 ∨
      (payload ++ (List.replicate p (b8 p) ++ rest)).length + 4 < payload.length + p + 4) := by
    simp; omega
  rw [if_neg c1, if_neg (by simpa using ha1)]
  have e1 : payload.length + p + 4 - 4 = (payload ++ List.replicate p (b8 p)).length := by simp
  rw [e1, ← List.append_assoc, List.take_left, List.drop_left]
  by_cases hp0 : p = 0
  · subst hp0
    have : ¬ av % 2 = 1 := by
      intro h; simp [h] at ha5
    simp only [this, ↓reduceIte, List.replicate_zero, List.append_nil]
    rw [ha2, ha3, ha4]
  · have hpad : av % 2 = 1 := by
      have : (p != 0) = true := by simp [hp0]
      rw [this] at ha5; simpa using ha5
    simp only [hpad, ↓reduceIte]
    rw [getLast?_append_replicate _ _ _ (by omega)]
    simp only [b8_toNat]
    have hp256 : p % 256 = p := by omega
    rw [hp256]
    have c2 : ¬ (p = 0 ∨ p > (payload ++ List.replicate p (b8 p)).length) := by simp; omega
    rw [if_neg c2]
    have e2 : (payload ++ List.replicate p (b8 p)).length - p = payload.length := by simp
    rw [e2, List.take_left]
    rw [ha2, ha3, ha4]

end Dlis

namespace Dlis

/-! ### visible records -/

/-- a segment the writer can emit for capacity `cap` -/
def SegOk (cap : Nat) (s : PSeg) : Prop := 1 ≤ s.payload.length ∧ s.payload.length ≤ cap ∧ s.type < 256

theorem segLen_bounds (cap : Nat) (s : PSeg) (hc : 12 ≤ cap) (he : cap % 2 = 0) (h : SegOk cap s) :
    16 ≤ segLen s ∧ segLen s ≤ cap + 4 ∧ segLen s % 2 = 0 := by
  have := padLen_spec s.payload.length
  unfold SegOk at h
  unfold segLen
  omega

theorem parseSegs_single (s : PSeg) (fuel : Nat) (hf : 1 ≤ fuel) (h1 : 1 ≤ s.payload.length)
    (h2 : s.payload.length ≤ 65000) (ht : s.type < 256) : parseSegs fuel (encSeg s) = some [s] := by
  obtain ⟨f, rfl⟩ : ∃ f, fuel = f + 1 := ⟨fuel - 1, by omega⟩
  have := parseSeg_encSeg s [] h1 h2 ht
  rw [List.append_nil] at this
  simp [parseSegs, this]

theorem parseVRs_cons (vrl : Nat) (s : PSeg) (tail : Bytes) (fuel : Nat)
    (hv : vrl ≤ 16384) (hc : 20 ≤ vrl) (he : vrl % 2 = 0) (h : SegOk (vrl - 8) s) :
    parseVRs vrl (fuel + 1) (encVR (encSeg s) ++ tail) = (parseVRs vrl fuel tail).map ([s] ++ ·) := by
  have hb := segLen_bounds (vrl - 8) s (by omega) (by omega) h
  have hl := encSeg_length s
  simp only [encVR, beN2, List.cons_append, List.nil_append, List.append_assoc, parseVRs, b8_toNat, hl]
  have hL : (segLen s + 4) / 256 % 256 * 256 + (segLen s + 4) % 256 = segLen s + 4 := by omega
  rw [hL]
  have c1 : ¬ (segLen s + 4 < 20 ∨ (segLen s + 4) % 2 = 1 ∨ segLen s + 4 > vrl ∨
      (encSeg s ++ tail).length + 4 < segLen s + 4) := by
    simp [hl]; omega
  rw [if_neg c1]
  have c2 : ¬ ((255 : UInt8) ≠ 255 ∨ (1 : UInt8) ≠ 1) := by simp
  rw [if_neg c2]
  have e1 : segLen s + 4 - 4 = (encSeg s).length := by rw [hl]; omega
  rw [e1, List.take_left, List.drop_left]
  unfold SegOk at h
  rw [parseSegs_single s _ (by rw [hl]; omega) h.1 (by omega) h.2.2]
  simp

theorem parseVRs_map (vrl : Nat) (hv : vrl ≤ 16384) (hc : 20 ≤ vrl) (he : vrl % 2 = 0) :
    ∀ (segs : List PSeg) (fuel : Nat), (∀ s ∈ segs, SegOk (vrl - 8) s) → segs.length ≤ fuel →
      parseVRs vrl fuel ((segs.map (fun s => encVR (encSeg s))).flatten) = some segs := by
  intro segs
  induction segs with
  | nil => intro fuel _ _; cases fuel <;> simp [parseVRs]
  | cons s ss ih =>
    intro fuel hok hf
    obtain ⟨f, rfl⟩ : ∃ f, fuel = f + 1 := ⟨fuel - 1, by simp at hf; omega⟩
    simp only [List.map_cons, List.flatten_cons]
    rw [parseVRs_cons vrl s _ f hv hc he (hok s (by simp))]
    rw [ih f (fun s' hs' => hok s' (by simp [hs'])) (by simp at hf; omega)]
    simp

/-- every segment produced for a record with a type byte is one the reader accepts -/
theorem segsOf_ok (cap : Nat) (hc : 12 ≤ cap) (r : Rec) (ht : r.type < 256) :
    ∀ s ∈ segsOf cap r, SegOk cap s := by
  intro s hs
  unfold segsOf at hs
  have hp := flagChunks_payloads r.isEflr r.type true (cut (splitSizes cap r.body.length r.body.length) r.body)
  have hmem : s.payload ∈ cut (splitSizes cap r.body.length r.body.length) r.body := by
    rw [← hp]; exact List.mem_map_of_mem hs
  have hlen := cut_lengths _ _ (splitSizes_sum cap hc _ _ (Nat.le_refl _)) _ hmem
  have hb := splitSizes_bounds cap hc _ _ _ hlen
  have hty : s.type = r.type := by
    clear hp hmem hlen hb
    generalize cut (splitSizes cap r.body.length r.body.length) r.body = cs at hs
    generalize true = first at hs
    induction cs generalizing first with
    | nil => simp [flagChunks] at hs
    | cons c cs ih =>
      cases cs with
      | nil => simp [flagChunks] at hs; rw [hs]
      | cons c' cs' =>
        simp only [flagChunks, List.mem_cons] at hs
        rcases hs with rfl | hs
        · rfl
        · exact ih false (by simpa [flagChunks] using hs)
  exact ⟨hb.1, hb.2, by rw [hty]; exact ht⟩

end Dlis

namespace Dlis

/-! ### storage unit label and the whole file -/

theorem justify_length {s : PStr} {len : Nat} {left : Bool} {b : Bytes} (h : justify s len left = .ok b) :
    b.length = len := by
  unfold justify at h
  split at h; · simp at h
  obtain ⟨rfl, _⟩ := asciiBytes_ok h
  split <;> simp <;> omega

theorem sulBytes_length {c : Cfg} {b : Bytes} (h : sulBytes c = .ok b) : b.length = 80 := by
  simp only [sulBytes, bind_ok, pure_ok] at h
  obtain ⟨a, ha, b', hb, d, hd, e, he, f, hf, rfl⟩ := h
  simp [justify_length ha, justify_length hb, justify_length hd, justify_length he, justify_length hf]

theorem flatten_length_ge {α : Type} (l : List (List α)) (h : ∀ x ∈ l, 1 ≤ x.length) : l.length ≤ l.flatten.length := by
  induction l with
  | nil => simp
  | cons x xs ih =>
    have := h x (by simp)
    have := ih (fun y hy => h y (by simp [hy]))
    simp only [List.length_cons, List.flatten_cons, List.length_append]; omega

theorem encVR_length (b : Bytes) : (encVR b).length = b.length + 4 := by
  simp [encVR, beN2]

theorem vrlValid_spec {v : Int} (h : vrlValid v = true) : 20 ≤ v ∧ v ≤ 16384 ∧ v % 2 = 0 := by
  unfold vrlValid at h; simpa using h

/-- the physical round-trip: reading back a written file yields the records (those with a non-empty body,
since an empty body produces no segment), in order, byte for byte, with flag and type -/
theorem readFile_frameFile (c : Cfg) (recs : List Rec) (out : Bytes) (ht : ∀ r ∈ recs, r.type < 256)
    (h : frameFile c recs = .ok out) :
    readFile c out = some (recs.filter (fun r => !r.body.isEmpty)) := by
  unfold frameFile at h
  split at h; · simp at h
  rename_i hv
  have hv : vrlValid c.vrl = true := by
    cases hx : vrlValid c.vrl <;> simp_all
  simp only [bind_ok, pure_ok] at h
  obtain ⟨sul, hsul, rfl⟩ := h
  have hv' := vrlValid_spec hv
  have hsl := sulBytes_length hsul
  have hvn : (c.vrl.toNat : Int) = c.vrl := Int.toNat_of_nonneg (by omega)
  have hcap : 12 ≤ c.vrl.toNat - 8 := by omega
  have hsegs : ∀ s ∈ recs.flatMap (segsOf (c.vrl.toNat - 8)), SegOk (c.vrl.toNat - 8) s := by
    intro s hs
    simp only [List.mem_flatMap] at hs
    obtain ⟨r, hr, hs⟩ := hs
    exact segsOf_ok _ hcap r (ht r hr) s hs
  unfold readFile
  have c1 : ¬ ((sul ++ frameRecs c.vrl.toNat recs).length < 80 ∨
      (!checkSul c (List.take 80 (sul ++ frameRecs c.vrl.toNat recs))) = true ∨ (!vrlValid c.vrl) = true) := by
    have : List.take 80 (sul ++ frameRecs c.vrl.toNat recs) = sul := by rw [← hsl, List.take_left]
    simp [this, checkSul, hsul, hsl, hv]
  rw [if_neg c1]
  have : List.drop 80 (sul ++ frameRecs c.vrl.toNat recs) = frameRecs c.vrl.toNat recs := by
    rw [← hsl, List.drop_left]
  rw [this]
  unfold frameRecs
  have hfuel : (recs.flatMap (segsOf (c.vrl.toNat - 8))).length ≤
      (sul ++ ((recs.flatMap (segsOf (c.vrl.toNat - 8))).map fun s => encVR (encSeg s)).flatten).length := by
    have := flatten_length_ge ((recs.flatMap (segsOf (c.vrl.toNat - 8))).map fun s => encVR (encSeg s))
      (by intro x hx; simp only [List.mem_map] at hx; obtain ⟨s, _, rfl⟩ := hx; rw [encVR_length]; omega)
    simp at this ⊢
    omega
  rw [parseVRs_map c.vrl.toNat (by omega) (by omega) (by omega) _ _ hsegs hfuel]
  exact assemble_segsOf _ hcap recs

/-- C15 at this layer: framing never fails because of body sizes — for every accepted record length and
every list of records `frameFile` succeeds as soon as the label fields fit -/
theorem frameFile_total (c : Cfg) (recs : List Rec) (hv : vrlValid c.vrl = true) (sul : Bytes)
    (hs : sulBytes c = .ok sul) : ∃ out, frameFile c recs = .ok out := by
  unfold frameFile
  simp only [hv, hs, Bool.not_true, Bool.false_eq_true, ↓reduceIte]
  exact ⟨_, rfl⟩

end Dlis
