/-
  Rounding a double to a single (`f64ToF32`, Model/Eflr.lean): what `struct.pack('>f', x)` writes for a Python float.
  Magnitudes are compared as natural numbers: a double in units of 2^-1074 (`f64Mag`), a single in units of 2^-149
  (`f32Mag`, scaled by 2^925 for the comparison).  `f32Mag` is defined on ALL magnitude bit patterns, continuing the
  exponent range upwards beyond 254, which is how IEEE 754 defines overflow.
-/
import Dlismodel.Model.Eflr
import Dlismodel.Proofs.Util
set_option linter.unusedSimpArgs false
namespace Dlis

/-- magnitude of a single given by its magnitude bits (sign removed), in units of 2^-149 -/
def f32Mag (k : Nat) : Nat :=
  if k / 2 ^ 23 = 0 then k % 2 ^ 23 else (2 ^ 23 + k % 2 ^ 23) * 2 ^ (k / 2 ^ 23 - 1)

/-- magnitude of a finite double, in units of 2^-1074 -/
def f64Mag (b : Nat) : Nat :=
  if b / 2 ^ 52 % 2048 = 0 then b % 2 ^ 52 else (2 ^ 52 + b % 2 ^ 52) * 2 ^ (b / 2 ^ 52 % 2048 - 1)

theorem f32Mag_succ (k : Nat) : f32Mag k < f32Mag (k + 1) := by
  unfold f32Mag
  by_cases hm : k % 2 ^ 23 + 1 < 2 ^ 23
  · have h1 : (k + 1) / 2 ^ 23 = k / 2 ^ 23 := by omega
    have h2 : (k + 1) % 2 ^ 23 = k % 2 ^ 23 + 1 := by omega
    rw [h1, h2]
    split
    · omega
    · have hp : 0 < 2 ^ (k / 2 ^ 23 - 1) := Nat.pow_pos (by decide)
      have : (2 ^ 23 + (k % 2 ^ 23 + 1)) * 2 ^ (k / 2 ^ 23 - 1) = (2 ^ 23 + k % 2 ^ 23) * 2 ^ (k / 2 ^ 23 - 1) + 2 ^ (k / 2 ^ 23 - 1) := by
        rw [← Nat.add_assoc, Nat.add_mul, Nat.one_mul]
      omega
  · have h1 : (k + 1) / 2 ^ 23 = k / 2 ^ 23 + 1 := by omega
    have h2 : (k + 1) % 2 ^ 23 = 0 := by omega
    have h3 : k % 2 ^ 23 = 2 ^ 23 - 1 := by omega
    rw [h1, h2, h3]
    simp only [Nat.add_sub_cancel, Nat.add_zero]
    split
    · rename_i he; rw [he]; simp
    · rename_i he
      have : k / 2 ^ 23 = (k / 2 ^ 23 - 1) + 1 := by omega
      generalize k / 2 ^ 23 - 1 = j at *
      rw [this, Nat.pow_succ]
      have hp : 0 < 2 ^ j := Nat.pow_pos (by decide)
      have : (2 ^ 23 + (2 ^ 23 - 1)) * 2 ^ j < 2 ^ 23 * (2 ^ j * 2) := by
        have : 2 ^ 23 * (2 ^ j * 2) = (2 ^ 23 * 2) * 2 ^ j := by
          rw [Nat.mul_comm (2 ^ j) 2, Nat.mul_assoc]
        rw [this]
        exact Nat.mul_lt_mul_of_pos_right (by decide) hp
      exact this

theorem f32Mag_mono {a b : Nat} (h : a ≤ b) : f32Mag a ≤ f32Mag b := by
  induction b with
  | zero => have : a = 0 := by omega
            subst this; exact Nat.le_refl _
  | succ n ih =>
    by_cases ha : a = n + 1
    · subst ha; exact Nat.le_refl _
    · exact Nat.le_trans (ih (by omega)) (Nat.le_of_lt (f32Mag_succ n))

theorem f32Mag_strict {a b : Nat} (h : a < b) : f32Mag a < f32Mag b :=
  Nat.lt_of_lt_of_le (f32Mag_succ a) (f32Mag_mono h)


/-- the singles around a double of exponent field `e'`: magnitude bits `f32Base e' + q` stand for `q` units of
`2 ^ f32Shift e'` double-units -/
theorem f32Mag_base (N e' q : Nat) (hN : N = 925) (he1 : 1 ≤ e') (hn : e' ≥ 897 → 2 ^ 23 ≤ q ∧ q ≤ 2 ^ 24)
    (hs : e' < 897 → q ≤ 2 ^ 23) :
    f32Mag (f32Base e' + q) * 2 ^ N = q * (2 ^ f32Shift e' * 2 ^ (e' - 1)) := by
  unfold f32Base f32Shift
  by_cases he : e' ≥ 897
  · simp only [he, if_true]
    obtain ⟨h1, h2⟩ := hn he
    have hpow : 2 ^ (e' - 897) * 2 ^ N = 2 ^ 29 * 2 ^ (e' - 1) := by
      have hx : e' - 897 + N = 29 + (e' - 1) := by omega
      calc 2 ^ (e' - 897) * 2 ^ N = 2 ^ (e' - 897 + N) := (Nat.pow_add ..).symm
        _ = 2 ^ (29 + (e' - 1)) := by rw [hx]
        _ = 2 ^ 29 * 2 ^ (e' - 1) := Nat.pow_add ..
    by_cases hq : q = 2 ^ 24
    · subst hq
      have hk : ((e' - 897) * 2 ^ 23 + 2 ^ 24) / 2 ^ 23 = (e' - 897) + 2 := by omega
      have hm : ((e' - 897) * 2 ^ 23 + 2 ^ 24) % 2 ^ 23 = 0 := by omega
      unfold f32Mag
      rw [hk, hm, if_neg (by omega)]
      have : e' - 897 + 2 - 1 = (e' - 897) + 1 := by omega
      rw [this, Nat.pow_succ (n := 2) (m := e' - 897), ← hpow, Nat.add_zero]
      generalize 2 ^ (e' - 897) = A
      generalize 2 ^ N = B
      have : (2:Nat) ^ 24 = 2 ^ 23 * 2 := Nat.pow_succ (n := 2) (m := 23)
      rw [this]
      generalize (2:Nat) ^ 23 = C
      ac_rfl
    · have hk : ((e' - 897) * 2 ^ 23 + q) / 2 ^ 23 = (e' - 897) + 1 := by omega
      have hm : ((e' - 897) * 2 ^ 23 + q) % 2 ^ 23 = q - 2 ^ 23 := by omega
      unfold f32Mag
      rw [hk, hm, if_neg (by omega)]
      have : 2 ^ 23 + (q - 2 ^ 23) = q := by omega
      rw [this, Nat.add_sub_cancel, Nat.mul_assoc, hpow]
  · simp only [he, if_false, Nat.zero_add]
    have hq := hs (by omega)
    have hpow : 2 ^ (926 - e') * 2 ^ (e' - 1) = 2 ^ N := by
      have hx : 926 - e' + (e' - 1) = N := by omega
      rw [← Nat.pow_add, hx]
    rw [hpow]
    congr 1
    unfold f32Mag
    by_cases hq2 : q = 2 ^ 23
    · subst hq2; decide
    · have h1 : q / 2 ^ 23 = 0 := by omega
      have h2 : q % 2 ^ 23 = q := by omega
      rw [h1, h2]; simp

def dist (a b : Nat) : Nat := (a - b) + (b - a)

theorem f32Shift_pos (e' : Nat) (h : e' ≤ 2046) : 1 ≤ f32Shift e' := by
  unfold f32Shift; split <;> omega

theorem f32Base_even (e' : Nat) : f32Base e' % 2 = 0 := by
  unfold f32Base; split <;> omega

/-- rounding picks, among ALL single magnitudes `t`, one nearest to the double `sig * 2 ^ (e' - 1)` (both in units of
2 ^ -1074, the single scaled by 2 ^ 925); when another one is equally near, the one picked has an even significand -/
theorem roundMag_spec (N sig e' : Nat) (hN : N = 925) (he1 : 1 ≤ e') (he2 : e' ≤ 2046) (hsig : sig < 2 ^ 53)
    (hnorm : e' ≥ 897 → 2 ^ 52 ≤ sig) (t : Nat) :
    dist (sig * 2 ^ (e' - 1)) (f32Mag (roundMag sig e') * 2 ^ N) ≤ dist (sig * 2 ^ (e' - 1)) (f32Mag t * 2 ^ N) ∧
    (t ≠ roundMag sig e' →
      dist (sig * 2 ^ (e' - 1)) (f32Mag (roundMag sig e') * 2 ^ N) = dist (sig * 2 ^ (e' - 1)) (f32Mag t * 2 ^ N) →
      roundMag sig e' % 2 = 0) := by
  have hsh := f32Shift_pos e' he2
  -- the range of the truncated quotient
  have hq : (e' ≥ 897 → 2 ^ 23 ≤ sig / 2 ^ f32Shift e' ∧ sig / 2 ^ f32Shift e' + 1 ≤ 2 ^ 24) ∧
      (e' < 897 → sig / 2 ^ f32Shift e' + 1 ≤ 2 ^ 23) := by
    constructor
    · intro h
      have := hnorm h
      have hs : f32Shift e' = 29 := by unfold f32Shift; simp [h]
      rw [hs]; omega
    · intro h
      have hs : f32Shift e' = 30 + (896 - e') := by unfold f32Shift; rw [if_neg (by omega)]; omega
      rw [hs, Nat.pow_add, ← Nat.div_div_eq_div_mul]
      have : sig / 2 ^ 30 / 2 ^ (896 - e') ≤ sig / 2 ^ 30 := Nat.div_le_self _ _
      omega
  have hlo := f32Mag_base N e' (sig / 2 ^ f32Shift e') hN he1 (fun h => ⟨(hq.1 h).1, by have := (hq.1 h).2; omega⟩)
    (fun h => by have := hq.2 h; omega)
  have hhi := f32Mag_base N e' (sig / 2 ^ f32Shift e' + 1) hN he1 (fun h => ⟨by have := (hq.1 h).1; omega, (hq.1 h).2⟩)
    (fun h => hq.2 h)
  rw [← Nat.add_assoc] at hhi
  have hdm := Nat.div_add_mod sig (2 ^ f32Shift e')
  have hr := Nat.mod_lt sig (Nat.pow_pos (n := f32Shift e') (show 0 < 2 by decide))
  have hhalf : 2 ^ (f32Shift e' - 1) * 2 = 2 ^ f32Shift e' := by
    rw [← Nat.pow_succ]; congr 1; omega
  have hU : 0 < 2 ^ (e' - 1) := Nat.pow_pos (by decide)
  have hNp : 0 < 2 ^ N := Nat.pow_pos (by decide)
  -- what any other single is worth
  have htlo : t ≤ f32Base e' + sig / 2 ^ f32Shift e' →
      f32Mag t * 2 ^ N ≤ sig / 2 ^ f32Shift e' * (2 ^ f32Shift e' * 2 ^ (e' - 1)) := by
    intro h; rw [← hlo]; exact Nat.mul_le_mul_right _ (f32Mag_mono h)
  have htlo' : t < f32Base e' + sig / 2 ^ f32Shift e' →
      f32Mag t * 2 ^ N < sig / 2 ^ f32Shift e' * (2 ^ f32Shift e' * 2 ^ (e' - 1)) := by
    intro h; rw [← hlo]; exact Nat.mul_lt_mul_of_pos_right (f32Mag_strict h) hNp
  have hthi : f32Base e' + sig / 2 ^ f32Shift e' + 1 ≤ t →
      (sig / 2 ^ f32Shift e' + 1) * (2 ^ f32Shift e' * 2 ^ (e' - 1)) ≤ f32Mag t * 2 ^ N := by
    intro h; rw [← hhi]; exact Nat.mul_le_mul_right _ (f32Mag_mono h)
  have hthi' : f32Base e' + sig / 2 ^ f32Shift e' + 1 < t →
      (sig / 2 ^ f32Shift e' + 1) * (2 ^ f32Shift e' * 2 ^ (e' - 1)) < f32Mag t * 2 ^ N := by
    intro h; rw [← hhi]; exact Nat.mul_lt_mul_of_pos_right (f32Mag_strict h) hNp
  -- the double, decomposed
  have hD : sig * 2 ^ (e' - 1) = sig / 2 ^ f32Shift e' * (2 ^ f32Shift e' * 2 ^ (e' - 1)) +
      sig % 2 ^ f32Shift e' * 2 ^ (e' - 1) := by
    conv => lhs; rw [← hdm]
    rw [Nat.add_mul]; congr 1
    generalize 2 ^ f32Shift e' = A; generalize sig / A = B; generalize 2 ^ (e' - 1) = C
    ac_rfl
  have hW : (sig / 2 ^ f32Shift e' + 1) * (2 ^ f32Shift e' * 2 ^ (e' - 1)) =
      sig / 2 ^ f32Shift e' * (2 ^ f32Shift e' * 2 ^ (e' - 1)) + 2 * (2 ^ (f32Shift e' - 1) * 2 ^ (e' - 1)) := by
    rw [Nat.add_mul, Nat.one_mul, ← hhalf]; congr 1
    generalize 2 ^ (f32Shift e' - 1) = A; generalize 2 ^ (e' - 1) = C
    ac_rfl
  have hbe := f32Base_even e'
  unfold roundMag roundUp
  generalize hq' : sig / 2 ^ f32Shift e' = q at *
  generalize hr' : sig % 2 ^ f32Shift e' = r at *
  generalize hh' : 2 ^ (f32Shift e' - 1) = h at *
  generalize hU' : 2 ^ (e' - 1) = U at *
  generalize hS' : 2 ^ f32Shift e' = S at *
  have hP1 : r > h → r * U > h * U := fun hh => Nat.mul_lt_mul_of_pos_right hh hU
  have hP2 : r ≤ h → r * U ≤ h * U := fun hh => Nat.mul_le_mul_right _ hh
  have hP3 : r * U < 2 * (h * U) := by
    have : r * U < (h * 2) * U := Nat.mul_lt_mul_of_pos_right (by omega) hU
    have e : h * 2 * U = 2 * (h * U) := by ac_rfl
    omega
  have hP4 : r = h → r * U = h * U := fun hh => by rw [hh]
  have hP5 : r < h → r * U < h * U := fun hh => Nat.mul_lt_mul_of_pos_right hh hU
  rw [hW] at hthi hthi' hhi
  rw [hD]
  generalize q * (S * U) = X at *
  generalize r * U = P at *
  generalize h * U = H at *
  generalize f32Mag t * 2 ^ N = St at *
  unfold dist
  split
  · -- rounded up
    rename_i hc
    rw [hhi]
    have hPH : P ≥ H := by rcases hc with hc | hc; exact Nat.le_of_lt (hP1 hc); rw [hP4 hc.1]; exact Nat.le_refl _
    have hstrict : P = H → q % 2 = 1 := by
      intro hpe
      rcases hc with hc | hc
      · have := hP1 hc; omega
      · exact hc.2
    by_cases hle : t ≤ f32Base e' + q
    · have := htlo hle
      refine ⟨by omega, fun _ heq => ?_⟩
      have : P = H := by omega
      have := hstrict this
      omega
    · have := hthi (by omega)
      refine ⟨by omega, fun hne heq => ?_⟩
      have := hthi' (by omega)
      omega
  · -- rounded down
    rename_i hc
    rw [Nat.add_zero, hlo]
    have hPH : P ≤ H := by
      apply hP2
      rcases Nat.lt_or_ge h r with hx | hx
      · exact absurd (Or.inl hx) hc
      · exact hx
    have hstrict : P = H → q % 2 = 0 := by
      intro hpe
      rcases Nat.lt_trichotomy r h with hx | hx | hx
      · have := hP5 hx; omega
      · have : ¬ (q % 2 = 1) := fun h2 => hc (Or.inr ⟨hx, h2⟩)
        omega
      · have := hP1 hx; omega
    by_cases hle : t ≤ f32Base e' + q
    · have := htlo hle
      refine ⟨by omega, fun hne heq => ?_⟩
      have := htlo' (by omega)
      omega
    · have := hthi (by omega)
      refine ⟨by omega, fun _ heq => ?_⟩
      have : P = H := by omega
      have := hstrict this
      omega

theorem f64Mag_eq (b : Nat) :
    f64Mag b = (if b / 2 ^ 52 % 2048 = 0 then b % 2 ^ 52 else 2 ^ 52 + b % 2 ^ 52) *
      2 ^ ((if b / 2 ^ 52 % 2048 = 0 then 1 else b / 2 ^ 52 % 2048) - 1) := by
  unfold f64Mag; split <;> simp

/-- **round to nearest**: for a finite double that is packed, the single has the double's sign, is finite, and no
single magnitude at all is nearer to the double's magnitude -/
theorem f64ToF32_nearest (b r : Nat) (hfin : b / 2 ^ 52 % 2048 ≠ 2047) (h : f64ToF32 b = .ok r) :
    r / 2 ^ 31 = b / 2 ^ 63 ∧ r % 2 ^ 31 < 255 * 2 ^ 23 ∧
      ∀ t, dist (f64Mag b) (f32Mag (r % 2 ^ 31) * 2 ^ 925) ≤ dist (f64Mag b) (f32Mag t * 2 ^ 925) := by
  unfold f64ToF32 at h
  dsimp only at h
  rw [if_neg hfin] at h
  rw [f64Mag_eq]
  have h1 : 1 ≤ (if b / 2 ^ 52 % 2048 = 0 then 1 else b / 2 ^ 52 % 2048) := by split <;> omega
  have h2 : (if b / 2 ^ 52 % 2048 = 0 then 1 else b / 2 ^ 52 % 2048) ≤ 2046 := by split <;> omega
  have h3 : (if b / 2 ^ 52 % 2048 = 0 then b % 2 ^ 52 else 2 ^ 52 + b % 2 ^ 52) < 2 ^ 53 := by split <;> omega
  have h4 : (if b / 2 ^ 52 % 2048 = 0 then 1 else b / 2 ^ 52 % 2048) ≥ 897 →
      2 ^ 52 ≤ (if b / 2 ^ 52 % 2048 = 0 then b % 2 ^ 52 else 2 ^ 52 + b % 2 ^ 52) := by
    by_cases hz : b / 2 ^ 52 % 2048 = 0
    · rw [if_pos hz, if_pos hz]; omega
    · rw [if_neg hz, if_neg hz]; omega
  generalize (if b / 2 ^ 52 % 2048 = 0 then b % 2 ^ 52 else 2 ^ 52 + b % 2 ^ 52) = sig at *
  generalize (if b / 2 ^ 52 % 2048 = 0 then 1 else b / 2 ^ 52 % 2048) = e' at *
  by_cases hlt : roundMag sig e' ≥ 255 * 2 ^ 23
  · rw [if_pos hlt] at h; cases h
  · rw [if_neg hlt] at h
    injection h with h
    subst h
    have hm : (b / 2 ^ 63 * 2 ^ 31 + roundMag sig e') % 2 ^ 31 = roundMag sig e' := by omega
    refine ⟨by omega, by omega, ?_⟩
    intro t
    rw [hm]
    exact (roundMag_spec 925 sig e' rfl h1 h2 h3 h4 t).1

theorem roundMag_exact (e' k : Nat) (he : e' ≥ 897) :
    roundMag (2 ^ 52 + k * 2 ^ 29) e' = (e' - 897) * 2 ^ 23 + (2 ^ 23 + k) := by
  unfold roundMag roundUp f32Shift f32Base
  rw [if_pos he, if_pos he]
  have q1 : (2 ^ 52 + k * 2 ^ 29) / 2 ^ 29 = 2 ^ 23 + k := by omega
  have q2 : (2 ^ 52 + k * 2 ^ 29) % 2 ^ 29 = 0 := by omega
  rw [q1, q2]
  rw [if_neg (by omega)]
  omega

theorem roundMag_zero : roundMag 0 1 = 0 := by
  unfold roundMag roundUp f32Shift f32Base
  rw [if_neg (by omega), if_neg (by omega), Nat.zero_div, Nat.zero_mod]
  have hp : 0 < 2 ^ (926 - 1 - 1) := Nat.pow_pos (by decide)
  rw [if_neg (by omega)]

/-- a single widened to a double (normal, zero or infinite) packs back to itself: representable values are exact -/
theorem f64ToF32_widen (b d : Nat) (hb : b < 2 ^ 32) (h : f32ToF64 b = some d) : f64ToF32 d = .ok b := by
  unfold f32ToF64 at h
  dsimp only at h
  unfold f64ToF32
  dsimp only
  split at h
  · split at h
    · injection h with h; subst h
      have : b / 2 ^ 31 < 2 := by omega
      have h1 : b / 2 ^ 31 * 2 ^ 63 / 2 ^ 52 % 2048 = 0 := by omega
      have h2 : b / 2 ^ 31 * 2 ^ 63 % 2 ^ 52 = 0 := by omega
      have h3 : b / 2 ^ 31 * 2 ^ 63 / 2 ^ 63 = b / 2 ^ 31 := by omega
      rw [h1, h2, h3, if_neg (by omega), if_pos rfl, if_pos rfl, roundMag_zero, if_neg (by omega)]
      congr 1
      omega
    · cases h
  · split at h
    · split at h
      · injection h with h; subst h
        have : b / 2 ^ 31 < 2 := by omega
        have h1 : (b / 2 ^ 31 * 2 ^ 63 + 2047 * 2 ^ 52) / 2 ^ 52 % 2048 = 2047 := by omega
        have h2 : (b / 2 ^ 31 * 2 ^ 63 + 2047 * 2 ^ 52) % 2 ^ 52 = 0 := by omega
        have h3 : (b / 2 ^ 31 * 2 ^ 63 + 2047 * 2 ^ 52) / 2 ^ 63 = b / 2 ^ 31 := by omega
        rw [h1, h2, h3]
        simp
        omega
      · cases h
    · injection h with h; subst h
      rename_i he0 he255
      have : b / 2 ^ 31 < 2 := by omega
      have h1 : (b / 2 ^ 31 * 2 ^ 63 + (b / 2 ^ 23 % 256 + 896) * 2 ^ 52 + b % 2 ^ 23 * 2 ^ 29) / 2 ^ 52 % 2048 =
          b / 2 ^ 23 % 256 + 896 := by omega
      have h2 : (b / 2 ^ 31 * 2 ^ 63 + (b / 2 ^ 23 % 256 + 896) * 2 ^ 52 + b % 2 ^ 23 * 2 ^ 29) % 2 ^ 52 =
          b % 2 ^ 23 * 2 ^ 29 := by omega
      have h3 : (b / 2 ^ 31 * 2 ^ 63 + (b / 2 ^ 23 % 256 + 896) * 2 ^ 52 + b % 2 ^ 23 * 2 ^ 29) / 2 ^ 63 = b / 2 ^ 31 := by
        omega
      rw [h1, h2, h3]
      have e1 : ¬ (b / 2 ^ 23 % 256 + 896 = 2047) := by omega
      have e2 : ¬ (b / 2 ^ 23 % 256 + 896 = 0) := by omega
      rw [if_neg e1, if_neg e2, if_neg e2]
      rw [roundMag_exact _ _ (by omega)]
      rw [if_neg (by omega)]
      congr 1
      omega

/-- ties go to the even significand -/
theorem f64ToF32_ties_to_even (b r t : Nat) (hfin : b / 2 ^ 52 % 2048 ≠ 2047) (h : f64ToF32 b = .ok r)
    (hne : t ≠ r % 2 ^ 31)
    (heq : dist (f64Mag b) (f32Mag (r % 2 ^ 31) * 2 ^ 925) = dist (f64Mag b) (f32Mag t * 2 ^ 925)) : r % 2 = 0 := by
  unfold f64ToF32 at h
  dsimp only at h
  rw [if_neg hfin] at h
  rw [f64Mag_eq] at heq
  have h1 : 1 ≤ (if b / 2 ^ 52 % 2048 = 0 then 1 else b / 2 ^ 52 % 2048) := by split <;> omega
  have h2 : (if b / 2 ^ 52 % 2048 = 0 then 1 else b / 2 ^ 52 % 2048) ≤ 2046 := by split <;> omega
  have h3 : (if b / 2 ^ 52 % 2048 = 0 then b % 2 ^ 52 else 2 ^ 52 + b % 2 ^ 52) < 2 ^ 53 := by split <;> omega
  have h4 : (if b / 2 ^ 52 % 2048 = 0 then 1 else b / 2 ^ 52 % 2048) ≥ 897 →
      2 ^ 52 ≤ (if b / 2 ^ 52 % 2048 = 0 then b % 2 ^ 52 else 2 ^ 52 + b % 2 ^ 52) := by
    by_cases hz : b / 2 ^ 52 % 2048 = 0
    · rw [if_pos hz, if_pos hz]; omega
    · rw [if_neg hz, if_neg hz]; omega
  generalize (if b / 2 ^ 52 % 2048 = 0 then b % 2 ^ 52 else 2 ^ 52 + b % 2 ^ 52) = sig at *
  generalize (if b / 2 ^ 52 % 2048 = 0 then 1 else b / 2 ^ 52 % 2048) = e' at *
  by_cases hlt : roundMag sig e' ≥ 255 * 2 ^ 23
  · rw [if_pos hlt] at h; cases h
  · rw [if_neg hlt] at h
    injection h with h
    subst h
    have hm : (b / 2 ^ 63 * 2 ^ 31 + roundMag sig e') % 2 ^ 31 = roundMag sig e' := by omega
    rw [hm] at heq hne
    have := (roundMag_spec 925 sig e' rfl h1 h2 h3 h4 t).2 hne heq
    omega

/-- a finite double is refused exactly when its rounding — with the single format's exponent range continued upwards,
as `f32Mag` does — reaches the magnitude bits of infinity: IEEE 754's definition of overflow; nothing else is refused -/
theorem f64ToF32_error_iff (b : Nat) (e : Err) :
    f64ToF32 b = .error e ↔
      e = .overflow ∧ b / 2 ^ 52 % 2048 ≠ 2047 ∧
        255 * 2 ^ 23 ≤ roundMag (if b / 2 ^ 52 % 2048 = 0 then b % 2 ^ 52 else 2 ^ 52 + b % 2 ^ 52)
          (if b / 2 ^ 52 % 2048 = 0 then 1 else b / 2 ^ 52 % 2048) := by
  unfold f64ToF32
  dsimp only
  by_cases hfin : b / 2 ^ 52 % 2048 = 2047
  · rw [if_pos hfin]; split <;> simp [hfin]
  · rw [if_neg hfin]
    generalize roundMag (if b / 2 ^ 52 % 2048 = 0 then b % 2 ^ 52 else 2 ^ 52 + b % 2 ^ 52)
      (if b / 2 ^ 52 % 2048 = 0 then 1 else b / 2 ^ 52 % 2048) = mag
    by_cases h : mag ≥ 255 * 2 ^ 23
    · rw [if_pos h]
      constructor
      · intro he; injection he with he; exact ⟨he.symm, hfin, h⟩
      · intro he; rw [he.1]
    · rw [if_neg h]
      constructor
      · intro he; cases he
      · intro he; exact absurd he.2.2 h

/-- infinities stay infinities of the same sign; a NaN stays a NaN of the same sign -/
theorem f64ToF32_special (b : Nat) (h : b / 2 ^ 52 % 2048 = 2047) :
    ∃ r, f64ToF32 b = .ok r ∧ r / 2 ^ 31 = b / 2 ^ 63 ∧ r / 2 ^ 23 % 256 = 255 ∧
      (r % 2 ^ 23 = 0 ↔ b % 2 ^ 52 = 0) := by
  unfold f64ToF32
  dsimp only
  rw [if_pos h]
  split
  · rename_i hm
    exact ⟨_, rfl, by omega, by omega, by omega⟩
  · rename_i hm
    exact ⟨_, rfl, by omega, by omega, by omega⟩

theorem f32Mag_inf : f32Mag (255 * 2 ^ 23) = 2 ^ 24 * 2 ^ 253 := by
  unfold f32Mag
  have h1 : 255 * 2 ^ 23 / 2 ^ 23 = 255 := by omega
  have h2 : 255 * 2 ^ 23 % 2 ^ 23 = 0 := by omega
  rw [h1, h2, if_neg (by omega), Nat.add_zero]

theorem f32Mag_max : f32Mag (255 * 2 ^ 23 - 1) = (2 ^ 24 - 1) * 2 ^ 253 := by
  unfold f32Mag
  have h1 : (255 * 2 ^ 23 - 1) / 2 ^ 23 = 254 := by omega
  have h2 : (255 * 2 ^ 23 - 1) % 2 ^ 23 = 2 ^ 23 - 1 := by omega
  rw [h1, h2, if_neg (by omega)]

/-- the refusal threshold as a value: a finite double is refused iff its magnitude is at least half-way between the
largest finite single (2^24 - 1) * 2^104 and 2^128, i.e. `(2^25 - 1) * 2^103` — in units of 2^-1074, doubled -/
theorem roundMag_overflow_iff (N sig e' : Nat) (hN : N = 925) (he1 : 1 ≤ e') (he2 : e' ≤ 2046) (hsig : sig < 2 ^ 53)
    (hnorm : e' ≥ 897 → 2 ^ 52 ≤ sig) :
    255 * 2 ^ 23 ≤ roundMag sig e' ↔ (2 ^ 25 - 1) * (2 ^ 253 * 2 ^ N) ≤ 2 * (sig * 2 ^ (e' - 1)) := by
  have hmax := (roundMag_spec N sig e' hN he1 he2 hsig hnorm (255 * 2 ^ 23 - 1))
  have hinf := (roundMag_spec N sig e' hN he1 he2 hsig hnorm (255 * 2 ^ 23))
  rw [f32Mag_inf] at hinf
  rw [f32Mag_max] at hmax
  have hNp : 0 < 2 ^ N := Nat.pow_pos (by decide)
  have hsum : (2 ^ 24 - 1) * 2 ^ 253 * 2 ^ N + 2 ^ 24 * 2 ^ 253 * 2 ^ N = (2 ^ 25 - 1) * (2 ^ 253 * 2 ^ N) := by
    rw [Nat.mul_assoc, Nat.mul_assoc, ← Nat.add_mul]
  have hlt : (2 ^ 24 - 1) * 2 ^ 253 * 2 ^ N < 2 ^ 24 * 2 ^ 253 * 2 ^ N := by
    rw [Nat.mul_assoc, Nat.mul_assoc]
    exact Nat.mul_lt_mul_of_pos_right (by omega) (Nat.mul_pos (Nat.pow_pos (by decide)) hNp)
  constructor
  · intro hc
    have hm : 2 ^ 24 * 2 ^ 253 * 2 ^ N ≤ f32Mag (roundMag sig e') * 2 ^ N := by
      rw [← f32Mag_inf]; exact Nat.mul_le_mul_right _ (f32Mag_mono hc)
    have h1 := hmax.1
    unfold dist at h1
    rw [← hsum]
    generalize f32Mag (roundMag sig e') * 2 ^ N = sc at *
    generalize (2 ^ 24 - 1) * 2 ^ 253 * 2 ^ N = a at *
    generalize 2 ^ 24 * 2 ^ 253 * 2 ^ N = k at *
    generalize sig * 2 ^ (e' - 1) = D at *
    omega
  · intro hD
    apply Classical.byContradiction
    intro hc
    have hc' : roundMag sig e' ≤ 255 * 2 ^ 23 - 1 := by omega
    have hm : f32Mag (roundMag sig e') * 2 ^ N ≤ (2 ^ 24 - 1) * 2 ^ 253 * 2 ^ N := by
      rw [← f32Mag_max]; exact Nat.mul_le_mul_right _ (f32Mag_mono hc')
    have h1 := hinf.1
    have h2 := hinf.2 (by omega)
    have hpar : roundMag sig e' = 255 * 2 ^ 23 - 1 → roundMag sig e' % 2 = 1 := by intro h; rw [h]
    have hstrict : roundMag sig e' < 255 * 2 ^ 23 - 1 → f32Mag (roundMag sig e') * 2 ^ N < (2 ^ 24 - 1) * 2 ^ 253 * 2 ^ N := by
      intro h; rw [← f32Mag_max]; exact Nat.mul_lt_mul_of_pos_right (f32Mag_strict h) hNp
    unfold dist at h1 h2
    rw [← hsum] at hD
    generalize f32Mag (roundMag sig e') * 2 ^ N = sc at *
    generalize (2 ^ 24 - 1) * 2 ^ 253 * 2 ^ N = a at *
    generalize 2 ^ 24 * 2 ^ 253 * 2 ^ N = k at *
    generalize sig * 2 ^ (e' - 1) = D at *
    by_cases hx : roundMag sig e' = 255 * 2 ^ 23 - 1
    · have := hpar hx
      by_cases heq : sc - D + (D - sc) = D - k + (k - D)
      · have := h2 (by omega); omega
      · omega
    · have := hstrict (by omega)
      omega

/-- the packed single fits its four bytes -/
theorem f64ToF32_lt (b r : Nat) (hb : b < 2 ^ 64) (h : f64ToF32 b = .ok r) : r < 2 ^ 32 := by
  unfold f64ToF32 at h
  dsimp only at h
  have hs : b / 2 ^ 63 < 2 := by omega
  split at h
  · split at h
    · injection h with h; omega
    · injection h with h; omega
  · generalize roundMag (if b / 2 ^ 52 % 2048 = 0 then b % 2 ^ 52 else 2 ^ 52 + b % 2 ^ 52)
      (if b / 2 ^ 52 % 2048 = 0 then 1 else b / 2 ^ 52 % 2048) = mag at h
    by_cases hm : mag ≥ 255 * 2 ^ 23
    · rw [if_pos hm] at h; cases h
    · rw [if_neg hm] at h; injection h with h; omega

/-- an integer converted to a double is a proper bit pattern -/
theorem intToF64_lt (i : Int) (d : Nat) (h : intToF64 i = some d) : d < 2 ^ 64 := by
  unfold intToF64 at h
  split at h
  · injection h with h; omega
  · dsimp only at h
    split at h
    · cases h
    · injection h with h
      rename_i h0 ha
      have hne : i.natAbs ≠ 0 := by omega
      have he : Nat.log2 i.natAbs < 53 := (Nat.log2_lt hne).mpr (by omega)
      have hself : i.natAbs < 2 ^ (Nat.log2 i.natAbs + 1) := Nat.lt_log2_self
      have hp : 0 < 2 ^ (52 - Nat.log2 i.natAbs) := Nat.pow_pos (by decide)
      have hm : i.natAbs * 2 ^ (52 - Nat.log2 i.natAbs) < 2 ^ 53 := by
        have h1 := Nat.mul_lt_mul_of_pos_right hself hp
        rw [← Nat.pow_add] at h1
        have : Nat.log2 i.natAbs + 1 + (52 - Nat.log2 i.natAbs) = 53 := by omega
        rwa [this] at h1
      generalize i.natAbs * 2 ^ (52 - Nat.log2 i.natAbs) = X at *
      generalize Nat.log2 i.natAbs = e at *
      have : (e + 1023) * 2 ^ 52 ≤ 1075 * 2 ^ 52 := Nat.mul_le_mul_right _ (by omega)
      split at h <;> omega

/-- the refusal, stated on values -/
theorem f64ToF32_overflow_iff (b : Nat) (e : Err) :
    f64ToF32 b = .error e ↔
      e = .overflow ∧ b / 2 ^ 52 % 2048 ≠ 2047 ∧ (2 ^ 25 - 1) * (2 ^ 253 * 2 ^ 925) ≤ 2 * f64Mag b := by
  rw [f64ToF32_error_iff, f64Mag_eq]
  constructor
  · intro ⟨h1, h2, h3⟩
    refine ⟨h1, h2, ?_⟩
    refine (roundMag_overflow_iff 925 _ _ rfl ?_ ?_ ?_ ?_).mp h3
    · split <;> omega
    · split <;> omega
    · split <;> omega
    · by_cases hz : b / 2 ^ 52 % 2048 = 0
      · rw [if_pos hz, if_pos hz]; omega
      · rw [if_neg hz, if_neg hz]; omega
  · intro ⟨h1, h2, h3⟩
    refine ⟨h1, h2, ?_⟩
    refine (roundMag_overflow_iff 925 _ _ rfl ?_ ?_ ?_ ?_).mpr h3
    · split <;> omega
    · split <;> omega
    · split <;> omega
    · by_cases hz : b / 2 ^ 52 % 2048 = 0
      · rw [if_pos hz, if_pos hz]; omega
      · rw [if_neg hz, if_neg hz]; omega

end Dlis
