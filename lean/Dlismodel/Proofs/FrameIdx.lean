import Dlismodel.Model.FrameIdx
import Dlismodel.Proofs.Util
namespace Dlis

@[simp] theorem IdxPart.forget_user {α : Type} (v : Option α) : (IdxPart.user v).forget = v := rfl
@[simp] theorem IdxPart.forget_assign {α : Type} (cur v : Option α) : (IdxPart.assign cur v).forget = cur := by
  cases cur with
  | some u => rfl
  | none => cases v <;> rfl

theorem FrameIdx.forget_forget (s : FrameIdx) : s.forget.forget = s.forget := by
  simp [FrameIdx.forget, FrameIdx.user]

/-- the setup sees only what the user assigned -/
theorem frameSetup_fresh (hc indexed : Bool) (xs : List Int) (s : FrameIdx) :
    frameSetup hc indexed xs s = frameSetup hc indexed xs s.forget := by
  unfold frameSetup
  simp [FrameIdx.forget, FrameIdx.user]

/-- and leaves what the user assigned, whether it succeeds or is refused half-way -/
theorem frameSetup_user (hc indexed : Bool) (xs : List Int) (s : FrameIdx) :
    (frameSetup hc indexed xs s).1.forget = s.forget := by
  unfold frameSetup
  simp only
  split
  · simp [FrameIdx.forget, FrameIdx.user]
  · split
    · split <;> simp [FrameIdx.forget, FrameIdx.user]
    · simp [FrameIdx.forget, FrameIdx.user]
    · simp [FrameIdx.forget, FrameIdx.user]

theorem frameHistory_user (h : List (Bool × Bool × List Int)) (s : FrameIdx) : (frameHistory h s).forget = s.forget := by
  induction h generalizing s with
  | nil => rfl
  | cons a rest ih =>
    obtain ⟨hc, indexed, xs⟩ := a
    simp only [frameHistory]; rw [ih, frameSetup_user]

/-- whatever writes went before — with other rows, refused or not — the index attributes a write derives, and its
outcome, are those of a fresh frame that carries only the user's own assignments -/
theorem frameSetup_after_any_history (h : List (Bool × Bool × List Int)) (hc indexed : Bool) (xs : List Int)
    (s : FrameIdx) :
    frameSetup hc indexed xs (frameHistory h s) = frameSetup hc indexed xs s.forget := by
  rw [frameSetup_fresh, frameHistory_user]

end Dlis
